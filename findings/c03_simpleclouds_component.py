"""Reproducer (C03, also C13/C19): SimpleCloudsContribution.prepare_each stores the deck in self._contrib only, while
contribute() reads self.sigma_xsec.  model_full_contrib() drives prepare_each directly, so the 'Clouds' component is
integrated with whatever the last prepare() left in sigma_xsec: stale after clouds_pressure changed, of the wrong shape after a
run on another grid, None on a model that was never evaluated.  Property C03: a source's transmittance equals the product
over its components.  Run with /venv/bin/python; prints the opaque layers of both routes and exits 1 when they differ."""
import sys
import numpy as np
from taurex.model import TransmissionModel
from taurex.contributions import SimpleCloudsContribution
from taurex.data.profiles.pressure import SimplePressureProfile
from taurex.data.profiles.temperature import Isothermal
from taurex.data.profiles.chemistry import TaurexChemistry

tm = TransmissionModel(temperature_profile=Isothermal(1000.0), chemistry=TaurexChemistry(),
                       pressure_profile=SimplePressureProfile(nlayers=10, atm_min_pressure=1e-1, atm_max_pressure=1e5))
tm.add_contribution(SimpleCloudsContribution(clouds_pressure=1e4))
tm.build()
tm._native_grid = np.linspace(1000.0, 2000.0, 5)          # no opacities loaded: give the model a native grid directly
type(tm).nativeWavenumberGrid = property(lambda self: self._native_grid)
tm.model()
tm['clouds_pressure'] = 1e2
_, full = tm.model_full_contrib()
_, contrib = tm.model_contrib()
opaque_component = (np.asarray(full['SimpleClouds'][0][2])[:, 0] == 0).astype(int)
opaque_source = (np.asarray(contrib['SimpleClouds'][1])[:, 0] == 0).astype(int)
print('opaque layers, contribution route:', opaque_source)
print('opaque layers, component route   :', opaque_component)
sys.exit(0 if (opaque_component == opaque_source).all() else 1)
