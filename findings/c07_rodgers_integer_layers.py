"""Reproducer (C07 "writing a parameter vector sets exactly the fitted parameters to the prior-transformed values"):
Rodgers2000 kept np.array(temperature_layers) as given; layer temperatures written as whole numbers (Python ints) make an
INTEGER array, so every later write through the T_<n> fitting parameters — what Optimizer.update_model does — is truncated.
Run with /venv/bin/python; exit 1 when the written value is not the value held."""
import sys, warnings
warnings.filterwarnings('ignore')
import taurex.log
taurex.log.disableLogging()
from taurex.data.profiles.temperature.rodgers import Rodgers2000

t = Rodgers2000(temperature_layers=[1000, 900, 800])
fp = t.fitting_parameters()
name = sorted(k for k in fp if k.startswith('T_'))[0]
fp[name][3](1234.56)
held = fp[name][2]()
print('%s written 1234.56, holds %r' % (name, held))
sys.exit(0 if held == 1234.56 else 1)
