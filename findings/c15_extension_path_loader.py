"""Reproducer (C15: "all well-formed input files … including … custom-class files"): the documented way to make one's own
classes selectable, `[Global] extension_paths = <dir>` (ParameterParser.setup_globals -> ClassFactory.set_extension_paths ->
load_extension_paths), raised AttributeError for every non-empty path: load_extension_paths logs with `self.info(...)`, but
ClassFactory has no `info` (its logger is `self.log`).  A well-formed input file with that key could not be read at all and no
selector of a class in such a file resolved.  Run with /venv/bin/python; exit 1 when the selector does not resolve."""
import os, sys, tempfile, warnings
warnings.filterwarnings('ignore')
import taurex.log
taurex.log.disableLogging()
from taurex.parameter import ParameterParser

d = tempfile.mkdtemp()
open(os.path.join(d, 'mytemp.py'), 'w').write('''
import numpy as np
from taurex.temperature import TemperatureProfile
class MyTemp(TemperatureProfile):
    def __init__(self, value=1000.0):
        super().__init__('MyTemp')
        self.value = value
    @property
    def profile(self):
        return np.full(self.nlayers, self.value)
    @classmethod
    def input_keywords(cls):
        return ['mytemp']
''')
par = os.path.join(d, 'in.par')
open(par, 'w').write('[Global]\nextension_paths = %s,\n[Temperature]\nprofile_type = mytemp\nvalue = 1234.5\n' % d)
pp = ParameterParser()
try:
    pp.read(par)
    pp.setup_globals()
    t = pp.generate_temperature_profile()
    print(type(t).__name__, t.value)
    ok = type(t).__name__ == 'MyTemp' and t.value == 1234.5
except Exception as e:
    print('raised %r' % (e,))
    ok = False
sys.exit(0 if ok else 1)
