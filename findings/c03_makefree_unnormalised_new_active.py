"""Reproducer (C03 "a species at zero abundance changes nothing" / C10 "mixing ratios sum to one"): MakeFreeMixin
.activeGasMixProfile returned the rows of NEW absorbing molecules WITHOUT dividing by the normalisation when the wrapped
chemistry has no absorbing molecule of its own (`if mix_profile is None: return nonexist_profile`), while every other row of
the published mixture is renormalised: the mixture then does not sum to one, and the same atmosphere written with an extra
file column at zero abundance (which makes `mix_profile` non-None) gets different abundances for the free gases.
Run with /venv/bin/python; exits 1 when the published mixture does not sum to one."""
import os, sys, tempfile, warnings
import numpy as np
warnings.filterwarnings('ignore')
import taurex.log
taurex.log.disableLogging()
from taurex.cache import OpacityCache
from taurex.opacity.interpolateopacity import InterpolatingOpacity
from taurex.mixin import enhance_class, MakeFreeMixin
from taurex.data.profiles.chemistry.filechemistry import ChemistryFile
from taurex.data.profiles.chemistry import ConstantGas


class Mem(InterpolatingOpacity):
    def __init__(self, name):
        super().__init__('mem:' + name, interpolation_mode='linear')
        self._n = name
        self._wn = np.linspace(1000.0, 2000.0, 5)
        self._x = np.full((2, 2, 5), 1e-22)
    moleculeName = property(lambda s: s._n)
    xsecGrid = property(lambda s: s._x)
    wavenumberGrid = property(lambda s: s._wn)
    temperatureGrid = property(lambda s: np.array([500.0, 2000.0]))
    pressureGrid = property(lambda s: np.array([1e-2, 1e6]))
    resolution = property(lambda s: 100.0)


OpacityCache().clear_cache()
OpacityCache().add_opacity(Mem('H2O'))
nl = 3
fn = os.path.join(tempfile.mkdtemp(), 'chem.dat')
np.savetxt(fn, np.column_stack([np.full(nl, 0.85), np.full(nl, 0.15)]))
chem = enhance_class(ChemistryFile, MakeFreeMixin, gases=['H2', 'He'], filename=fn)
chem.addGas(ConstantGas('H2O', 0.5))
chem.initialize_chemistry(nl, np.full(nl, 1000.), np.logspace(5, 0, nl), None)
tot = 0.0
for names, t in ((chem.activeGases, chem.activeGasMixProfile), (chem.inactiveGases, chem.inactiveGasMixProfile)):
    for n, r in zip(names, t):
        print('%-4s %.4f' % (n, r[0]))
        tot = tot + r[0]
print('sum of the published mixture: %.4f' % tot)
sys.exit(0 if abs(tot - 1.0) < 1e-12 else 1)
