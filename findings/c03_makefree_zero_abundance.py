"""Reproducer (C03 "a species at zero abundance changes nothing"; also the mean-molecular-weight clause of C10 for a
makefree chemistry): MakeFreeMixin.compute_mu_profile took the mean molecular weight from the WRAPPED chemistry's own table
(AutoChemistry.compute_mu_profile reads self.mixProfile = the file) and only added the molecules that are new.  A molecule of
the file that is freed keeps the FILE's abundance in mu, and nothing is renormalised: mu != sum(mix * mass) of the published
mixture, so a heavy molecule freed to zero abundance still shrinks the scale height and changes the spectrum.
Run with /venv/bin/python; exits 1 when mu differs from the weight of the published mixture."""
import os, sys, tempfile, warnings
import numpy as np
warnings.filterwarnings('ignore')
import taurex.log
taurex.log.disableLogging()
from taurex.mixin import enhance_class, MakeFreeMixin
from taurex.data.profiles.chemistry.filechemistry import ChemistryFile
from taurex.data.profiles.chemistry import ConstantGas
from taurex.util.util import get_molecular_weight

nl = 4
cols = dict(H2=np.full(nl, 0.60), He=np.full(nl, 0.10), CO2=np.full(nl, 0.30))
fn = os.path.join(tempfile.mkdtemp(), 'chem.dat')
np.savetxt(fn, np.column_stack(list(cols.values())))
chem = enhance_class(ChemistryFile, MakeFreeMixin, gases=list(cols), filename=fn)
chem.addGas(ConstantGas('CO2', 0.0))          # the file's CO2 (30 %) freed to ZERO abundance
chem.initialize_chemistry(nl, np.full(nl, 1000.), np.logspace(5, 0, nl), None)
names = list(chem.activeGases) + list(chem.inactiveGases)
rows = [r for t in (chem.activeGasMixProfile, chem.inactiveGasMixProfile) if t is not None for r in t]
for n, r in zip(names, rows):
    print('%-4s %.4f' % (n, r[0]))
amu = 1.66053906660e-27
mu_tables = sum(np.asarray(r) * get_molecular_weight(n) for n, r in zip(names, rows))[0] / amu
mu = chem.muProfile[0] / amu
print('mu reported %.4f amu, weight of the published mixture %.4f amu (H2/He only: %.4f)' % (
    mu, mu_tables, (0.6 * get_molecular_weight('H2') + 0.1 * get_molecular_weight('He')) / 0.7 / amu))
sys.exit(0 if abs(mu - mu_tables) <= 1e-9 * mu_tables else 1)
