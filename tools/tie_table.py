#!/usr/bin/env python3
"""Rewrites the source-tie table of DESIGN.md (section 2.6) from lean/TaurexModel/Gen/Src*.lean and lean/Props/*Src.lean."""
import os, re, glob
HERE = os.path.dirname(os.path.dirname(os.path.abspath(__file__)))
rows = []
tot_f = tot_t = 0
for gen in sorted(glob.glob(os.path.join(HERE, 'lean', 'TaurexModel', 'Gen', 'SrcC??.lean'))):
    pid = os.path.basename(gen)[3:6]
    funcs = []
    for m, f in re.findall(r'translated from (\S+?):\d+ `([^`]+)`', open(gen).read()):
        t = '%s:%s' % (m.replace('taurex/', ''), f)
        if t not in funcs:
            funcs.append(t)
    pth = os.path.join(HERE, 'lean', 'Props', pid + 'Src.lean')
    src = re.sub(r'/-.*?-/', ' ', open(pth).read(), flags=re.S) if os.path.exists(pth) else ''
    thms = re.findall(r'^theorem\s+(\S+)', src, re.M)
    tot_f += len(funcs); tot_t += len(thms)
    rows.append('| %s | %d | %d | %s |' % (pid, len(funcs), len(thms), ', '.join('`%s`' % f for f in funcs)))
table = ('| property | translated functions | tie theorems | functions (module:function, regenerated every run) |\n|---|---|---|---|\n'
         + '\n'.join(rows) + '\n\nTotal: %d translated functions, %d tie theorems.' % (tot_f, tot_t))
p = os.path.join(HERE, 'DESIGN.md')
s = open(p).read()
b, e = '<!-- TIE-TABLE-BEGIN -->', '<!-- TIE-TABLE-END -->'
if b in s:
    s = s[:s.index(b) + len(b)] + '\n' + table + '\n' + s[s.index(e):]
    open(p, 'w').write(s)
print(table[-200:])
