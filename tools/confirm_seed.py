#!/usr/bin/env python3
"""confirm_seed.py <pid> <srcdir> <name> [--props C04,C13]
Confirms a seeded breaking change independently and files it under /verif/seeded/<name>/:
  1. scratch worktree of /repo HEAD, `git apply patch.diff`;
  2. demo passes on the clean tree, fails on the changed tree (PYTHONPATH selects the tree);
  3. the pinned baseline tests (stable_pass of /root/.vp/BASELINE.json) all still pass on the changed tree;
  4. our check(s) are run against the changed tree (PYTHONPATH) and their verdict recorded.
The scratch worktree is removed at the end."""
import sys, os, json, subprocess, shutil, tempfile, time
import xml.etree.ElementTree as ET

VROOT = os.environ.get('VERIF_ROOT', '/verif')   # a private copy of /verif to run the checks in (seeded/ is always /verif's)


def sh(cmd, **kw):
    return subprocess.run(cmd, shell=True, capture_output=True, text=True, **kw)

def main():
    pid, src, name = sys.argv[1:4]
    props = [pid]
    if '--props' in sys.argv:
        props = sys.argv[sys.argv.index('--props') + 1].split(',')
    skip_suite = '--skip-suite' in sys.argv
    own_wt = '--wt' not in sys.argv
    if own_wt:
        wt = tempfile.mkdtemp(prefix='cw_%s_' % name, dir='/tmp')
        os.rmdir(wt)
    else:
        wt = sys.argv[sys.argv.index('--wt') + 1]   # the seeder's own worktree (demos may assert on its path)
    out = os.path.join('/verif/seeded', name)
    os.makedirs(out, exist_ok=True)
    res = dict(property=pid, name=name)
    try:
        head = sh('git -C /repo rev-parse --short HEAD').stdout.strip()
        if own_wt:
            r = sh('git -C /repo worktree add -q --detach %s HEAD' % wt)
        else:
            r = sh('git -C %s checkout -q -- . && git -C %s clean -fdq && git -C %s checkout -q --detach %s' % (wt, wt, wt, head))
        assert r.returncode == 0, r.stderr
        res['repo_head'] = head
        patch = os.path.join(src, 'patch.diff')
        demo = os.path.join(src, 'demo.py')
        env_clean = dict(os.environ, PYTHONPATH=wt)
        r = sh('cd /tmp && /venv/bin/python -W ignore %s' % demo, env=env_clean, timeout=900)
        res['demo_on_clean'] = r.returncode
        res['demo_clean_tail'] = (r.stdout + r.stderr)[-200:]
        r = sh('git -C %s apply %s' % (wt, patch))
        res['applies'] = r.returncode == 0
        if r.returncode != 0:
            r = sh('git -C %s apply --3way %s' % (wt, patch))
            res['applies_3way'] = r.returncode == 0
            if r.returncode != 0:
                res['error'] = 'patch does not apply: ' + r.stderr[-300:]
                print(json.dumps(res, indent=1)); return 1
        env_mut = dict(os.environ, PYTHONPATH=wt)
        r = sh('cd /tmp && /venv/bin/python -W ignore %s' % demo, env=env_mut, timeout=900)
        res['demo_on_changed'] = r.returncode
        res['demo_changed_tail'] = (r.stdout + r.stderr)[-400:]
        if not skip_suite:
            jx = os.path.join(wt, '_junit.xml')
            t0 = time.time()
            r = sh('cd %s && /venv/bin/python -m pytest -q -p no:cacheprovider --timeout=900 '
                   '--continue-on-collection-errors --junitxml=%s > /dev/null 2>&1' % (wt, jx), env=env_mut, timeout=3000)
            b = json.load(open('/root/.vp/BASELINE.json'))
            passed = {}
            for tc in ET.parse(jx).iter('testcase'):
                passed[tc.get('classname') + '::' + tc.get('name')] = not any(
                    c.tag in ('failure', 'error', 'skipped') for c in tc)
            missing = [n for n in b['stable_pass'] if not passed.get(n)]
            res['suite_stable_failing'] = missing
            res['suite_wall_s'] = round(time.time() - t0)
        checks = {}
        for p in props:
            for seed in (0,):
                r = sh('cd %s && VERIF_SEED=%%d ./check %%s --tier quick' % VROOT % (seed, p), env=env_mut, timeout=3000)
                lines = [l for l in r.stdout.splitlines() if l.startswith(('VIOLATION', 'KNOWN-FINDING', 'INFRA'))]
                lines.sort(key=lambda l: not l.startswith('VIOLATION'))   # stable: VIOLATION lines first, then the rest
                checks['%s/quick/seed%d' % (p, seed)] = dict(exit=r.returncode, lines=lines[:6],
                                                             summary=r.stdout.strip().splitlines()[-1:] )
        res['checks'] = checks
        res['detected'] = any(c['exit'] == 1 and any(l.startswith('VIOLATION') for l in c['lines'])
                              for c in checks.values())
        shutil.copy(patch, os.path.join(out, 'patch.diff'))
        shutil.copy(demo, os.path.join(out, 'demo.py'))
        meta = {}
        mp = os.path.join(src, 'meta.json')
        if os.path.exists(mp):
            try:
                meta = json.load(open(mp))
            except Exception:
                meta = dict(raw=open(mp).read())
        meta['confirmed'] = res
        meta['confirmed_by'] = ('tools/confirm_seed.py: applied in a scratch worktree of /repo HEAD %s; demo run on clean and '
                                'changed tree; pinned baseline tests run on the changed tree; checks run with '
                                'PYTHONPATH=<changed tree>' % head)
        json.dump(meta, open(os.path.join(out, 'meta.json'), 'w'), indent=1)
        print(json.dumps(res, indent=1))
    finally:
        if own_wt:
            sh('git -C /repo worktree remove --force %s' % wt)
            shutil.rmtree(wt, ignore_errors=True)
        else:
            sh('git -C %s checkout -q -- . && git -C %s clean -fdq' % (wt, wt))
        # the checks above rewrote evidence from the changed tree; the caller re-runs them on /repo
    return 0

if __name__ == '__main__':
    sys.exit(main())
