#!/usr/bin/env python3
"""Regenerates every TaurexModel/Gen/Src<Cxx>.lean from /repo and rebuilds every Props/<Cxx>Src.lean.
Run (with /venv/bin/python) after any edit of harness/translate.py: all ties must still check on the unchanged tree."""
import sys, os, importlib, glob
sys.path.insert(0, os.path.dirname(os.path.dirname(os.path.abspath(__file__))))
from harness import common as C
bad = 0
for p in sorted(glob.glob(os.path.join(C.LEAN, 'Props', 'C??Src.lean'))):
    pid = os.path.basename(p)[:3]
    mod = importlib.import_module('harness.' + pid.lower())
    t = C.source_tie(pid, mod)
    if t is None:
        print(pid, 'has a Props/%sSrc.lean but no SRC_SPECS' % pid); bad += 1; continue
    print(pid, 'ok' if t['ok'] else 'BROKEN', len(t['info']['functions']), 'functions', t['failures'][:2])
    bad += 0 if t['ok'] else 1
sys.exit(1 if bad else 0)
