#!/bin/sh
# tools/confirm_batch.sh <pid> <srcroot> <first-new-index>  — confirm out/1..3 as <pid>-<first>.. in a private copy (VERIF_ROOT)
pid=$1; src=$2; first=${3:-4}; props=${4:-$pid}
cd /verif
for k in 1 2 3; do
  [ -d "$src/$k" ] || continue
  python3 tools/confirm_seed.py $pid $src/$k $pid-$((k+first-1)) --props $props 2>&1 | python3 -c "
import sys,json
t=sys.stdin.read()
try:
    r=json.loads(t[t.index('{'):]); print(r['name'],'clean',r['demo_on_clean'],'changed',r['demo_on_changed'],'suite',r.get('suite_stable_failing'),{k:(v['exit'],v['summary']) for k,v in r['checks'].items()})
except Exception as e: print('ERR',t[-800:])
"
done
