#!/usr/bin/env python3
"""Regenerates /verif/MANIFEST.json from the table below (keeps it schema-valid at all times)."""
import json, os
HERE = os.path.dirname(os.path.dirname(os.path.abspath(__file__)))
TITLES = {json.loads(l)['id']: json.loads(l)['title'] for l in open(os.path.join(HERE, 'properties.jsonl'))}

TECH = 'Lean 4 theorems about a hand-written carrier-polymorphic model + differential correspondence check against /repo'
CLAIMED = {k: (v['sec'], v['text'], v.get('tech', TECH)) for k, v in json.load(open(os.path.join(HERE, 'tools', 'claims.json'))).items()}
NOT_YET = {}

def tie_info(pid):
    """(number of tie theorems, translated functions) when the property has a source tie (lean/Props/<pid>Src.lean)"""
    import re, ast
    pth = os.path.join(HERE, 'lean', 'Props', pid + 'Src.lean')
    if not os.path.exists(pth):
        return None
    src = re.sub(r'/-.*?-/', ' ', open(pth).read(), flags=re.S)
    nthm = len(re.findall(r'^theorem\s+\S+', src, re.M))
    funcs = []
    gen = os.path.join(HERE, 'lean', 'TaurexModel', 'Gen', 'Src%s.lean' % pid)
    if os.path.exists(gen):
        funcs = re.findall(r'translated from (\S+?):\d+ `([^`]+)`', open(gen).read())
    seen = []
    for m, f in funcs:
        t = '%s:%s' % (m.replace('taurex/', ''), f)
        if t not in seen:
            seen.append(t)
    return nthm, seen


TIE_TECH = ('Lean 4 theorems about a carrier-polymorphic model + source tie (kernels regenerated from the Python source by '
            'harness/translate.py on every run and proved equal to the model) + differential correspondence check against /repo')


def main():
    checks = []
    for pid in sorted(CLAIMED):
        sec, text, tech = CLAIMED[pid]
        # as built: theorems of Props/Cxx.lean that the claim text (written in round 3) does not name yet
        import re as _re
        _src = _re.sub(r'/-.*?-/', ' ', open(os.path.join(HERE, 'lean', 'Props', pid + '.lean')).read(), flags=_re.S)
        _thms = _re.findall(r'^theorem\s+(\S+)', _src, _re.M)
        _new = [t for t in _thms if t not in text]
        if _new:
            text = text + (' As built after rounds 5-7 Props/%s.lean holds %d audited theorems; the most recent, added for further '
                           'construction routes, object histories and input classes (DESIGN.md section 10): %s.'
                           % (pid, len(_thms), ('… ' if len(_new) > 16 else '') + ', '.join(_new[-16:])))
        ti = tie_info(pid)
        note_tie = ''
        if ti:
            nthm, funcs = ti
            text = text + (' Source tie: %d further theorems (Props/%sSrc.lean) prove that the definitions regenerated on every '
                           'run from the source text of %s equal the model functions above; a source change that alters one of '
                           'them breaks its theorem.' % (nthm, pid, ', '.join(funcs[:14]) + (' …' if len(funcs) > 14 else '')))
            if tech == TECH:
                tech = TIE_TECH
            note_tie = (' For the functions of the source tie the model is additionally proved equal to definitions regenerated '
                        'from the source text on every run (DESIGN.md 2.6); there the translator harness/translate*.py is the '
                        'trusted part.')
        checks.append(dict(
            property_id=pid,
            quick_cmd='./check %s --tier quick' % pid,
            thorough_cmd='./check %s --tier thorough' % pid,
            evidence_file='/verif/evidence/%s.json' % pid,
            replay_cmd_template='./check %s --replay {path}' % pid,
            engine='lean-model+correspondence',
            level_claimed=dict(category='proof', text=text, design_ref='DESIGN.md section ' + sec),
            level_note='Trusted: Lean 4.33 kernel, Mathlib v4.33, axioms propext/Classical.choice/Quot.sound (audited '
                       'each run with #print axioms; no sorry/native_decide/bv_decide/own axioms). The model is '
                       'hand-written and tied to /repo only by the correspondence check of this property (differential '
                       'testing on generated inputs); Float rounding is not modelled; external numpy/scipy calls are '
                       'assumed as listed in DESIGN.md 2.3.' + note_tie,
            technique=tech))
    na = [dict(property_id=p, reason=NOT_YET.get(p, 'check not built yet in this round (planned at level proof, see DESIGN.md section 7)'))
          for p in sorted(TITLES) if p not in CLAIMED]
    m = dict(
        version=1,
        setup_cmd='cd /verif/lean && lake build',
        hooks=dict(guard='TAUREX3_VERIF', enable='no source hooks: every observable is reached through public API, '
                   'sys.modules injection or harness-side wrappers; the checks set TAUREX3_VERIF=1 for uniformity',
                   baseline_off_cmd='cd /repo && /venv/bin/python -m pytest -ra -q -p no:cacheprovider --timeout=900 '
                                    '--continue-on-collection-errors',
                   source_commits=[], add_only=True),
        engines=[dict(name='lean-model+correspondence', path='/verif/lean + /verif/harness',
                      serves_properties=sorted(CLAIMED),
                      kind_free_text='Lean 4 model (import-free, carrier-polymorphic), theorems over the reals in '
                                     'Props/*.lean, compiled driver run on Float, Python differential harness')],
        checks=checks,
        notes='See DESIGN.md. Exit codes: 0 held, 1 violation, 2 infrastructure failure.',
        not_applicable=na)
    json.dump(m, open(os.path.join(HERE, 'MANIFEST.json'), 'w'), indent=1)
    print('MANIFEST.json: %d checks, %d not claimed' % (len(checks), len(na)))

if __name__ == '__main__':
    main()
