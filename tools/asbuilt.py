#!/usr/bin/env python3
"""Inserts / refreshes an 'As built' block under every '### Cxx —' heading of DESIGN.md section 7, generated from
tools/claims.json (what is claimed) and lean/Props/Cxx.lean (the audited theorem names)."""
import json, os, re, sys
sys.path.insert(0, os.path.dirname(os.path.dirname(os.path.abspath(__file__))))
from harness import common as C
HERE = C.VERIF
claims = json.load(open(os.path.join(HERE, 'tools', 'claims.json')))
p = os.path.join(HERE, 'DESIGN.md')
s = open(p).read()
for pid in sorted(claims):
    names, _ = C.prop_theorems(pid)
    short = [n.split('.')[-1] for n in names]
    block = ('<!-- ASBUILT:%s -->\n**As built (%d audited theorems in `Props/%s.lean`).** %s\n\nTheorems: %s.\n<!-- /ASBUILT:%s -->\n'
             % (pid, len(names), pid, claims[pid]['text'], ', '.join('`%s`' % n for n in short), pid))
    pat = re.compile(r'<!-- ASBUILT:%s -->.*?<!-- /ASBUILT:%s -->\n' % (pid, pid), re.S)
    if pat.search(s):
        s = pat.sub(lambda m: block, s)
    else:
        m = re.search(r'^### %s — .*\n' % pid, s, re.M)
        if m:
            s = s[:m.end()] + '\n' + block + s[m.end():]
open(p, 'w').write(s)
print('as-built blocks refreshed for', len(claims), 'properties')
