#!/usr/bin/env python3
"""Rewrites section 10 of DESIGN.md (which checks catch which seeded changes) from /verif/seeded/*/meta.json."""
import json, os, glob, re
HERE = os.path.dirname(os.path.dirname(os.path.abspath(__file__)))
rows = []
for d in sorted(glob.glob(os.path.join(HERE, 'seeded', '*'))):
    mp = os.path.join(d, 'meta.json')
    if not os.path.exists(mp):
        continue
    m = json.load(open(mp))
    c = m.get('confirmed', {})
    name = os.path.basename(d)
    caught = [k.split('/')[0] for k, v in c.get('checks', {}).items() if v.get('exit') == 1 and any(l.startswith('VIOLATION') for l in v.get('lines', []))]
    status = m.get('status')
    if not status:
        if c.get('demo_on_clean') == 0 and c.get('demo_on_changed') not in (0, None) and c.get('suite_stable_failing') == []:
            status = 'confirmed'
        elif 'suite_stable_failing' not in c:
            status = 'demo confirmed (suite not re-run)'
        else:
            status = 'NOT confirmed'
    summ = (m.get('summary') or '').replace('|', '/').replace('\n', ' ')
    needs = (m.get('needs') or '').replace('|', '/').replace('\n', ' ')
    if len(summ) > 230: summ = summ[:227] + '...'
    if len(needs) > 200: needs = needs[:197] + '...'
    rows.append('| %s | %s | %s | %s | %s |' % (name, summ, needs, status, ', '.join(sorted(set(caught))) or (m.get('caught_note') or '**missed**')))
table = ('| seed | change | needs, to manifest | confirmation | caught by (quick, seed 0) |\n|---|---|---|---|---|\n' + '\n'.join(rows))
p = os.path.join(HERE, 'DESIGN.md')
s = open(p).read()
begin, end = '<!-- SEED-TABLE-BEGIN -->', '<!-- SEED-TABLE-END -->'
if begin in s:
    s = s[:s.index(begin) + len(begin)] + '\n' + table + '\n' + s[s.index(end):]
    open(p, 'w').write(s)
print(table)
