#!/usr/bin/env python3
"""Stages a props.lock that matches the STAGED/committed versions of lean/Props/*.lean (builders relock the working tree all
the time; a commit must carry the hashes of the statement files it contains).  The working-tree props.lock is left alone."""
import subprocess, hashlib, os
os.chdir(os.path.dirname(os.path.dirname(os.path.abspath(__file__))))
out = subprocess.run(['git', 'ls-files', '-s', 'lean/Props'], capture_output=True, text=True, check=True).stdout
lines = []
for l in sorted(out.splitlines(), key=lambda x: x.split('\t')[1]):
    meta, path = l.split('\t')
    if not path.endswith('.lean'):
        continue
    blob = meta.split()[1]
    data = subprocess.run(['git', 'cat-file', 'blob', blob], capture_output=True, check=True).stdout
    lines.append('%s %s\n' % (os.path.basename(path)[:-5], hashlib.sha256(data).hexdigest()))
content = ''.join(lines).encode()
h = subprocess.run(['git', 'hash-object', '-w', '--stdin'], input=content, capture_output=True, check=True).stdout.decode().strip()
subprocess.run(['git', 'update-index', '--add', '--cacheinfo', '100644,%s,props.lock' % h], check=True)
print('staged props.lock for %d statement files' % len(lines))
