#!/usr/bin/env python3
"""recheck_seed.py <name> [--props C05,C13] [--seed N]
Re-runs our check(s) against an already confirmed seeded change (/verif/seeded/<name>/patch.diff applied in a scratch
worktree of /repo HEAD, selected with PYTHONPATH) and updates the verdict in its meta.json.  Evidence files touched by the
run are restored from git afterwards (evidence must come from /repo itself)."""
import sys, os, json, subprocess, shutil, tempfile


VROOT = os.environ.get('VERIF_ROOT', '/verif')   # a private copy of /verif to run the checks in (seeded/ is always /verif's)


def sh(cmd, **kw):
    return subprocess.run(cmd, shell=True, capture_output=True, text=True, **kw)


def main():
    name = sys.argv[1]
    d = os.path.join('/verif/seeded', name)
    meta = json.load(open(os.path.join(d, 'meta.json')))
    props = [meta.get('property') or name.split('-')[0]]
    if '--props' in sys.argv:
        props = sys.argv[sys.argv.index('--props') + 1].split(',')
    seed = int(sys.argv[sys.argv.index('--seed') + 1]) if '--seed' in sys.argv else 0
    wt = tempfile.mkdtemp(prefix='rw_%s_' % name, dir='/tmp')
    os.rmdir(wt)
    try:
        head = sh('git -C /repo rev-parse --short HEAD').stdout.strip()
        r = sh('git -C /repo worktree add -q --detach %s HEAD' % wt)
        assert r.returncode == 0, r.stderr
        r = sh('git -C %s apply %s' % (wt, os.path.join(d, 'patch.diff')))
        if r.returncode != 0:
            r = sh('git -C %s apply --3way %s' % (wt, os.path.join(d, 'patch.diff')))
        if r.returncode != 0:
            print(name, 'patch no longer applies to', head, r.stderr[-300:])
            return 1
        env = dict(os.environ, PYTHONPATH=wt)
        r = sh('cd /tmp && /venv/bin/python -W ignore %s' % os.path.join(d, 'demo.py'), env=env, timeout=900)
        demo_rc = r.returncode
        c = meta.setdefault('confirmed', {})
        checks = c.setdefault('checks', {})
        for p in props:
            r = sh('cd %s && VERIF_SEED=%%d ./check %%s --tier quick' % VROOT % (seed, p), env=env, timeout=3000)
            lines = [l for l in r.stdout.splitlines() if l.startswith(('VIOLATION', 'KNOWN-FINDING', 'INFRA'))]
            lines.sort(key=lambda l: not l.startswith('VIOLATION'))   # stable: VIOLATION lines first, then the rest
            checks['%s/quick/seed%d' % (p, seed)] = dict(exit=r.returncode, lines=lines[:6],
                                                         summary=r.stdout.strip().splitlines()[-1:], rechecked_at=head)
            print(name, p, 'exit', r.returncode, lines[:3], r.stdout.strip().splitlines()[-1:])
            sh('cd %s && git checkout -- evidence/%s.json' % (VROOT, p))
        c['demo_on_changed_recheck'] = demo_rc
        c['detected'] = any(v['exit'] == 1 and any(l.startswith('VIOLATION') for l in v['lines'])
                            for v in checks.values())
        json.dump(meta, open(os.path.join(d, 'meta.json'), 'w'), indent=1)
    finally:
        sh('git -C /repo worktree remove --force %s' % wt)
        shutil.rmtree(wt, ignore_errors=True)
    return 0


if __name__ == '__main__':
    sys.exit(main())
