#!/bin/sh
# tools/sweep.sh <tier> "<seeds>" [parallel]   — run every claimed check for several seeds on the unchanged tree and
# report anything that is not a clean exit 0 (false-alarm hunt).  Meant for `vp run -- sh tools/sweep.sh quick "0 1 2 3" 4`.
tier=${1:-quick}; seeds=${2:-"0 1 2 3"}; par=${3:-4}
cd "$(dirname "$0")/.." || exit 2
(cd lean && lake build > /dev/null 2>&1) || { echo "lake build failed"; exit 2; }
props=$(python3 -c "import json;print(' '.join(c['property_id'] for c in json.load(open('MANIFEST.json'))['checks']))")
mkdir -p sweep_out
for s in $seeds; do for p in $props; do echo "$p $s"; done; done | \
  xargs -P "$par" -L 1 sh -c 'p=$0; s=$1; VERIF_SEED=$s ./check $p --tier '"$tier"' > sweep_out/$p-$s.log 2>&1; echo "$p seed=$s exit=$? $(tail -1 sweep_out/$p-$s.log)"' | tee sweep_out/summary-$tier.txt
echo "---- not clean:"; grep -v "exit=0" sweep_out/summary-$tier.txt; grep -l "VIOLATION\|INFRA" sweep_out/*.log
echo done
