"""Shaped-array (numpy) dialect of the source translator — `FnShaped`, a subclass of `translate.Fn` selected by
`dialect='shaped'` in a spec (translate.fn_class), so the text produced for every other spec is unchanged.  It plugs into
the hooks of `Fn` (`expr_ext`, `cond_ext`, `stmt_ext`, `assigned_ext`, `result_type_ext`) and wraps `block` / `loop` /
`translate` / `is_nat` / `nat` / `add_param` / `lean_ty`.  Used by the source ties of C01, C03 and C19.

What it adds to the subset of harness/translate.py (everything else still raises Untranslatable; nothing is special-cased
by function name, all text derives from the AST; what a spec declares is listed at the end):

  * ARRAY-VALUED EXPRESSIONS.  An array is a function of its indices (`Nat → α`, `Nat → Nat → α`, masks `Nat → Bool`); an
    array expression is translated to the Lean text of ONE element, as numpy defines it:
      - element-wise + - * /, unary -, `**k` (literal k in 2..6: repeated product), `x ** y` with any other exponent (a
        parameter `powf : α → α → α`: numpy's float power), np.exp/log/log10/sqrt, np.maximum/np.minimum of two operands,
        with numpy broadcasting (shapes aligned at the trailing axis; `x[:, None]` / `x[None, :]` insert a broadcast axis);
      - basic indexing: `a[i]` on a 2-D array (a row), `a[i, :]`, slices `a[lo:]`, `a[lo:hi]`, `a[:hi]`, `a[:-k]`, `a[:]`
        (element r of the slice is element lo+r of the array), `a[::-1]` (needs the declared length), `...`;
      - `np.zeros(shape=…)`, `np.zeros_like`, `x.copy()`, `np.sum(X, axis=0)` (left fold from 0 over the first axis, in
        index order), `np.sum(X)` / `X.sum()` of a 1-D array, `X.max()` / `X.min()` / `np.max(X)` as VALUES (left fold of
        the two-operand maximum/minimum from the first element; numpy would propagate a NaN element, the fold skips it:
        faithful for NaN-free arrays);
      - comparisons of arrays give masks; `&` / `|` of masks;
      - `np.inf`, `np.pi` are parameters (`inf`, `pi`).
    SHAPES are tracked symbolically (declared with `dims`, or known from `np.zeros(shape=…)` and slicing).  Wherever numpy
    REQUIRES two axis lengths to agree (element-wise operands, stores, `zip`) and the two symbolic lengths are not textually
    identical, and wherever a slice has an explicit stop (numpy would silently CLIP a stop beyond the axis), the fact
    `len₁ = len₂` / `stop ≤ len` is recorded, under the enclosing loop binders (for any loop state), branch conditions and
    the earlier statements it mentions, and all of them are emitted as the companion proposition `<name>_shapes`, which the
    tie file proves.  Under `<name>_shapes` no slice is clipped and no length-1 slice is silently broadcast.
  * TESTS.  `X.min() > c`, `X.min() >= c`, `X.max() < c`, `X.max() <= c` (either way round) ↦ `List.all` of the element
    test (equivalent also under NaN, see `minmax_test`); float `a == b` / `a != b` ↦ `a ≤ b ∧ b ≤ a` (IEEE: false for NaN);
    Bool attributes; `x is None` for an optional external / an optional array (below); tests decided by the spec's `static`
    assumptions select one branch at translation time.
  * NATURAL NUMBERS: `X.size` of a 1-D array of known length; `np.searchsorted(A, v[, side=…])` on a SORTED array of known
    length ↦ `countP` of `· < v` (left) / `· ≤ v` (right) (the assumption "A is sorted" is the tie's).
  * `x = sorted([a, b])` ↦ the two scalars `x_0`, `x_1` (python's stable sort: swapped exactly when `b < a`); `x[0]`, `x[1]`,
    `x[-1]`, `x[-2]`.
  * STORES.  `a[lo:hi] = E`, `a[lo:] op= E`, `a[i] = row`, `a[i] += row`, `a[...] = c`, `a[mask, :] = c`,
    `a[mask, ...] = row`, `x op= E` on an array variable: a new function that is `E` on the stored index set and the old
    array elsewhere.  A store through a variable that has a live view/alias (or is one) raises Untranslatable (numpy views
    share memory).
  * PYTHON LISTS OF ARRAYS: `xs = []`, `xs.append(E)` (the element is the value E has at that time), `xs[i]`, `return xs`,
    `[x for _, x in ys]` over a declared list of tuples  ↦  `List (Nat → α)` / `List (Nat → Nat → α)`.
  * IN-PLACE RESULTS: spec `out='tau'` (or a local attribute): the function's result is the final value of that variable;
    a call statement `f(…, tau)` of such a translated function re-binds the argument variable.
  * TUPLE RESULTS: spec `returns=['arr', 'arr2']`; `a, b = f(…)` for a translated `f` with a tuple result.  A callee's
    declared array lengths (`lens`) are passed as the lengths of the actual arguments.
  * LOOPS.  `for c in <declared list of objects>` (abstract element type `ι`) and `for name, x in <declared list of
    values>` ↦ `List.foldl`; `if cond: break` ↦ the state carries the flag "left by break", set here, and the remaining
    statements / iterations are skipped; `if cond: continue` ↦ the rest of the body is skipped.  `for i, x in
    enumerate(A)`, `for i, tp in enumerate(zip(A, B))` + `t, p = tp` ↦ the `range` loop over the index.  Method calls on the
    loop object are declared in `methods` and become a function parameter taking the object first (dynamic dispatch is
    supplied by the tie theorem); look-ups that depend on the loop object are declared in `obj_externals` (functions of the
    object), an OPTIONAL one (`x = ext(obj); if x is not None:`) comes with the predicate `<lean>Defined`.
  * variables first assigned in both branches of an `if` (same kind in both); variables first assigned in ONE branch are
    local to it.
  * OPTIONAL ARRAYS (`optional_vars`): `x = None`; `if x is None: x = E [else: …]` ↦ a `match` on `Option`; afterwards x is
    an array; a loop that carries x puts it back as `some x`.
  * GENERATORS: spec `yields='single'`: exactly one `yield name, E` as the last statement ↦ returns the array E;
    `yields='list'`: every `yield name, E` appends E AS IT IS AT THE TIME OF THE YIELD to the result list (a consumer that
    reads the component before resuming the generator, as Contribution.prepare does, sees exactly that value even when the
    generator re-uses one buffer).
  * LOCAL ATTRIBUTES (`local_attrs`): `self.x = e` followed by reads of `self.x` in the same function: a local variable.

  * HIGHER RANKS, MASKS, THE 3-D GEOMETRY (taurex/util/geometry.py; added for the tie of C01's new path method):
      - arrays of rank 3 and 4 (kinds 'arr3', 'arr4'), 2-D masks ('barr2'); `X.shape[k]` of an axis of known length;
        `np.array(X)` of an array (a copy); `X.T`; `~M`; element-wise float `==` / `!=` (IEEE, as for scalars);
        `X.sum(axis=0)` / `np.sum(X, axis=0)` of any rank >= 2; `np.linalg.norm(X, axis=0)` (sqrt of the sum of squares
        along the first axis, the sum as `np.sum(…, axis=0)`); `with np.errstate(…):` (transparent);
      - `np.nan` and `np.isfinite(X)` are PARAMETERS (`nan : α`, `isfinite : α → Bool`): NaN is not a value of the carrier;
        the tie theorem states what `isfinite` is instantiated with;
      - tests on the number of True elements of a mask: `M.sum() == 0`, `M.sum() != 0`, `M.sum() > 0` ↦ no / some element;
      - BOOLEAN-MASK INDEXING.  `X[…, M, …]` (one mask M covering M.ndim axes, integers, full slices) is a value whose masked
        axes form ONE axis addressed by the original indices (class MaskAx; numpy's placement of the axis of the advanced
        indices is followed).  It may be (a) the value of a store whose target is selected by the SAME mask expression —
        `a[:, M] = v[:, M]`, `S[0, :, M] = X[:, M].T`: numpy pairs the n-th selected target element with the n-th selected
        value element, i.e. the same original position —, or (b) bound at once, when 1-D, as the COMPRESSED array
        (`dists = D[m, i]`): its length is `((List.range n).filter m).length`, its k-th element the element at the k-th
        True position.  Stores `a[M] = c` with a full-rank mask, `a[i, :, M] = E`;
      - OPTIONAL RESULTS: `returns='optarr4' | 'optlarrlist'`: `return None` ↦ `none`, `return X` ↦ `some X`;
        `x = f(…)` of such a translated f; `if x is not None: … return … else: return None` ↦ `match`;
      - LISTS OF TUPLES: `tuple_appends={'xs': ['skip', 'larr']}`: `xs = []`, `xs.append((idx, E))` keeps of every tuple the
        one 1-D array declared 'larr', WITH its length: `List (Nat × (Nat → α))` (kind 'larrlist');
      - CALLS with keyword arguments / omitted trailing arguments of a translated function: only parameters of kind 'skip'
        may be omitted or passed by keyword; `assume={'axis': 0}` declares the constant such a parameter is ASSUMED to have
        (the function is translated for that value: tests on it are static, `axis=axis` resolves): every call is checked to
        pass that constant (a literal, the caller's own assumed parameter, or the default);
      - `ret_dims`: the declared shape of the returned array(s): checked at `return`, known to the callers;
      - `opaque_if={'<test text>': name}`: the TEST of that `if` (a statement of the function body, no else) is translated,
        its BODY becomes one abstract function parameter `name` of every variable the body reads before defining it
        (names bound by `ignore_stmts` contribute what they are derived from), returning the re-bound variables that are
        used afterwards.  Sound for bodies that only compute on local variables (checked).  Edits inside such a body are
        not seen by the tie (the tie theorem must say so); an edit of its test is.

  * OBJECT BOOKKEEPING (SimpleForwardModel.model_contrib, C03): `local_objlists={'self.contribution_list': 'contribs'}`:
    `self.contribution_list = [obj]` binds the object list a translated callee reads (its parameter of that lean name) to the
    one-element list, `self.contribution_list = <the declared list>` at the level of the function body puts the list of the
    entry back; a method declared `updates_obj=True` (`contrib.prepare(…)`) replaces the object by an abstract function of it
    (`prepare : ι → ι`) and re-binds the lists built from it (python aliasing); `dicts={'d': dict(key=('contrib.name', 'name'),
    value=[kinds])}`: `d = {}`, `d[contrib.name] = (…)` on a dict kept as an insertion-ordered association list with string
    keys (`name : ι → String`): an existing key keeps its position and gets the new value.

  * A GENERATOR DRIVING A LOOP (SimpleForwardModel.model_full_contrib, C03): `obj_generators={'contrib.prepare_each(self,
    native_grid)': dict(lean='prepareEach', obj='contrib', elts=['str', 'skip'])}`: `for name, __ in contrib.prepare_each(…)`
    iterates over `prepareEach contrib : List (String × ι)`, the (yielded name, state of the object AT THAT YIELD) pairs in
    order — the generator is suspended while the body runs, so inside the body `contrib` is that state (see `obj_gen_loop`);
    `obj_strs={'name': 'cname'}`: `x = contrib.name` binds a string (`cname : ι → String`); `rec_lists={'xs': ['str', 'arr',
    'arr2', 'skip']}`: `xs = []`, `xs.append((name, a, t, None))` a list of records; a dict declared with
    `value_list='xs'` stores such lists under string keys (`d[x] = xs`).
    `publish='self.sigma_xsec'` (with `yields='list'`): the generator is translated to the list of what that ATTRIBUTE holds at
    every yield — the state the consumer of the suspended generator reads from the object — instead of the yielded values
    (see `published_var`: the attribute shares the array of a variable stored to it just before the yield).

Spec keys of this dialect (besides those of Fn): `out`, `returns` (kind or list of kinds; also 'arrlist', 'arr2list',
'optarr2'), `dims` (python text of an array -> [length per axis]), `objlists`, `obj_assign`, `vallists`, `methods`,
`obj_externals`, `obj_derived`, `call_list_externals`, `list_externals`, `shaped_externals`, `local_attrs`,
`assume`, `ret_dims`, `tuple_appends`, `opaque_if`, `local_objlists`, `dicts` (above),
`ignore_stores` (attribute stores that are side effects outside the translated value), `ignore_stmts` (exact statement
texts that only bind helper objects), `static` (text of a test -> the truth value the TIE ASSUMES, e.g. the opacity
method), `optional_vars`, `yields`.  Every declaration is matched against the source text: a statement that no longer
matches its declaration makes the function untranslatable (a broken obligation), never silently different.
"""
import ast
import re

from harness import translate
from harness.translate import Untranslatable, lname


BC = '1#'          # a broadcast axis (inserted by None / np.newaxis)


class AV:
    """an array value: symbolic shape + the Lean text of one element"""

    def __init__(self, shape, elem, dtype='f', plain=None, base=None):
        self.shape = list(shape)     # per axis: Lean Nat text | None (unknown) | BC
        self.elem = elem             # [index text per axis] -> Lean text
        self.dtype = dtype           # 'f' carrier, 'b' Bool
        self.plain = plain           # Lean text of the whole array when it is a plain variable
        self.base = base             # python variable this value is a view of (None: a fresh array)

    @property
    def ndim(self):
        return len(self.shape)


class LV:
    """a python list of 1-D (rank 1) / 2-D (rank 2) arrays: Lean `List (Nat → α)` / `List (Nat → Nat → α)`"""

    def __init__(self, text, base=None, rank=1):
        self.text = text
        self.base = base
        self.rank = rank

    @property
    def kind(self):
        return 'arrlist' if self.rank == 1 else 'arr2list'


def full_slice():
    return ast.Slice(lower=None, upper=None, step=None)


# number of axes per array kind (float arrays `arr`…`arr4`, masks `barr`, `barr2`)
NDIM = {'arr': 1, 'arr2': 2, 'arr3': 3, 'arr4': 4, 'barr': 1, 'barr2': 2}
FARR = ('arr', 'arr2', 'arr3', 'arr4')
OPT_KINDS = {'optarr4': 'arr4', 'optlarrlist': 'larrlist'}      # Option kinds -> the kind of the value inside


class MaskAx:
    """an axis of a value selected by a boolean mask (`X[..., M, ...]`): it stands for the `k` ORIGINAL axes the mask
    covers; an element is addressed by the original indices (a list of `k` index texts).  Such a value exists only inside
    one statement: as the value of a store whose target is selected by the SAME mask (numpy pairs the n-th selected target
    element with the n-th selected value element: the same original position), or bound at once as a compressed 1-D array"""

    def __init__(self, text, mask):
        self.text = text             # python text of the mask expression
        self.mask = mask             # the boolean AV
        self.k = mask.ndim

    def same(self, other):
        return isinstance(other, MaskAx) and other.text == self.text and other.k == self.k


def flat(ix):
    """index texts, a masked axis contributing its original indices"""
    out = []
    for x in ix:
        if isinstance(x, (list, tuple)):
            out.extend(x)
        else:
            out.append(x)
    return out


def is_none(i):
    return isinstance(i, ast.Constant) and i.value is None


def is_ellipsis(i):
    return isinstance(i, ast.Constant) and i.value is Ellipsis


class FnShaped(translate.Fn):
    BINDERS = ['i__', 'j__', 'k__', 'l__']

    def __init__(self, spec, tree, src_lines, known_funcs):
        super().__init__(spec, tree, src_lines, known_funcs)
        sp = self.spec
        self.out_var = sp.get('out')
        self.shapes = {}                 # python variable -> shape list
        self.views = {}                  # python variable -> variable it is a view of
        self.objlists = dict(sp.get('objlists', {}))      # python text -> lean name (List ι)
        self.methods = dict(sp.get('methods', {}))        # method name -> dict(lean, kinds[], kw{}, mutates)
        self.list_externals = dict(sp.get('list_externals', {}))   # python call text -> lean name : List (Nat → α)
        self.shaped_externals = dict(sp.get('shaped_externals', {}))   # python call text -> (lean name, kind, shape)
        self.ignore_stores = set(sp.get('ignore_stores', ()))
        self.vallists = dict(sp.get('vallists', {}))      # python text of an iterable -> (lean name, [kind per tuple element])
        self.obj_externals = dict(sp.get('obj_externals', {}))   # python call text -> dict(lean, of[], args[], kind, shape, optional)
        self.obj_derived = dict(sp.get('obj_derived', {}))  # statement text `x = …` -> (x, object variable it is derived from)
        self.obj_assign = set(sp.get('obj_assign', ()))   # names assigned an object list declared in objlists
        self.ignore_stmts = set(sp.get('ignore_stmts', ()))   # exact statement texts that only bind helper objects
        self.static = dict(sp.get('static', {}))          # attribute text -> bool it is ASSUMED to hold (documented in the tie)
        self.optional_vars = set(sp.get('optional_vars', ()))   # array variables that start as None
        self.call_list_externals = dict(sp.get('call_list_externals', {}))   # callee text -> dict(lean, kinds[], elem[])
        self.tuple_lists = {}            # python variable (a list of tuples from such an external) -> kinds of the tuple
        self.obj_alias = {}              # python variable -> the loop object it stands for
        self.optext = {}                 # python variable holding an optional external -> Lean text of "is not None"
        self.local_attrs = set(sp.get('local_attrs', ()))   # attributes (declared in attrs) assigned here before use
        self.assume = dict(sp.get('assume', {}))          # 'skip' parameter -> the constant the TIE ASSUMES it has (callers are checked)
        self.ret_dims = sp.get('ret_dims')                # declared shape(s) of the returned array(s) (checked at `return`)
        self.tuple_appends = dict(sp.get('tuple_appends', {}))   # list variable -> kinds of the tuples appended to it
        self.opaque_if = dict(sp.get('opaque_if', {}))    # test text -> lean name: the body of that `if` is an abstract function
        self.ignored_bind = {}           # name bound by an ignored statement -> the names its right-hand side reads
        self.local_objlists = dict(sp.get('local_objlists', {}))   # attribute holding an object list that is assigned here -> lean name
        self.dicts = dict(sp.get('dicts', {}))            # dict variable -> dict(key=(python text, lean name), value=[kinds])
        self.objlist_elems = {}          # lean name of a local object list -> the object variables it was built from
        self.obj_generators = dict(sp.get('obj_generators', {}))   # python text of a generator call on a loop object -> dict(lean, obj, elts[])
        self.obj_strs = dict(sp.get('obj_strs', {}))      # attribute name of a loop object holding a string -> lean name (ι → String)
        self.rec_lists = dict(sp.get('rec_lists', {}))    # list variable -> kinds of the tuples appended to it ('str' | 'arr' | 'arr2' | 'skip')
        self.uses_iota = False
        self.fresh = 0
        self.ctx = []                    # enclosing binders and the statements translated so far (for the shape obligations)
        self._branch_ctx = {}            # id(statement list of an if-branch) -> hypothesis text
        self.obligs = []                 # Lean Prop texts
        for name, k in self.kinds.items():
            if k in ('arr', 'arr2') and name in self.dims:
                self.shapes[name] = [self.dim_text(d) for d in self.dims[name]]

    def add_param(self, name, ty):
        """an extra parameter that is already a formal parameter (a declared length) is not added twice"""
        formal = {self.var(n): 'Nat' for n in self.lens.values()}
        if name in formal:
            if formal[name] != ty:
                raise Untranslatable('parameter %s declared with two types' % name)
            return
        super().add_param(name, ty)

    def fresh_name(self, stem):
        self.fresh += 1
        return '%s%d__' % (stem, self.fresh)

    def dim_text(self, d):
        """a declared dimension (word → Nat parameter)"""
        if d is None or d == BC:
            return d
        if re.fullmatch(r'[A-Za-z_]\w*', d):
            self.add_param(d, 'Nat')
        return d

    # ------------------------------------------------------------------ shapes
    def need_equal(self, a, b, node):
        """numpy requires the two axis lengths to agree (an axis inserted by None broadcasts)"""
        if isinstance(a, MaskAx) or isinstance(b, MaskAx):
            if isinstance(a, MaskAx) and a.same(b):
                return a
            if isinstance(a, MaskAx) and b == BC:
                return a
            if isinstance(b, MaskAx) and a == BC:
                return b
            self.fail(node, 'an axis selected by a mask combined with another axis')
        if a == BC:
            return b
        if b == BC:
            return a
        if a is None:
            return b
        if b is None:
            return a
        if a != b:
            self.obligation('%s = %s' % (a, b))
        return a

    def obligation(self, prop):
        """record `prop` under the enclosing binders / hypotheses and those earlier statements it (transitively) mentions"""
        words = lambda t: set(re.findall(r"[A-Za-z_][\w']*", t))
        needed = words(prop)
        kept = []
        for t in reversed(self.ctx):
            bound = re.findall(r'^\s*let (\w+)', t, re.M)
            if t.lstrip().startswith('let ') and not (set(bound) & needed):
                continue
            kept.append(t)
            needed |= words(t)
        text = ''.join(reversed(kept)) + prop
        if text not in self.obligs:
            self.obligs.append(text)

    def need_le(self, a, b):
        """a slice stop that must not exceed the axis length (numpy would clip the slice silently)"""
        if a in (None, BC) or b in (None, BC) or a == b:
            return
        self.obligation('%s ≤ %s' % (a, b))

    def bshape(self, sa, sb, node):
        n = max(len(sa), len(sb))
        pa = [BC] * (n - len(sa)) + list(sa)
        pb = [BC] * (n - len(sb)) + list(sb)
        return [self.need_equal(x, y, node) for x, y in zip(pa, pb)]

    @staticmethod
    def take(av, idx, n):
        """element of `av` seen as broadcast to n axes"""
        return av.elem(idx[n - av.ndim:])

    def var_av(self, nm, kind, shape, base):
        nd = NDIM[kind]
        shp = shape if shape is not None else [None] * nd
        return AV(shp, lambda ix, nm=nm: '(%s %s)' % (nm, ' '.join(flat(ix))), dtype='b' if kind in ('barr', 'barr2') else 'f',
                  plain=nm, base=base)

    # ------------------------------------------------------------------ array expressions
    def aval(self, node, env):
        """AV / LV for an array- or list-valued expression, None for anything else"""
        if isinstance(node, ast.Name):
            k = env.get(node.id)
            if k in NDIM:
                return self.var_av(self.var(node.id), k, self.shapes.get(node.id), node.id)
            if k in ('arrlist', 'arr2list'):
                return LV(self.var(node.id), base=node.id, rank=1 if k == 'arrlist' else 2)
            return None
        if isinstance(node, ast.Attribute):
            t = ast.unparse(node)
            if t in env and env[t] in ('arr', 'arr2', 'barr'):          # a local attribute assigned earlier
                return self.var_av(self.attrs[t][0], env[t], self.shapes.get(t), t)
            if t in self.attrs and self.attrs[t][1] in ('arr', 'arr2'):
                if t in self.local_attrs:
                    self.fail(node, 'local attribute read before it is assigned')
                nm, k = self.attrs[t]
                self.add_param(nm, self.lean_ty(k))
                shp = [self.dim_text(d) for d in self.dims[t]] if t in self.dims else None
                return self.var_av(nm, k, shp, t)
            if node.attr == 'T':
                a = self.aval(node.value, env)
                if isinstance(a, AV):                     # transpose: the axes in reverse order
                    return AV(list(reversed(a.shape)), lambda ix, a=a: a.elem(list(reversed(ix))), dtype=a.dtype)
            return None
        if isinstance(node, ast.List) and not node.elts:
            return LV('([] : List (Nat → α))')
        if isinstance(node, ast.Subscript):
            base = self.aval(node.value, env)
            if base is None:
                return None
            idx = node.slice
            idxs = list(idx.elts) if isinstance(idx, ast.Tuple) else [idx]
            idxs = [i for i in idxs if not (isinstance(i, ast.Name) and i.id in self.lift)]
            if isinstance(base, LV):
                if len(idxs) != 1 or isinstance(idxs[0], ast.Slice) or base.rank != 1:
                    self.fail(node, 'unsupported indexing of a list of arrays')
                i = self.nat(idxs[0], env)
                self.literals.add(0)
                txt = '(%s.getD %s (fun _ => (0 : α)))' % (base.text, i)
                return AV([None], lambda ix, txt=txt: '(%s %s)' % (txt, ' '.join(ix)), plain=txt, base=base.base)
            r = self.sub(base, idxs, env, node)
            return r if r.ndim > 0 else None             # every axis fixed: a scalar (see expr_ext)
        if isinstance(node, ast.UnaryOp) and isinstance(node.op, ast.USub):
            a = self.aval(node.operand, env)
            if isinstance(a, AV):
                if a.dtype != 'f':
                    self.fail(node, 'arithmetic on a mask')
                return AV(a.shape, lambda ix, a=a: '(-%s)' % a.elem(ix))
            return None
        if isinstance(node, ast.UnaryOp) and isinstance(node.op, ast.Invert):
            a = self.aval(node.operand, env)
            if isinstance(a, AV) and a.dtype == 'b':      # `~mask`
                return AV(a.shape, lambda ix, a=a: '(!%s)' % a.elem(ix), dtype='b')
            return None
        if isinstance(node, ast.BinOp):
            return self.av_binop(node, env)
        if isinstance(node, ast.Compare) and len(node.ops) == 1:
            a = self.aval(node.left, env)
            b = self.aval(node.comparators[0], env)
            if a is None and b is None:
                return None
            return self.av_map2(node, node.left, node.comparators[0], a, b, env,
                                lambda x, y, op=type(node.ops[0]): self.cmp_text(node, op, x, y), dtype='b')
        if isinstance(node, ast.ListComp) and len(node.generators) == 1:
            g = node.generators[0]
            if isinstance(g.iter, ast.Name) and g.iter.id in self.tuple_lists and not g.ifs and not g.is_async \
                    and env.get(g.iter.id) == 'arrlist':
                kinds = self.tuple_lists[g.iter.id]
                tg = list(g.target.elts) if isinstance(g.target, ast.Tuple) else [g.target]
                if len(tg) == len(kinds) and all(isinstance(t, ast.Name) for t in tg) and isinstance(node.elt, ast.Name):
                    real = [t.id for t, k in zip(tg, kinds) if k != 'skip']
                    if real == [node.elt.id]:
                        # `[x for …, x, … in xs]`: the list of the one modelled component of each tuple
                        return LV(self.var(g.iter.id), base=g.iter.id)
            self.fail(node, 'unsupported list comprehension')
        if isinstance(node, ast.Call):
            return self.av_call(node, env)
        return None

    def cmp_text(self, node, op, a, b):
        if op is ast.Lt:
            return 'decide (%s < %s)' % (a, b)
        if op is ast.LtE:
            return 'decide (%s ≤ %s)' % (a, b)
        if op is ast.Gt:
            return 'decide (%s < %s)' % (b, a)
        if op is ast.GtE:
            return 'decide (%s ≤ %s)' % (b, a)
        if op is ast.Eq:                                  # IEEE `==`, element-wise (as in cond_ext)
            return '(decide (%s ≤ %s) && decide (%s ≤ %s))' % (a, b, b, a)
        if op is ast.NotEq:
            return '(!(decide (%s ≤ %s) && decide (%s ≤ %s)))' % (a, b, b, a)
        self.fail(node, 'unsupported comparison of arrays')

    def scalar_or(self, node, av, env):
        """operand of an element-wise operation: an AV, or a scalar expression lifted to 0 axes"""
        if isinstance(av, AV):
            return av
        if isinstance(av, LV):
            self.fail(node, 'a list used in an arithmetic expression')
        txt = self.expr(node, env)
        return AV([], lambda ix, txt=txt: txt)

    def av_map2(self, node, ln, rn, a, b, env, f, dtype='f'):
        a = self.scalar_or(ln, a, env)
        b = self.scalar_or(rn, b, env)
        shp = self.bshape(a.shape, b.shape, node)
        n = len(shp)
        return AV(shp, lambda ix, a=a, b=b, n=n: f(self.take(a, ix, n), self.take(b, ix, n)), dtype=dtype)

    def av_binop(self, node, env):
        a = self.aval(node.left, env)
        b = self.aval(node.right, env)
        if a is None and b is None:
            return None
        if isinstance(node.op, (ast.BitAnd, ast.BitOr)):
            if not (isinstance(a, AV) and isinstance(b, AV) and a.dtype == 'b' and b.dtype == 'b'):
                self.fail(node, '& / | of something else than two masks')
            op = ' && ' if isinstance(node.op, ast.BitAnd) else ' || '
            return self.av_map2(node, node.left, node.right, a, b, env, lambda x, y: '(%s%s%s)' % (x, op, y), dtype='b')
        for v in (a, b):
            if isinstance(v, AV) and v.dtype != 'f':
                self.fail(node, 'arithmetic on a mask')
        if isinstance(node.op, ast.Pow):
            r = node.right
            if isinstance(a, AV) and b is None and isinstance(r, ast.Constant) and not isinstance(r.value, bool) \
                    and isinstance(r.value, (int, float)) and float(r.value) == int(r.value) and 2 <= int(r.value) <= 6:
                k = int(r.value)
                return AV(a.shape, lambda ix, a=a, k=k: '(let b__ := %s; %s)' % (a.elem(ix), ' * '.join(['b__'] * k)))
            if not (isinstance(node.left, ast.Constant) and node.left.value in (10, 10.0)):
                # element-wise general power (numpy.power), a parameter of the definition
                self.add_param('powf', 'α → α → α')
                return self.av_map2(node, node.left, node.right, a, b, env, lambda x, y: '(powf %s %s)' % (x, y))
            self.fail(node, 'unsupported power of an array')
        ops = {ast.Add: '+', ast.Sub: '-', ast.Mult: '*', ast.Div: '/'}
        if type(node.op) not in ops:
            self.fail(node, 'unsupported operator on arrays')
        op = ops[type(node.op)]
        return self.av_map2(node, node.left, node.right, a, b, env, lambda x, y: '(%s %s %s)' % (x, op, y))

    def shape_arg(self, node, env):
        """the `shape` of np.zeros: a tuple of naturals or one natural"""
        elts = list(node.elts) if isinstance(node, ast.Tuple) else [node]
        return [self.nat(e, env) for e in elts]

    def av_call(self, node, env):
        short, full = self.call_name(node)
        text = ast.unparse(node)
        if text in self.list_externals:
            nm = self.list_externals[text]
            self.add_param(nm, 'List (Nat → α)')
            return LV(nm)
        if ast.unparse(node.func) in self.call_list_externals and not node.keywords:
            d = self.call_list_externals[ast.unparse(node.func)]
            if len(node.args) != len(d['kinds']):
                self.fail(node, 'external called with another number of arguments than declared')
            args, tys = [], []
            for a, k in zip(node.args, d['kinds']):
                if k == 'skip':
                    continue
                tys.append(self.lean_ty(k) if k in ('s', 'nat') else '(' + self.lean_ty(k) + ')')
                args.append(self.nat(a, env) if k == 'nat' else self.arr_arg(a, k, env) if k in ('arr', 'arr2')
                            else self.expr(a, env))
            self.add_param(d['lean'], ' → '.join(tys + ['List (Nat → α)']))
            v = LV('(%s %s)' % (d['lean'], ' '.join(args)))
            v.tuple_kinds = list(d['elem'])
            return v
        if text in self.obj_externals:
            d = self.obj_externals[text]
            if d['kind'] in ('arr', 'arr2'):
                head = self.obj_ext_head(node, d, env)
                return AV([self.dim_text(x) for x in d['shape']],
                          lambda ix, head=head: '(%s %s)' % (head, ' '.join(ix)))
        if text in self.shaped_externals:
            nm, k, shp = self.shaped_externals[text]
            self.add_param(nm, self.lean_ty(k))
            return self.var_av(nm, k, [self.dim_text(d) for d in shp], None)
        if full in ('np.zeros', 'numpy.zeros'):
            kw = {k.arg: k.value for k in node.keywords}
            if 'dtype' in kw:
                if ast.unparse(kw.pop('dtype')) not in ('np.float64', 'numpy.float64', 'float', 'np.float_'):
                    self.fail(node, 'np.zeros of another dtype')
            shp = None
            if len(node.args) == 1 and not kw:
                shp = node.args[0]
            elif not node.args and set(kw) == {'shape'}:
                shp = kw['shape']
            if shp is None:
                self.fail(node, 'unsupported np.zeros call')
            self.literals.add(0)
            return AV(self.shape_arg(shp, env), lambda ix: '(0 : α)')
        if full in ('np.zeros_like', 'numpy.zeros_like') and len(node.args) == 1 and not node.keywords:
            a = self.aval(node.args[0], env)
            if isinstance(a, AV):
                self.literals.add(0)
                return AV(a.shape, lambda ix: '(0 : α)')
            return None
        if isinstance(node.func, ast.Attribute) and node.func.attr == 'copy' and not node.args and not node.keywords:
            a = self.aval(node.func.value, env)
            if isinstance(a, AV):
                return AV(a.shape, a.elem, dtype=a.dtype)
            return None
        if short in ('exp', 'log', 'log10', 'sqrt') and full != short and len(node.args) == 1 and not node.keywords:
            a = self.aval(node.args[0], env)
            if isinstance(a, AV):
                if a.dtype != 'f':
                    self.fail(node, 'arithmetic on a mask')
                return AV(a.shape, lambda ix, a=a, f=short: '(%s %s)' % (f, a.elem(ix)))
            return None
        if full in ('np.maximum', 'np.minimum', 'numpy.maximum', 'numpy.minimum') and len(node.args) == 2 \
                and not node.keywords:
            a = self.aval(node.args[0], env)
            b = self.aval(node.args[1], env)
            if a is None and b is None:
                return None
            if short == 'maximum':
                f = lambda x, y: '(let a__ := %s; let b__ := %s; if a__ < b__ then b__ else a__)' % (x, y)
            else:
                f = lambda x, y: '(let a__ := %s; let b__ := %s; if b__ < a__ then b__ else a__)' % (x, y)
            return self.av_map2(node, node.args[0], node.args[1], a, b, env, f)
        if full in ('np.array', 'numpy.array') and len(node.args) == 1 and not node.keywords:
            a = self.aval(node.args[0], env)
            if isinstance(a, AV):                         # of an array: a copy
                return AV(a.shape, a.elem, dtype=a.dtype)
            return None
        if full in ('np.isfinite', 'numpy.isfinite') and len(node.args) == 1 and not node.keywords:
            a = self.aval(node.args[0], env)
            if isinstance(a, AV) and a.dtype == 'f':
                # IEEE finiteness is not a notion of the carrier: a parameter (the tie states what it is instantiated with)
                self.add_param('isfinite', 'α → Bool')
                return AV(a.shape, lambda ix, a=a: '(isfinite %s)' % a.elem(ix), dtype='b')
            return None
        if full in ('np.linalg.norm', 'numpy.linalg.norm') and len(node.args) == 1:
            kw = {k.arg: k.value for k in node.keywords}
            a = self.aval(node.args[0], env)
            if isinstance(a, AV) and a.dtype == 'f' and set(kw) == {'axis'} and self.const_value(kw['axis']) == 0 \
                    and not isinstance(self.const_value(kw['axis']), bool) and a.ndim >= 2:
                n0 = a.shape[0]
                if n0 is None or n0 == BC or isinstance(n0, MaskAx):
                    self.fail(node, 'norm over an axis of undeclared length')
                s = self.fresh_name('s')
                self.literals.add(0)
                # 2-norm along the first axis: sqrt(add.reduce(x*x, axis=0)), the sum as np.sum(…, axis=0) is translated
                return AV(a.shape[1:], lambda ix, a=a, s=s, n0=n0:
                          '(sqrt ((List.range %s).foldl (fun acc__ %s => acc__ + (let b__ := %s; b__ * b__)) (0 : α)))'
                          % (n0, s, a.elem([s] + ix)))
            return None
        if isinstance(node.func, ast.Attribute) and node.func.attr == 'sum' and not node.args \
                and [k.arg for k in node.keywords] == ['axis'] and self.const_value(node.keywords[0].value) == 0 \
                and not isinstance(self.const_value(node.keywords[0].value), bool):
            a = self.aval(node.func.value, env)
            if isinstance(a, AV) and a.dtype == 'f' and a.ndim >= 2:      # X.sum(axis=0) = np.sum(X, axis=0)
                n0 = a.shape[0]
                if n0 is None or n0 == BC or isinstance(n0, MaskAx):
                    self.fail(node, 'sum over an axis of undeclared length')
                s = self.fresh_name('s')
                self.literals.add(0)
                return AV(a.shape[1:], lambda ix, a=a, s=s, n0=n0:
                          '((List.range %s).foldl (fun acc__ %s => acc__ + %s) (0 : α))' % (n0, s, a.elem([s] + ix)))
            return None
        if full in ('np.sum', 'numpy.sum') and len(node.args) == 1:
            kw = {k.arg: k.value for k in node.keywords}
            a = self.aval(node.args[0], env)
            if not isinstance(a, AV) or a.dtype != 'f':
                return None
            if set(kw) == {'axis'} and isinstance(kw['axis'], ast.Constant) and kw['axis'].value == 0 and a.ndim >= 2:
                n0 = a.shape[0]
                if n0 is None or n0 == BC:
                    self.fail(node, 'np.sum over an axis of undeclared length')
                s = self.fresh_name('s')
                self.literals.add(0)
                return AV(a.shape[1:], lambda ix, a=a, s=s, n0=n0:
                          '((List.range %s).foldl (fun acc__ %s => acc__ + %s) (0 : α))' % (n0, s, a.elem([s] + ix)))
            return None
        tgt = self.known.get(full)
        if tgt is not None and tgt.get('shaped') and tgt.get('returns') in ('arr', 'arr2', 'arrlist'):
            txt = self.known_call(node, tgt, env)
            if tgt['returns'] == 'arrlist':
                return LV(txt)
            return self.var_av(txt, tgt['returns'], None, None)
        return None

    def const_value(self, node):
        """the python constant an expression denotes: a literal, or a parameter with a declared `assume`d value; else the
        unique marker `Ellipsis`"""
        if isinstance(node, ast.Constant):
            return node.value
        if isinstance(node, ast.Name) and node.id in self.assume:
            return self.assume[node.id]
        return Ellipsis

    def obj_ext_head(self, node, d, env):
        """`<lean> obj… scalar…` for a declared external that depends on loop objects (and scalar arguments)"""
        objs = []
        for o in d.get('of', ()):
            if env.get(o) == 'obj':
                objs.append(self.var(o))
            elif env.get(o) == 'objalias' and o in self.obj_alias:
                objs.append(self.var(self.obj_alias[o]))
            else:
                self.fail(node, '%s is not a loop object here' % o)
        scal = [self.expr(ast.parse(a, mode='eval').body, env) for a in d.get('args', ())]
        res = {'arr': 'Nat → α', 'arr2': 'Nat → Nat → α', 's': 'α', 'bool': 'Bool'}[d['kind']]
        self.add_param(d['lean'], ' → '.join(['ι'] * len(objs) + ['α'] * len(scal) + [res]))
        self.uses_iota = True
        return ' '.join([d['lean']] + objs + scal)

    def known_call(self, node, tgt, env):
        """text of a call of a function translated earlier in the same file"""
        if (node.keywords or len(node.args) < len(tgt['arg_kinds'])) and 'assume' in tgt:
            node = self.normalize_call(node, tgt)
        if node.keywords:
            self.fail(node, 'keyword arguments in a call')
        if len(node.args) != len(tgt['arg_kinds']):
            self.fail(node, 'call with a different number of arguments than the definition')
        args = []
        for a, k, pn in zip(node.args, tgt['arg_kinds'], tgt['arg_names']):
            if k == 'skip':
                if pn in tgt.get('assume', {}) and a is not None and self.const_value(a) != tgt['assume'][pn]:
                    self.fail(node, 'argument %s differs from the value the translation of the callee assumes' % pn)
                continue
            if k == 'nat':
                args.append(self.index(a, env, tgt['index_dims'].get(pn)))
            elif k in ('arr', 'arr2', 'arrlist', 'arr3', 'arr4'):
                args.append(self.arr_arg(a, k, env))
            else:
                args.append(self.expr(a, env))
        seen = set()
        for arr, n in tgt.get('len_params', ()):
            if n in seen:
                continue
            seen.add(n)
            # the callee's declared length of one of its array arguments: the length of what is passed
            if arr not in tgt['arg_names']:
                self.fail(node, 'the callee declares the length of something that is not an argument')
            v = self.aval(node.args[tgt['arg_names'].index(arr)], env)
            if not isinstance(v, AV) or v.shape[0] in (None, BC):
                self.fail(node, 'argument of undeclared length passed to a function that needs its length')
            args.append(v.shape[0])
        for nm, ty in tgt['extra_params']:
            self.add_param(nm, ty)
            if 'ι' in ty:
                self.uses_iota = True
            args.append(nm)
        return '(%s %s)' % (tgt['lean'], ' '.join(args))

    def normalize_call(self, node, tgt):
        """a call with keyword arguments / omitted trailing arguments, as the positional call it means.  Only parameters of
        kind 'skip' may be omitted (their default must be the value the callee's translation assumes, if it assumes one)"""
        names = tgt['arg_names']
        if len(node.args) > len(names):
            self.fail(node, 'call with more arguments than the definition')
        actual = dict(zip(names, node.args))
        for k in node.keywords:
            if k.arg is None or k.arg not in names or k.arg in actual:
                self.fail(node, 'unsupported keyword argument')
            actual[k.arg] = k.value
        args = []
        for pn, kind in zip(names, tgt['arg_kinds']):
            if pn in actual:
                args.append(actual[pn])
                continue
            if kind != 'skip' or pn not in tgt.get('defaults', {}):
                self.fail(node, 'argument %s is not passed' % pn)
            d = ast.parse(tgt['defaults'][pn], mode='eval').body
            if pn in tgt.get('assume', {}) and not (isinstance(d, ast.Constant) and d.value == tgt['assume'][pn]
                                                   and type(d.value) is type(tgt['assume'][pn])):
                self.fail(node, 'the default of %s is not the value the translation of the callee assumes' % pn)
            args.append(d if pn in tgt.get('assume', {}) else None)
        new = ast.Call(func=node.func, args=[a if a is not None else ast.Constant(value=None) for a in args], keywords=[])
        return ast.copy_location(new, node)

    def arr_arg(self, node, kind, env):
        """an array passed to a call: any array expression of the right rank"""
        v = self.aval(node, env)
        if kind == 'arrlist':
            if isinstance(v, LV):
                return v.text
            self.fail(node, 'a list of arrays is expected')
        if not isinstance(v, AV) or v.ndim != NDIM[kind] or v.dtype != 'f' or any(isinstance(d, MaskAx) for d in v.shape):
            self.fail(node, 'an array of kind %s is expected' % kind)
        return v.plain if v.plain else self.lam(v)

    def lam(self, av):
        bs = self.BINDERS[:av.ndim]
        return '(fun %s => %s)' % (' '.join(bs), av.elem(bs))

    def norm_indices(self, idxs, ndim, node):
        """expand `...` and pad with full slices: one entry per axis of the array, plus the None entries"""
        n_real = sum(1 for i in idxs if not is_none(i) and not is_ellipsis(i))
        if sum(1 for i in idxs if is_ellipsis(i)) > 1 or n_real > ndim:
            self.fail(node, 'too many indices')
        out = []
        for i in idxs:
            if is_ellipsis(i):
                out.extend(full_slice() for _ in range(ndim - n_real))
            else:
                out.append(i)
        n_real = sum(1 for i in out if not is_none(i))
        return out + [full_slice() for _ in range(ndim - n_real)]

    def sub(self, base, idxs, env, node):
        """numpy basic indexing of an AV"""
        masks = {id(i): self.aval(i, env) for i in idxs
                 if not isinstance(i, ast.Slice) and not is_none(i) and not is_ellipsis(i)}
        masks = {key: m for key, m in masks.items() if isinstance(m, AV) and m.dtype == 'b'}
        if masks:
            return self.sub_masked(base, idxs, masks, env, node)
        idxs = self.norm_indices(idxs, base.ndim, node)
        plan = []          # per base axis: ('fix', text) | ('map', result axis, fn r -> text, is identity)
        shape = []
        k = 0
        for i in idxs:
            if is_none(i):
                shape.append(BC)
                continue
            ln = base.shape[k]
            if isinstance(i, ast.Slice):
                r = len(shape)
                if i.step is not None:
                    if not (ast.unparse(i.step) == '-1' and i.lower is None and i.upper is None):
                        self.fail(node, 'unsupported slice step')
                    if ln is None or ln == BC:
                        self.fail(node, 'reversal of an axis of undeclared length')
                    plan.append(('map', r, lambda t, ln=ln: '(%s - 1 - %s)' % (ln, t), False))
                    shape.append(ln)
                    k += 1
                    continue
                lo = self.slice_bound(i.lower, ln, env, node) if i.lower is not None else None
                hi = self.slice_bound(i.upper, ln, env, node) if i.upper is not None else None
                if hi is not None:
                    self.need_le(hi, ln)
                if lo is None:
                    plan.append(('map', r, lambda t: t, True))
                else:
                    plan.append(('map', r, lambda t, lo=lo: '(%s + %s)' % (lo, t), False))
                if hi is not None:
                    shape.append(hi if lo is None else '(%s - %s)' % (hi, lo))
                elif ln is None or ln == BC:
                    shape.append(ln)
                else:
                    shape.append(ln if lo is None else '(%s - %s)' % (ln, lo))
                k += 1
                continue
            if self.aval(i, env) is not None:
                self.fail(node, 'advanced (array) indexing in an expression')
            plan.append(('fix', self.index(i, env, ln if ln not in (None, BC) else None)))
            k += 1

        def elem(ix, plan=plan, base=base):
            return base.elem([p[1] if p[0] == 'fix' else p[2](ix[p[1]]) for p in plan])
        # a leading-fixed, otherwise untouched selection of a plain array is a partial application
        plain = None
        nfix = 0
        while nfix < len(plan) and plan[nfix][0] == 'fix':
            nfix += 1
        if base.plain and BC not in shape and all(p[0] == 'map' and p[3] for p in plan[nfix:]):
            plain = '(%s %s)' % (base.plain, ' '.join(p[1] for p in plan[:nfix])) if nfix else base.plain
        return AV(shape, elem, dtype=base.dtype, plain=plain, base=base.base)

    def sub_masked(self, base, idxs, masks, env, node):
        """`X[…, M, …]` with ONE boolean mask M (covering M.ndim axes), integers and full slices: the selected elements, the
        masked axes seen as one axis addressed by the ORIGINAL indices (class MaskAx).  numpy puts the axis of the advanced
        indices (the mask and, next to a mask, the integers) where they stand when they are adjacent, else first."""
        if len(masks) != 1 or any(is_none(i) or is_ellipsis(i) for i in idxs):
            self.fail(node, 'unsupported combination of a mask with other indices')
        entries = []       # per index: ('mask', MaskAx) | ('fix', text) | ('all',)
        ax = 0
        for i in idxs:
            if id(i) in masks:
                m = masks[id(i)]
                for d in range(m.ndim):
                    if ax + d >= base.ndim:
                        self.fail(node, 'too many indices')
                    self.need_equal(m.shape[d], base.shape[ax + d], node)
                entries.append(('mask', MaskAx(ast.unparse(i), m)))
                ax += m.ndim
            elif isinstance(i, ast.Slice):
                if i.lower is not None or i.upper is not None or i.step is not None:
                    self.fail(node, 'a mask combined with a proper slice')
                entries.append(('all', base.shape[ax] if ax < base.ndim else None))
                ax += 1
            else:
                ln = base.shape[ax] if ax < base.ndim else None
                entries.append(('fix', self.index(i, env, ln if isinstance(ln, str) and ln != BC else None)))
                ax += 1
        if ax > base.ndim:
            self.fail(node, 'too many indices')
        while ax < base.ndim:
            entries.append(('all', base.shape[ax]))
            ax += 1
        adv = [n for n, e in enumerate(entries) if e[0] in ('mask', 'fix')]
        adjacent = adv == list(range(adv[0], adv[-1] + 1))
        # result axes: (position in the result) -> entry
        res = []           # entries that carry a result axis, in result order
        if adjacent:
            for n, e in enumerate(entries):
                if e[0] == 'all' or e[0] == 'mask':
                    res.append(n)
        else:
            res = [n for n, e in enumerate(entries) if e[0] == 'mask'] + [n for n, e in enumerate(entries) if e[0] == 'all']
        shape = [entries[n][1] for n in res]

        def elem(ix, entries=entries, res=res, base=base):
            at = {n: ix[r] for r, n in enumerate(res)}
            out = []
            for n, e in enumerate(entries):
                if e[0] == 'fix':
                    out.append(e[1])
                elif e[0] == 'mask':
                    orig = at[n]
                    if not isinstance(orig, (list, tuple)) or len(orig) != e[1].k:
                        raise Untranslatable('an axis selected by a mask addressed by a position inside the selection')
                    out.extend(orig)
                else:
                    out.append(at[n])
            return base.elem(out)
        return AV(shape, elem, dtype=base.dtype, base=base.base)

    def slice_bound(self, node, ln, env, where):
        if isinstance(node, ast.UnaryOp) and isinstance(node.op, ast.USub) and isinstance(node.operand, ast.Constant) \
                and isinstance(node.operand.value, int):
            if ln is None or ln == BC:
                self.fail(where, 'negative slice bound on an axis of undeclared length')
            return '(%s - %d)' % (ln, node.operand.value)
        return self.nat(node, env)

    # ------------------------------------------------------------------ natural-number hooks
    def nat_ext(self, node, env):
        """`X.size` of a 1-D array of known length; `np.searchsorted(A, v[, side=…])` on a SORTED 1-D array A of known
        length: the number of elements < v (left, the default) / ≤ v (right)"""
        if isinstance(node, ast.Attribute) and node.attr == 'size':
            a = self.aval(node.value, env)
            if isinstance(a, AV) and a.ndim == 1 and a.shape[0] not in (None, BC):
                return a.shape[0]
        if isinstance(node, ast.Subscript) and isinstance(node.value, ast.Attribute) and node.value.attr == 'shape' \
                and isinstance(node.slice, ast.Constant) and isinstance(node.slice.value, int) \
                and not isinstance(node.slice.value, bool) and node.slice.value >= 0:
            # `X.shape[k]` of an array whose k-th axis has a known (symbolic) length
            m = re.fullmatch(r'(\w+)\.shape\[0\]', ast.unparse(node))
            if m and m.group(1) in self.lens:
                return None                               # (the declared-length rule of Fn)
            a = self.aval(node.value.value, env)
            k = node.slice.value
            if isinstance(a, AV) and k < a.ndim and isinstance(a.shape[k], str) and a.shape[k] != BC:
                return a.shape[k]
        if isinstance(node, ast.Call) and ast.unparse(node.func) in ('np.searchsorted', 'numpy.searchsorted') \
                and len(node.args) == 2:
            kw = {k.arg: k.value for k in node.keywords}
            side = 'left'
            if kw:
                if set(kw) != {'side'} or not isinstance(kw['side'], ast.Constant) or kw['side'].value not in ('left', 'right'):
                    return None
                side = kw['side'].value
            a = self.aval(node.args[0], env)
            if not (isinstance(a, AV) and a.ndim == 1 and a.dtype == 'f') or self.aval(node.args[1], env) is not None:
                return None
            if a.shape[0] in (None, BC):
                self.fail(node, 'searchsorted in an array of undeclared length')
            v = self.expr(node.args[1], env)
            rel = '%s < %s' if side == 'left' else '%s ≤ %s'
            return '(((List.range %s).map (fun i__ => %s)).countP (fun x__ => decide (%s)))' % (
                a.shape[0], a.elem(['i__']), rel % ('x__', v))
        return None

    def is_nat(self, node, env):
        if isinstance(node, (ast.Attribute, ast.Call, ast.Subscript)) and self.nat_ext(node, env) is not None:
            return True
        return super().is_nat(node, env)

    def nat(self, node, env):
        if isinstance(node, (ast.Attribute, ast.Call, ast.Subscript)):
            r = self.nat_ext(node, env)
            if r is not None:
                return r
        return super().nat(node, env)

    # ------------------------------------------------------------------ scalar hooks
    def reduce_text(self, a, kind, node):
        """X.max() / X.min() / X.sum() of a 1-D array of declared length"""
        if a.ndim != 1:
            self.fail(node, 'full reduction of a non 1-D array')
        n = a.shape[0]
        if n is None or n == BC:
            self.fail(node, 'reduction over an axis of undeclared length')
        s = self.fresh_name('s')
        if kind == 'sum':
            self.literals.add(0)
            return '((List.range %s).foldl (fun acc__ %s => acc__ + %s) (0 : α))' % (n, s, a.elem([s]))
        if kind == 'max':
            step = 'let a__ := acc__; let b__ := %s; if a__ < b__ then b__ else a__' % a.elem(['(%s + 1)' % s])
        else:
            step = 'let a__ := acc__; let b__ := %s; if b__ < a__ then b__ else a__' % a.elem(['(%s + 1)' % s])
        return '((List.range (%s - 1)).foldl (fun acc__ %s => (%s)) %s)' % (n, s, step, a.elem(['0']))

    def reduction_of(self, node, env):
        """(array value, 'max'|'min'|'sum') when `node` is a full reduction of an array, else None"""
        if not isinstance(node, ast.Call) or node.keywords:
            return None
        if isinstance(node.func, ast.Attribute) and node.func.attr in ('max', 'min', 'sum') and not node.args:
            a = self.aval(node.func.value, env)
            if isinstance(a, AV) and a.dtype == 'f':
                return a, node.func.attr
            return None
        short, full = self.call_name(node)
        if full in ('np.max', 'np.min', 'np.sum', 'np.amax', 'np.amin', 'numpy.max', 'numpy.min', 'numpy.sum') \
                and len(node.args) == 1:
            a = self.aval(node.args[0], env)
            if isinstance(a, AV) and a.dtype == 'f':
                return a, {'amax': 'max', 'amin': 'min'}.get(short, short)
        return None

    def expr_ext(self, node, env):
        """scalar expressions that involve arrays; None: not ours"""
        r = self.reduction_of(node, env)
        if r is not None:
            return self.reduce_text(r[0], r[1], node)
        if isinstance(node, ast.BinOp) and isinstance(node.op, ast.Pow) and self.aval(node, env) is None:
            r, l = node.right, node.left
            small = isinstance(r, ast.Constant) and isinstance(r.value, (int, float)) and not isinstance(r.value, bool) \
                and float(r.value) == int(r.value) and 2 <= int(r.value) <= 6
            ten = isinstance(l, ast.Constant) and l.value in (10, 10.0)
            if not small and not ten:
                # x ** y with a general exponent: numpy's / python's float power, a parameter of the definition
                self.add_param('powf', 'α → α → α')
                return '(powf %s %s)' % (self.expr(l, env), self.expr(r, env))
        if isinstance(node, ast.Subscript) and isinstance(node.value, ast.Name) and env.get(node.value.id) == 'pair' \
                and ast.unparse(node.slice) in ('-1', '-2'):
            return '%s_%d' % (self.var(node.value.id), 2 + int(ast.unparse(node.slice)))
        if isinstance(node, ast.Attribute) and ast.unparse(node) in ('np.inf', 'numpy.inf'):
            self.add_param('inf', 'α')
            return 'inf'
        if isinstance(node, ast.Attribute) and ast.unparse(node) in ('np.nan', 'numpy.nan'):
            self.add_param('nan', 'α')                    # not a value of the carrier: a parameter (cf. `isfinite`)
            return 'nan'
        if isinstance(node, ast.Attribute) and ast.unparse(node) in ('np.pi', 'numpy.pi', 'math.pi'):
            self.add_param('pi', 'α')
            return 'pi'
        if isinstance(node, ast.Subscript) and not isinstance(node.value, (ast.Name, ast.Attribute)):
            # one element of a computed array (`xs[i][k]`, `(a + b)[i]`); plain `a[i]` is Fn.subscript's
            base = self.aval(node.value, env)
            if isinstance(base, AV) and base.dtype == 'f':
                idx = node.slice
                idxs = list(idx.elts) if isinstance(idx, ast.Tuple) else [idx]
                idxs = [i for i in idxs if not (isinstance(i, ast.Name) and i.id in self.lift)]
                r = self.sub(base, idxs, env, node)
                if r.ndim == 0:
                    return r.elem([])
        if isinstance(node, ast.Call):
            tgt = self.known.get(ast.unparse(node.func))
            if tgt is not None and tgt.get('shaped') and tgt.get('returns', 's') == 's':
                return self.known_call(node, tgt, env)
        return super().expr_ext(node, env)

    def minmax_test(self, node, env):
        """`X.min() > c`, `X.min() >= c`, `X.max() < c`, `X.max() <= c` (either way round) of a 1-D array X against a scalar:
        true exactly when EVERY element satisfies the comparison — also under IEEE NaN (numpy's min/max propagate NaN and a
        comparison with NaN is false; an element NaN fails the element test).  The other four combinations are not
        equivalent to an element test when NaN is present and are left to the fold of min/max."""
        if not (isinstance(node, ast.Compare) and len(node.ops) == 1):
            return None
        flip = {ast.Lt: ast.Gt, ast.Gt: ast.Lt, ast.LtE: ast.GtE, ast.GtE: ast.LtE}
        l, r, op = node.left, node.comparators[0], type(node.ops[0])
        if op not in flip:
            return None
        red, other = self.reduction_of(l, env), r
        if red is None:
            red, other, op = self.reduction_of(r, env), l, flip[op]
            if red is None:
                return None
        a, kind = red
        if (kind, op) not in (('min', ast.Gt), ('min', ast.GtE), ('max', ast.Lt), ('max', ast.LtE)):
            return None
        if self.aval(other, env) is not None or self.reduction_of(other, env) is not None:
            return None
        if a.ndim != 1 or a.shape[0] in (None, BC):
            self.fail(node, 'min/max test over an axis of undeclared length')
        c = self.expr(other, env)
        s = self.fresh_name('s')
        x = a.elem([s])
        rel = {ast.Gt: 'decide (%s < %s)' % (c, x), ast.GtE: 'decide (%s ≤ %s)' % (c, x),
               ast.Lt: 'decide (%s < %s)' % (x, c), ast.LtE: 'decide (%s ≤ %s)' % (x, c)}[op]
        return '((List.range %s).all (fun %s => %s))' % (a.shape[0], s, rel)

    def mask_count_test(self, node, env):
        """`M.sum() == 0`, `M.sum() != 0`, `M.sum() > 0` for a boolean mask M of known shape (the number of True elements):
        no / some element is True"""
        if not (isinstance(node, ast.Compare) and len(node.ops) == 1 and isinstance(node.ops[0], (ast.Eq, ast.NotEq, ast.Gt))):
            return None
        l, r = node.left, node.comparators[0]
        if not (isinstance(r, ast.Constant) and r.value == 0 and not isinstance(r.value, bool)):
            return None
        if not (isinstance(l, ast.Call) and isinstance(l.func, ast.Attribute) and l.func.attr == 'sum' and not l.args
                and not l.keywords):
            return None
        m = self.aval(l.func.value, env)
        if not (isinstance(m, AV) and m.dtype == 'b'):
            return None
        if any(not isinstance(d, str) or d == BC for d in m.shape):
            self.fail(node, 'count of a mask of undeclared shape')
        bs = [self.fresh_name('s') for _ in m.shape]
        txt = m.elem(bs)
        for b, d in reversed(list(zip(bs, m.shape))):
            txt = '((List.range %s).any (fun %s => %s))' % (d, b, txt)
        return '(!%s)' % txt if isinstance(node.ops[0], ast.Eq) else txt

    def cond(self, node, env):
        late = getattr(self, '_late_shapes', {}).get(id(node))
        if late is None:
            return super().cond(node, env)
        keep = self.shapes, self.views
        self.shapes, self.views = dict(late[0]), dict(late[1])
        try:
            return super().cond(node, env)
        finally:
            self.shapes, self.views = keep

    def cond_ext(self, node, env):
        r = self.minmax_test(node, env)
        if r is not None:
            return r
        r = self.mask_count_test(node, env)
        if r is not None:
            return r
        if isinstance(node, ast.Compare) and len(node.ops) == 1 and isinstance(node.ops[0], (ast.Is, ast.IsNot)) \
                and isinstance(node.comparators[0], ast.Constant) and node.comparators[0].value is None \
                and isinstance(node.left, ast.Name) and node.left.id in self.optext:
            # `x is None` for x = a declared OPTIONAL external: decided by its companion predicate `<lean>Defined`
            c = self.optext[node.left.id]
            return '(!%s)' % c if isinstance(node.ops[0], ast.Is) else c
        if isinstance(node, ast.Compare) and len(node.ops) == 1 and isinstance(node.ops[0], (ast.Eq, ast.NotEq)):
            l, r2 = node.left, node.comparators[0]
            strs = [x for x in (l, r2) if isinstance(x, ast.Constant) and (x.value is None or isinstance(x.value, (str, bool)))]
            if not strs and ast.unparse(l) not in self.enums and not (self.is_nat(l, env) and self.is_nat(r2, env)) \
                    and self.aval(l, env) is None and self.aval(r2, env) is None:
                # IEEE `a == b` on floats: true exactly when a ≤ b and b ≤ a (false for NaN, true for +0 == -0)
                a, b = self.expr(l, env), self.expr(r2, env)
                c = '(decide (%s ≤ %s) && decide (%s ≤ %s))' % (a, b, b, a)
                return c if isinstance(node.ops[0], ast.Eq) else '(!%s)' % c
        if isinstance(node, ast.Attribute):
            t = ast.unparse(node)
            if t in self.attrs and self.attrs[t][1] == 'bool':
                self.add_param(self.attrs[t][0], 'Bool')
                return self.attrs[t][0]
        return super().cond_ext(node, env)

    # ------------------------------------------------------------------ statements
    def assigned_ext(self, s, env, add):
        """variables (re)bound by an expression statement"""
        super().assigned_ext(s, env, add)
        if isinstance(s, ast.With):
            for n in self.assigned(s.body, env):
                add(n)
        if isinstance(s, ast.Expr) and isinstance(s.value, ast.Yield) and self.spec.get('yields') == 'list':
            add('yield__')
        if not (isinstance(s, ast.Expr) and isinstance(s.value, ast.Call)):
            return
        c = s.value
        f = c.func
        if isinstance(f, ast.Attribute) and f.attr == 'append' and isinstance(f.value, ast.Name):
            add(f.value.id)
            return
        if isinstance(f, ast.Attribute) and f.attr in self.methods:
            if self.methods[f.attr].get('mutates'):
                add(self.methods[f.attr]['mutates'])
            return
        tgt = self.known.get(ast.unparse(f))
        if tgt is not None and tgt.get('out'):
            i = tgt['arg_names'].index(tgt['out'])
            if i < len(c.args) and isinstance(c.args[i], ast.Name):
                add(c.args[i].id)

    def check_store(self, name, node):
        """numpy views share memory: refuse a store when the variable has a live view or is one"""
        if name in self.views:
            self.fail(node, 'store through a view of %s' % self.views[name])
        for v, b in self.views.items():
            if b == name:
                self.fail(node, 'store into an array that has the live view %s' % v)

    def bind_array(self, name, v, env, ind, node):
        """`name = <array value>`"""
        # re-binding the name ends its life as a view; views OF the old value stay views of that (now unnamed) value
        self.views.pop(name, None)
        self.optext.pop(name, None)
        self.tuple_lists.pop(name, None)
        if isinstance(v, LV):
            if getattr(v, 'tuple_kinds', None):
                self.tuple_lists[name] = v.tuple_kinds
            env[name] = v.kind
            if v.base is not None and v.base != name:
                self.views[name] = v.base
            return '%slet %s : %s := %s\n' % (ind, self.var(name), self.lean_ty(v.kind), v.text)
        pre = ''
        if any(isinstance(d, MaskAx) for d in v.shape):
            # `x = A[M, …]` for a 1-D selection by a 1-D mask: the compressed array.  Its length is the number of True elements,
            # its n-th element is the element of A at the n-th True position.
            ax = v.shape[0]
            if v.ndim != 1 or ax.k != 1 or v.dtype != 'f' or not isinstance(ax.mask.shape[0], str) or ax.mask.shape[0] == BC:
                self.fail(node, 'only a 1-D selection by a 1-D mask of known length can be bound to a variable')
            sel = '((List.range %s).filter (fun j__ => %s))' % (ax.mask.shape[0], ax.mask.elem(['j__']))
            cnt = self.fresh_name('nsel')
            pre = '%slet %s := %s.length\n' % (ind, cnt, sel)
            env[cnt] = 'nat'
            v = AV([cnt], lambda ix, v=v, sel=sel: v.elem([['(%s.getD %s 0)' % (sel, ix[0])]]))
        kind = {('f', 1): 'arr', ('f', 2): 'arr2', ('b', 1): 'barr', ('f', 3): 'arr3', ('f', 4): 'arr4',
                ('b', 2): 'barr2'}.get((v.dtype, v.ndim))
        if kind is None:
            self.fail(node, 'unsupported array type / rank')
        txt = v.plain if v.plain else self.lam(v)[1:-1]
        env[name] = kind
        self.shapes[name] = list(v.shape)
        if v.base is not None and v.base != name:
            self.views[name] = v.base
        return pre + '%slet %s : %s := %s\n' % (ind, self.var(name), self.lean_ty(kind), txt)

    def stmt_ext(self, s, env, ind, rest, tail, inline):
        """returns None (not ours) or (text, stop)"""
        # ---- self.x = e for a declared local attribute: bound like a local variable
        if isinstance(s, ast.Assign) and len(s.targets) == 1 and isinstance(s.targets[0], ast.Attribute) \
                and ast.unparse(s.targets[0]) in self.local_attrs:
            key = ast.unparse(s.targets[0])
            if key not in self.attrs:
                self.fail(s, 'local attribute without a declared name/kind')
            nm, k = self.attrs[key]
            if k == 'nat':
                e = self.nat(s.value, env)
                env[key] = 'nat'
                return '%slet %s := %s\n' % (ind, nm, e), False
            if k in ('arr', 'arr2'):
                v = self.aval(s.value, env)
                if not isinstance(v, AV):
                    self.fail(s, 'an array is expected')
                txt = self.bind_array(key, v, env, ind, s)
                if env[key] != k:
                    self.fail(s, 'local attribute assigned a value of another kind')
                return txt, False
            if k == 's':
                e = self.expr(s.value, env)
                env[key] = 's'
                return '%slet %s := %s\n' % (ind, nm, e), False
            if k == 'optarr2' and isinstance(s.value, ast.Name) and env.get(s.value.id) == 'optarr2':
                env[key] = 'optarr2'
                return '%slet %s : %s := %s\n' % (ind, nm, self.lean_ty(k), self.var(s.value.id)), False
            self.fail(s, 'unsupported kind of local attribute')
        # ---- with np.errstate(...): body   (only changes the reporting of floating-point warnings)
        if isinstance(s, ast.With):
            for it in s.items:
                if it.optional_vars is not None or not re.match(r'(np|numpy)\.errstate\(', ast.unparse(it.context_expr)):
                    self.fail(s, 'unsupported context manager')
            if self.ends_in_return(s.body) or self.has_break(s.body):
                self.fail(s, 'return / break inside a with block')
            return self.block(s.body, env, ind, None, inline=True), False
        # ---- if <declared test>: <body>  with the body as an abstract function of everything it reads
        if isinstance(s, ast.If) and ast.unparse(s.test) in self.opaque_if:
            return self.opaque_branch(s, env, ind, rest), False
        # ---- if x is not None: A else: B  (both return) for an optional value x: a `match`
        if isinstance(s, ast.If) and isinstance(s.test, ast.Compare) and len(s.test.ops) == 1 \
                and isinstance(s.test.ops[0], (ast.Is, ast.IsNot)) and isinstance(s.test.left, ast.Name) \
                and env.get(s.test.left.id) in OPT_KINDS and isinstance(s.test.comparators[0], ast.Constant) \
                and s.test.comparators[0].value is None and not inline:
            x = s.test.left.id
            some_b, none_b = (s.orelse, s.body) if isinstance(s.test.ops[0], ast.Is) else (s.body, s.orelse)
            some_b, none_b = list(some_b), list(none_b)
            if not (self.ends_in_return(s.body) and s.orelse and self.ends_in_return(s.orelse)):
                # one branch returns, the other falls through to the rest of the block
                if self.ends_in_return(s.body) and not s.orelse:
                    if isinstance(s.test.ops[0], ast.Is):
                        some_b = list(rest)
                    else:
                        none_b = list(rest)
                else:
                    self.fail(s, 'unsupported None test of an optional value')
            e1, e2 = dict(env), dict(env)
            e1[x] = OPT_KINDS[env[x]]
            sh = dict(self.shapes)
            nctx = len(self.ctx)
            self.ctx.append('∀ (%s : %s),\n' % (self.var(x), self.lean_ty(e1[x])))
            b1 = self.block(some_b, e1, ind + '    ', tail)
            del self.ctx[nctx:]
            self.shapes = sh
            self.ctx.append('%s = none →\n' % self.var(x))
            b2 = self.block(none_b, e2, ind + '    ', tail)
            del self.ctx[nctx:]
            self.shapes = sh
            return '%smatch %s with\n%s| some %s =>\n%s%s| none =>\n%s' % (ind, self.var(x), ind, self.var(x), b1, ind, b2), True
        # ---- self.attr = [obj] / self.attr = <declared object list>  for an attribute that holds the object list a callee reads
        if isinstance(s, ast.Assign) and len(s.targets) == 1 and isinstance(s.targets[0], ast.Attribute) \
                and ast.unparse(s.targets[0]) in self.local_objlists:
            lst = self.local_objlists[ast.unparse(s.targets[0])]
            self.add_param(lst, 'List ι')
            self.uses_iota = True
            v = s.value
            if isinstance(v, ast.List) and all(isinstance(e, ast.Name) and env.get(e.id) == 'obj' for e in v.elts):
                self.objlist_elems[lst] = [e.id for e in v.elts]
                return '%slet %s : List ι := [%s]\n' % (ind, lst, ', '.join(self.var(e.id) for e in v.elts)), False
            if isinstance(v, ast.Name) and env.get(v.id) == 'objlist' and self.objlists.get(v.id) == lst \
                    and any(s is st for st in self.node.body):
                # the list the attribute held on entry is put back (at the level of the function body, where no local
                # re-binding of it is in scope)
                self.objlist_elems.pop(lst, None)
                return '', False
            self.fail(s, 'unsupported value for an object-list attribute')
        # ---- x = obj.attr  for a declared string attribute of a loop object
        if isinstance(s, ast.Assign) and len(s.targets) == 1 and isinstance(s.targets[0], ast.Name) \
                and isinstance(s.value, ast.Attribute) and isinstance(s.value.value, ast.Name) \
                and s.value.attr in self.obj_strs and env.get(s.value.value.id) == 'obj':
            fn = self.obj_strs[s.value.attr]
            self.add_param(fn, 'ι → String')
            self.uses_iota = True
            env[s.targets[0].id] = 'str'
            return '%slet %s : String := (%s %s)\n' % (ind, self.var(s.targets[0].id), fn, self.var(s.value.value.id)), False
        # ---- xs = []  /  xs.append((…))  for a declared list of records
        if isinstance(s, ast.Assign) and len(s.targets) == 1 and isinstance(s.targets[0], ast.Name) \
                and s.targets[0].id in self.rec_lists and isinstance(s.value, ast.List) and not s.value.elts:
            env[s.targets[0].id] = 'reclist'
            return '%slet %s : %s := []\n' % (ind, self.var(s.targets[0].id), self.lean_ty('reclist')), False
        if isinstance(s, ast.Expr) and isinstance(s.value, ast.Call) and isinstance(s.value.func, ast.Attribute) \
                and s.value.func.attr == 'append' and isinstance(s.value.func.value, ast.Name) \
                and env.get(s.value.func.value.id) == 'reclist':
            c = s.value
            name = c.func.value.id
            kinds = self.rec_lists[name]
            if c.keywords or len(c.args) != 1 or not (isinstance(c.args[0], ast.Tuple) and len(c.args[0].elts) == len(kinds)):
                self.fail(s, 'the appended tuple does not match its declaration')
            parts = [self.value_of_kind(e, k, env) for e, k in zip(c.args[0].elts, kinds) if k != 'skip']
            nm = self.var(name)
            return '%slet %s : %s := %s ++ [(%s)]\n' % (ind, nm, self.lean_ty('reclist'), nm, ', '.join(parts)), False
        # ---- d[key] = xs  for a dict declared to hold lists of records (`value_list`): the key a string variable
        if isinstance(s, ast.Assign) and len(s.targets) == 1 and isinstance(s.targets[0], ast.Subscript) \
                and isinstance(s.targets[0].value, ast.Name) and env.get(s.targets[0].value.id) == 'dict' \
                and self.dicts[s.targets[0].value.id].get('value_list'):
            name = s.targets[0].value.id
            d = self.dicts[name]
            kn = s.targets[0].slice
            if not (isinstance(kn, ast.Name) and env.get(kn.id) == 'str'):
                self.fail(s, 'the key of the dict store is not a string variable')
            if not (isinstance(s.value, ast.Name) and s.value.id == d['value_list'] and env.get(s.value.id) == 'reclist'):
                self.fail(s, 'the stored value is not the declared list of records')
            key = self.var(kn.id)
            val = '(%s, %s)' % (key, self.var(s.value.id))
            nm = self.var(name)
            # python: an existing key keeps its position and gets the new value, a new key is appended
            return ('%slet %s : %s := if %s.any (fun e__ => e__.1 == %s) then %s.map (fun e__ => if e__.1 == %s then %s else e__) '
                    'else %s ++ [%s]\n' % (ind, nm, self.lean_ty('dict'), nm, key, nm, key, val, nm, val)), False
        # ---- for a, b in obj.gen(…)  for a declared generator method of a loop object
        if isinstance(s, ast.For) and ast.unparse(s.iter) in self.obj_generators:
            return self.obj_gen_loop(s, env, ind), False
        # ---- d = {}  /  d[key] = (…)  for a declared dict
        if isinstance(s, ast.Assign) and len(s.targets) == 1 and isinstance(s.targets[0], ast.Name) \
                and s.targets[0].id in self.dicts and isinstance(s.value, ast.Dict) and not s.value.keys:
            env[s.targets[0].id] = 'dict'
            return '%slet %s : %s := []\n' % (ind, self.var(s.targets[0].id), self.lean_ty('dict')), False
        if isinstance(s, ast.Assign) and len(s.targets) == 1 and isinstance(s.targets[0], ast.Subscript) \
                and isinstance(s.targets[0].value, ast.Name) and env.get(s.targets[0].value.id) == 'dict':
            name = s.targets[0].value.id
            d = self.dicts[name]
            ktext, klean = d['key']
            kn = s.targets[0].slice
            if ast.unparse(kn) != ktext or not (isinstance(kn, ast.Attribute) and isinstance(kn.value, ast.Name)
                                                and env.get(kn.value.id) == 'obj'):
                self.fail(s, 'the key of the dict store is not the declared attribute of a loop object')
            self.add_param(klean, 'ι → String')
            self.uses_iota = True
            key = '(%s %s)' % (klean, self.var(kn.value.id))
            if not (isinstance(s.value, ast.Tuple) and len(s.value.elts) == len(d['value'])):
                self.fail(s, 'the stored value does not match the declared tuple')
            parts = []
            for e, k in zip(s.value.elts, d['value']):
                if k == 'skip':
                    continue
                parts.append(self.value_of_kind(e, k, env))
            val = '(%s, %s)' % (key, ', '.join(parts))
            nm = self.var(name)
            # python: an existing key keeps its position and gets the new value, a new key is appended
            return ('%slet %s : %s := if %s.any (fun e__ => e__.1 == %s) then %s.map (fun e__ => if e__.1 == %s then %s else e__) '
                    'else %s ++ [%s]\n' % (ind, nm, self.lean_ty('dict'), nm, key, nm, key, val, nm, val)), False
        # ---- xs = []  for a list declared to receive tuples
        if isinstance(s, ast.Assign) and len(s.targets) == 1 and isinstance(s.targets[0], ast.Name) \
                and s.targets[0].id in self.tuple_appends and isinstance(s.value, ast.List) and not s.value.elts:
            kinds = self.tuple_appends[s.targets[0].id]
            if [k for k in kinds if k != 'skip'] != ['larr']:
                self.fail(s, 'unsupported kinds of appended tuples')
            env[s.targets[0].id] = 'larrlist'
            return '%slet %s : %s := []\n' % (ind, self.var(s.targets[0].id), self.lean_ty('larrlist')), False
        # ---- x = f(…) for a translated f with an optional result
        if isinstance(s, ast.Assign) and len(s.targets) == 1 and isinstance(s.targets[0], ast.Name) \
                and isinstance(s.value, ast.Call):
            tgt = self.known.get(ast.unparse(s.value.func))
            if tgt is not None and tgt.get('shaped') and tgt.get('returns') in OPT_KINDS:
                x = s.targets[0].id
                env[x] = tgt['returns']
                self.views.pop(x, None)
                self.shapes.pop(x, None)
                if tgt.get('ret_dims') and OPT_KINDS[tgt['returns']] in NDIM:
                    self.shapes[x] = [self.dim_text(d) for d in tgt['ret_dims']]
                return '%slet %s : %s := %s\n' % (ind, self.var(x), self.lean_ty(env[x]), self.known_call(s.value, tgt, env)), False
        # ---- if <statically decided test>: only the branch taken is translated
        if isinstance(s, ast.If):
            sv = self.static_value(s.test)
            if sv is not None:
                taken = s.body if sv else s.orelse
                if self.ends_in_return(taken) or self.has_break(taken):
                    self.fail(s, 'return / break under a static test')
                return self.block(taken, env, ind, None, inline=True), False
        # ---- x = None for a declared optional array
        if isinstance(s, ast.Assign) and len(s.targets) == 1 and isinstance(s.targets[0], ast.Name) \
                and s.targets[0].id in self.optional_vars and isinstance(s.value, ast.Constant) and s.value.value is None:
            env[s.targets[0].id] = 'optarr2'
            self.shapes.pop(s.targets[0].id, None)
            return '%slet %s : %s := none\n' % (ind, self.var(s.targets[0].id), self.lean_ty('optarr2')), False
        # ---- if x is None: … [else: …]  for an optional array x: afterwards x is an array
        if isinstance(s, ast.If) and isinstance(s.test, ast.Compare) and len(s.test.ops) == 1 \
                and isinstance(s.test.ops[0], ast.Is) and isinstance(s.test.left, ast.Name) \
                and env.get(s.test.left.id) == 'optarr2' and isinstance(s.test.comparators[0], ast.Constant) \
                and s.test.comparators[0].value is None:
            return self.if_none(s, env, ind), False
        # ---- x = sorted([a, b]): python's stable sort of two scalars (swapped exactly when b < a)
        if isinstance(s, ast.Assign) and len(s.targets) == 1 and isinstance(s.targets[0], ast.Name) \
                and isinstance(s.value, ast.Call) and ast.unparse(s.value.func) == 'sorted' and len(s.value.args) == 1 \
                and not s.value.keywords and isinstance(s.value.args[0], ast.List) and len(s.value.args[0].elts) == 2:
            a, b = (self.expr(e, env) for e in s.value.args[0].elts)
            nm = self.var(s.targets[0].id)
            env[s.targets[0].id] = 'pair'
            return ('%slet %s_0 := (let a__ := %s; let b__ := %s; if b__ < a__ then b__ else a__)\n'
                    '%slet %s_1 := (let a__ := %s; let b__ := %s; if b__ < a__ then a__ else b__)\n'
                    % (ind, nm, a, b, ind, nm, a, b)), False
        # ---- attribute stores declared as side effects
        if isinstance(s, ast.Assign) and len(s.targets) == 1 and isinstance(s.targets[0], ast.Attribute) \
                and ast.unparse(s.targets[0]) in self.ignore_stores:
            return '', False
        # ---- statements that only bind helper objects (exact text declared in the spec)
        if ast.unparse(s) in self.ignore_stmts:
            if isinstance(s, ast.Assign) and len(s.targets) == 1 and isinstance(s.targets[0], ast.Name):
                self.ignored_bind[s.targets[0].id] = [n.id for n in ast.walk(s.value) if isinstance(n, ast.Name)]
            return '', False
        if ast.unparse(s) in self.obj_derived:
            name, src = self.obj_derived[ast.unparse(s)]
            if env.get(src) != 'obj' and src not in self.obj_alias:
                self.fail(s, 'derived from something that is not a loop object')
            self.obj_alias[name] = self.obj_alias.get(src, src)
            env[name] = 'objalias'
            return '', False
        if isinstance(s, ast.Assign) and len(s.targets) == 1 and isinstance(s.targets[0], ast.Name) \
                and s.targets[0].id in self.obj_assign and s.targets[0].id in self.objlists:
            env[s.targets[0].id] = 'objlist'
            return '', False
        one_name = isinstance(s, ast.Assign) and len(s.targets) == 1 and isinstance(s.targets[0], ast.Name)
        # ---- n = x.shape[0]
        if one_name:
            m = re.fullmatch(r'(\w+)\.shape\[0\]', ast.unparse(s.value))
            if m and m.group(1) in self.lens:
                nm, e = self.var(s.targets[0].id), self.nat(s.value, env)
                env[s.targets[0].id] = 'nat'
                return '%slet %s := %s\n' % (ind, nm, e), False
        # ---- n = <natural number>: the text Fn emits, remembered as context of the shape obligations
        if one_name and self.alloc_idiom(s.value) is None and self.is_nat(s.value, env):
            nm, e = self.var(s.targets[0].id), self.nat(s.value, env)
            env[s.targets[0].id] = 'nat'
            return '%slet %s := %s\n' % (ind, nm, e), False
        # ---- x = <declared optional external>: the array, plus the predicate "is not None"
        if one_name and ast.unparse(s.value) in self.obj_externals and self.obj_externals[ast.unparse(s.value)].get('optional'):
            d = self.obj_externals[ast.unparse(s.value)]
            dd = dict(d, lean=d['lean'] + 'Defined', kind='bool')
            defined = '(' + self.obj_ext_head(s.value, dd, env) + ')'
            v = self.aval(s.value, env)
            txt = self.bind_array(s.targets[0].id, v, env, ind, s)
            self.optext[s.targets[0].id] = defined
            return txt, False
        # ---- x = <array / list expression>
        if one_name:
            v = self.aval(s.value, env)
            if v is not None:
                return self.bind_array(s.targets[0].id, v, env, ind, s), False
        # ---- x op= <array>   (x an array variable)
        if isinstance(s, ast.AugAssign) and isinstance(s.target, ast.Name) and env.get(s.target.id) in ('arr', 'arr2'):
            ops = {ast.Add: ast.Add, ast.Sub: ast.Sub, ast.Mult: ast.Mult, ast.Div: ast.Div}
            if type(s.op) not in ops:
                self.fail(s, 'unsupported augmented assignment')
            # in place: the same buffer, every element replaced
            self.check_store(s.target.id, s)
            v = self.aval(ast.copy_location(ast.BinOp(left=ast.Name(id=s.target.id, ctx=ast.Load()), op=s.op,
                                                      right=s.value), s), env)
            keep_view = self.views.get(s.target.id)
            txt = self.bind_array(s.target.id, AV(v.shape, v.elem, dtype=v.dtype), env, ind, s)
            if keep_view:
                self.views[s.target.id] = keep_view
            return txt, False
        # ---- a, b = self.f(...)
        if isinstance(s, ast.Assign) and len(s.targets) == 1 and isinstance(s.targets[0], ast.Tuple) \
                and isinstance(s.value, ast.Call):
            tgt = self.known.get(ast.unparse(s.value.func))
            if tgt is not None and tgt.get('shaped') and isinstance(tgt.get('returns'), list):
                tg = s.targets[0].elts
                if len(tg) != len(tgt['returns']) or not all(isinstance(t, ast.Name) for t in tg):
                    self.fail(s, 'tuple unpacking does not match the result of the call')
                r = self.fresh_name('r')
                out = '%slet %s := %s\n' % (ind, r, self.known_call(s.value, tgt, env))
                path = r
                for i, (t, k) in enumerate(zip(tg, tgt['returns'])):
                    last = i == len(tg) - 1
                    out += '%slet %s := %s\n' % (ind, self.var(t.id), path if last else path + '.1')
                    path += '.2'
                    env[t.id] = k
                    self.views.pop(t.id, None)
                    self.shapes.pop(t.id, None)
                    if tgt.get('ret_dims') and k in NDIM:
                        self.shapes[t.id] = [self.dim_text(d) for d in tgt['ret_dims'][i]]
                return out, False
        # ---- stores with slices / rows / masks
        if isinstance(s, (ast.Assign, ast.AugAssign)):
            t = s.targets[0] if isinstance(s, ast.Assign) and len(s.targets) == 1 else getattr(s, 'target', None)
            if isinstance(t, ast.Subscript) and isinstance(t.value, ast.Name) and env.get(t.value.id) in FARR:
                r = self.np_store(s, t, env, ind)
                if r is not None:
                    return r, False
        # ---- xs.append(E) / f(..., tau) / obj.method(...)
        if isinstance(s, ast.Expr) and isinstance(s.value, ast.Call):
            c = s.value
            f = c.func
            if isinstance(f, ast.Attribute) and f.attr == 'append' and isinstance(f.value, ast.Name) \
                    and env.get(f.value.id) in ('arrlist', 'arr2list') and len(c.args) == 1 and not c.keywords:
                return self.list_append(f.value.id, c.args[0], env, ind, s), False
            if isinstance(f, ast.Attribute) and f.attr == 'append' and isinstance(f.value, ast.Name) \
                    and env.get(f.value.id) == 'larrlist' and len(c.args) == 1 and not c.keywords:
                # xs.append((…, E, …)): of the tuple, the one 1-D array declared as modelled, with its length
                kinds = self.tuple_appends.get(f.value.id, [])
                tup = c.args[0]
                if not (isinstance(tup, ast.Tuple) and len(tup.elts) == len(kinds)):
                    self.fail(s, 'the appended tuple does not match its declaration')
                e = [x for x, k in zip(tup.elts, kinds) if k == 'larr'][0]
                v = self.aval(e, env)
                if not (isinstance(v, AV) and v.ndim == 1 and v.dtype == 'f' and isinstance(v.shape[0], str) and v.shape[0] != BC):
                    self.fail(s, 'append of something else than a 1-D array of known length')
                self.check_store(f.value.id, s)
                nm = self.var(f.value.id)
                return '%slet %s : %s := %s ++ [(%s, %s)]\n' % (ind, nm, self.lean_ty('larrlist'), nm, v.shape[0],
                                                               v.plain if v.plain else self.lam(v)[1:-1]), False
            tgt = self.known.get(ast.unparse(f))
            if tgt is not None and tgt.get('shaped') and tgt.get('out'):
                i = tgt['arg_names'].index(tgt['out'])
                if c.keywords or i >= len(c.args) or not isinstance(c.args[i], ast.Name):
                    self.fail(s, 'the mutated argument must be a plain variable')
                name = c.args[i].id
                self.check_store(name, s)
                return '%slet %s := %s\n' % (ind, self.var(name), self.known_call(c, tgt, env)), False
            if isinstance(f, ast.Attribute) and isinstance(f.value, ast.Name) and env.get(f.value.id) == 'obj' \
                    and f.attr in self.methods:
                return self.method_call(s, c, f, env, ind), False
        # ---- loops over a list of objects / over a declared list of values / enumerate(…)
        if isinstance(s, ast.For) and ast.unparse(s.iter) in self.objlists:
            return self.obj_loop(s, env, ind), False
        if isinstance(s, ast.For) and ast.unparse(s.iter) in self.vallists:
            return self.obj_loop(s, env, ind, values=self.vallists[ast.unparse(s.iter)]), False
        if isinstance(s, ast.For) and isinstance(s.iter, ast.Call) and ast.unparse(s.iter.func) == 'enumerate' \
                and len(s.iter.args) == 1 and not s.iter.keywords:
            return self.enumerate_loop(s, env, ind), False
        # ---- a, b = tp   (tp the element of enumerate(zip(A, B)))
        if isinstance(s, ast.Assign) and len(s.targets) == 1 and isinstance(s.targets[0], ast.Tuple) \
                and isinstance(s.value, ast.Name) and isinstance(env.get(s.value.id), tuple) and env[s.value.id][0] == 'zip':
            _, arrs, idx = env[s.value.id]
            tg = s.targets[0].elts
            if len(tg) != len(arrs) or not all(isinstance(t, ast.Name) for t in tg):
                self.fail(s, 'unpacking does not match the zipped arrays')
            if env.get(idx) != 'nat':
                self.fail(s, 'the loop index was re-bound')
            stm = [ast.copy_location(ast.Assign(targets=[ast.Name(id=t.id, ctx=ast.Store())],
                                                value=ast.Subscript(value=a, slice=ast.Name(id=idx, ctx=ast.Load()),
                                                                    ctx=ast.Load())), s) for t, a in zip(tg, arrs)]
            return self.block(stm, env, ind, None, inline=True), False
        # ---- variables first assigned in both branches of an if
        if isinstance(s, ast.If) and not self.ends_in_return(s.body) and not self.has_break([s]) \
                and not any(isinstance(n, ast.Continue) for n in ast.walk(s)):
            names = self.assigned([s], env)
            new = [n for n in names if n not in env]
            if new:
                both = s.orelse and all(n in self.assigned(s.body, env) and n in self.assigned(s.orelse, env) for n in new)
                if both:
                    return self.if_new_vars(s, names, env, ind), False
                # variables first assigned inside one branch are local to it (a later use is an unknown name)
                carried = [n for n in names if n in env]
                if not carried:
                    self.fail(s, 'a conditional that changes no existing variable')
                pack = self.state_pack(carried)
                c = self.cond(s.test, env)
                self._branch_ctx[id(s.body)] = '%s = true →\n' % c
                body = self.block(s.body, env, ind + '    ', pack)
                if s.orelse:
                    self._branch_ctx[id(s.orelse)] = '%s = false →\n' % c
                other = self.block(s.orelse, env, ind + '    ', pack)
                src = '(if %s then\n%s%s  else\n%s%s  )' % (c, body, ind, other, ind)
                return self.unpack(carried, src, ind), False
        # ---- yield
        if isinstance(s, ast.Expr) and isinstance(s.value, ast.Yield):
            return self.np_yield(s, env, ind, rest, inline)
        # ---- return
        if isinstance(s, ast.Return) and s.value is not None and not inline:
            rk = self.spec.get('returns', 's')
            if isinstance(rk, list):
                if not (isinstance(s.value, ast.Tuple) and len(s.value.elts) == len(rk)):
                    self.fail(s, 'a tuple of %d values was declared as the result' % len(rk))
                parts = [self.value_of_kind(e, k, env) for e, k in zip(s.value.elts, rk)]
                if self.ret_dims:
                    for e, d in zip(s.value.elts, self.ret_dims):
                        self.check_ret_dims(e, d, env)
                return ind + '(' + ', '.join(parts) + ')\n', True
            if rk in ('arr', 'arr2', 'arrlist', 'arr2list'):
                self.check_ret_dims(s.value, self.ret_dims, env)
                return ind + self.value_of_kind(s.value, rk, env) + '\n', True
            if rk in OPT_KINDS:
                if isinstance(s.value, ast.Constant) and s.value.value is None:
                    return ind + 'none\n', True
                if isinstance(s.value, ast.Name) and env.get(s.value.id) == rk:
                    return ind + self.var(s.value.id) + '\n', True
                if OPT_KINDS[rk] == 'larrlist':
                    if not (isinstance(s.value, ast.Name) and env.get(s.value.id) == 'larrlist'):
                        self.fail(s, 'a list of arrays with their lengths was declared as the result')
                    return ind + '(some %s)\n' % self.var(s.value.id), True
                self.check_ret_dims(s.value, self.ret_dims, env)
                return ind + '(some %s)\n' % self.value_of_kind(s.value, OPT_KINDS[rk], env), True
        return super().stmt_ext(s, env, ind, rest, tail, inline)

    def check_ret_dims(self, node, dims, env):
        """the declared shape of a returned array (what callers are told) against the shape of the value returned"""
        if not dims:
            return
        v = self.aval(node, env)
        if not isinstance(v, AV) or v.ndim != len(dims):
            self.fail(node, 'the returned value does not have the declared rank')
        for a, d in zip(v.shape, dims):
            self.need_equal(a, self.dim_text(d), node)

    def opaque_branch(self, s, env, ind, rest):
        """`if c: body` (no else) declared in `opaque_if`: the test is translated; the body becomes ONE abstract function
        (a parameter) of every variable it reads, returning the variables it re-binds that are used afterwards.  Sound for a
        body that only computes on local variables (checked: assignments and nested ifs, no calls on objects)."""
        if s.orelse or self.ends_in_return(s.body) or self.has_break(s.body):
            self.fail(s, 'unsupported shape of an abstract branch')
        if not any(s is st for st in self.node.body):
            self.fail(s, 'an abstract branch must be a statement of the function body (liveness is decided there)')
        for n in ast.walk(ast.Module(body=s.body, type_ignores=[])):
            if isinstance(n, (ast.Return, ast.Yield, ast.For, ast.While, ast.With, ast.Raise, ast.Global, ast.Nonlocal)):
                self.fail(s, 'unsupported statement inside an abstract branch')
            if isinstance(n, (ast.Assign, ast.AugAssign)):
                for t in (n.targets if isinstance(n, ast.Assign) else [n.target]):
                    while isinstance(t, ast.Subscript):
                        t = t.value
                    if not isinstance(t, ast.Name):
                        self.fail(s, 'an abstract branch may only assign local variables')
            if isinstance(n, ast.Expr):
                self.fail(s, 'an expression statement inside an abstract branch')
        c = self.cond(s.test, env)
        later = {n.id for st in list(rest) + list(getattr(self, '_rest', [])) for n in ast.walk(st) if isinstance(n, ast.Name)}
        assigned = self.assigned(s.body, env)
        carried = [n for n in assigned if n in env and n in later]
        dead = [n for n in assigned if n in env and n not in later]
        if not carried:
            self.fail(s, 'an abstract branch that changes nothing used afterwards')
        reads = []
        loads = []                                        # names read before the body itself defines them, in textual order
        defined = set()
        for st in s.body:
            names = [n for n in ast.walk(st) if isinstance(n, ast.Name)]
            names.sort(key=lambda n: (n.lineno, n.col_offset))
            for n in names:
                plain_target = isinstance(st, ast.Assign) and any(n is t for t in st.targets)
                if not plain_target and n.id not in defined:
                    loads.append(n)
            if isinstance(st, ast.Assign) and len(st.targets) == 1 and isinstance(st.targets[0], ast.Name):
                defined.add(st.targets[0].id)
        for n in loads:
            if n.id in env:
                cand = [n.id]
            elif n.id in self.ignored_bind:
                cand = self.ignored_bind[n.id]
            elif n.id in assigned or n.id in ('np', 'numpy'):
                cand = []
            else:
                self.fail(s, 'the abstract branch reads %s, which is not a translated variable' % n.id)
            for nm in cand:
                if nm in ('np', 'numpy'):
                    continue
                if nm not in env:
                    self.fail(s, 'the abstract branch depends on %s, which is not a translated variable' % nm)
                if nm not in reads:
                    reads.append(nm)
        for nm in carried:
            if nm not in reads:
                reads.append(nm)
        okk = set(NDIM) | {'s', 'nat'}
        for nm in reads:
            if env[nm] not in okk:
                self.fail(s, 'the abstract branch reads %s of unsupported kind %s' % (nm, env[nm]))
        tys = [self.lean_ty(env[nm]) if env[nm] in ('s', 'nat') or self.lean_ty(env[nm]).startswith('(')
               else '(' + self.lean_ty(env[nm]) + ')' for nm in reads]
        rty = self.state_type(carried, env)
        self.add_param(self.opaque_if[ast.unparse(s.test)], ' → '.join(tys + [rty]))
        call = '(%s %s)' % (self.opaque_if[ast.unparse(s.test)], ' '.join(self.var(nm) for nm in reads))
        src = '(if %s then %s else %s)' % (c, call, self.state_pack(carried))
        out = self.unpack(carried, src, ind)
        for nm in dead:                                   # re-bound inside, never used again: no longer a known variable
            env.pop(nm, None)
            self.shapes.pop(nm, None)
        return out

    def list_append(self, name, value, env, ind, node):
        """`xs.append(E)` / a yielded component: the list grows by the VALUE E has now (a snapshot: later stores into the
        array E was read from do not change the element)"""
        rank = 1 if env[name] == 'arrlist' else 2
        v = self.aval(value, env)
        if not isinstance(v, AV) or v.ndim != rank or v.dtype != 'f':
            self.fail(node, 'append of something else than a %d-D array' % rank)
        nm = self.var(name)
        self.check_store(name, node)
        return '%slet %s : %s := %s ++ [%s]\n' % (ind, nm, self.lean_ty(env[name]), nm,
                                                   v.plain if v.plain else self.lam(v)[1:-1])

    def value_of_kind(self, node, kind, env):
        if kind in ('arr', 'arr2', 'arrlist', 'arr2list', 'arr3', 'arr4'):
            v = self.aval(node, env)
            if kind in ('arrlist', 'arr2list'):
                if not isinstance(v, LV) or v.kind != kind:
                    self.fail(node, 'a list of arrays was declared as the result')
                return v.text
            if not isinstance(v, AV) or v.dtype != 'f' or v.ndim != NDIM[kind] or any(isinstance(d, MaskAx) for d in v.shape):
                self.fail(node, 'an array of kind %s was declared as the result' % kind)
            return v.plain if v.plain else self.lam(v)
        if kind == 'nat':
            return self.nat(node, env)
        if kind == 'optarr2':
            if isinstance(node, ast.Name) and env.get(node.id) == 'optarr2':
                return self.var(node.id)
            self.fail(node, 'an optional array was declared as the result')
        if kind == 'dict':
            if isinstance(node, ast.Name) and env.get(node.id) == 'dict':
                return self.var(node.id)
            self.fail(node, 'a dict was declared as the result')
        if kind == 'str':
            if isinstance(node, ast.Name) and env.get(node.id) == 'str':
                return self.var(node.id)
            self.fail(node, 'a string variable was declared')
        return self.expr(node, env)

    @staticmethod
    def has_break(stmts):
        return any(isinstance(n, ast.Break) for st in stmts for n in ast.walk(st))

    def static_value(self, test):
        """True / False when the test is decided by the spec's `static` assumptions, else None"""
        if ast.unparse(test) in self.static:
            return bool(self.static[ast.unparse(test)])
        if isinstance(test, ast.Name) and test.id in self.assume:
            return bool(self.assume[test.id])
        if isinstance(test, ast.UnaryOp) and isinstance(test.op, ast.Not):
            v = self.static_value(test.operand)
            return None if v is None else not v
        if isinstance(test, ast.BoolOp):
            vs = [self.static_value(v) for v in test.values]
            if isinstance(test.op, ast.And):
                # python evaluates left to right: a False decides it only if everything before it is static
                for v in vs:
                    if v is None:
                        return None
                    if v is False:
                        return False
                return True
            for v in vs:
                if v is None:
                    return None
                if v is True:
                    return True
            return False
        return None

    def if_none(self, s, env, ind):
        """`if x is None: A else: B` on an optional array x (A must assign x an array; in B x is the array)"""
        x = s.test.left.id
        if self.ends_in_return(s.body) or self.has_break([s]):
            self.fail(s, 'unsupported None test')
        names = [n for n in self.assigned([s], env) if n in env]
        if x not in names:
            names = [x] + names
        e1, e2 = dict(env), dict(env)
        e2[x] = 'arr2'
        sh, vw = dict(self.shapes), dict(self.views)
        nctx = len(self.ctx)
        self.ctx.append('%s = none →\n' % self.var(x))
        b1 = self.block(s.body, e1, ind + '      ', None, inline=True)
        del self.ctx[nctx:]
        sh1 = self.shapes.get(x)
        self.shapes, self.views = dict(sh), dict(vw)
        self.ctx.append('∀ (%s : Nat → Nat → α),\n' % self.var(x))
        b2 = self.block(s.orelse, e2, ind + '      ', None, inline=True)
        del self.ctx[nctx:]
        self.shapes, self.views = sh, vw
        if e1.get(x) != 'arr2':
            self.fail(s, 'the None branch must assign the array')
        for n in names:
            if e1.get(n) != e2.get(n):
                self.fail(s, 'variable %s has different kinds in the two branches' % n)
            env[n] = e1[n]
        if sh1:
            self.shapes[x] = sh1
        pack = self.state_pack(names)
        ty = self.state_type(names, env)
        src = '((match %s with\n%s  | none =>\n%s%s      %s\n%s  | some %s =>\n%s%s      %s\n%s  ) : %s)' % (
            self.var(x), ind, b1, ind, pack, ind, self.var(x), b2, ind, pack, ind, ty)
        return self.unpack(names, src, ind)

    def if_new_vars(self, s, names, env, ind):
        e1, e2 = dict(env), dict(env)
        sh, vw = dict(self.shapes), dict(self.views)
        c = self.cond(s.test, env)
        nctx = len(self.ctx)
        self.ctx.append('%s = true →\n' % c)
        b1 = self.block(s.body, e1, ind + '    ', None, inline=True)
        del self.ctx[nctx:]
        self.shapes, self.views = dict(sh), dict(vw)
        self.ctx.append('%s = false →\n' % c)
        b2 = self.block(s.orelse, e2, ind + '    ', None, inline=True)
        del self.ctx[nctx:]
        self.shapes, self.views = sh, vw
        for n in names:
            if n not in e1 or n not in e2:
                self.fail(s, 'variable %s is not assigned in both branches' % n)
            if e1[n] != e2[n]:
                self.fail(s, 'variable %s has different kinds in the two branches' % n)
            env[n] = e1[n]
            self.shapes.pop(n, None)
            self.views.pop(n, None)
        pack = self.state_pack(names)
        ty = self.state_type(names, env)
        src = '((if %s then\n%s%s    %s\n%s  else\n%s%s    %s\n%s  ) : %s)' % (
            c, b1, ind, pack, ind, b2, ind, pack, ind, ty)
        return self.unpack(names, src, ind)

    # ------------------------------------------------------------------ stores
    def np_store(self, s, t, env, ind):
        """a[...] = E / a[...] op= E where the target selects more than one element; None: a plain element store"""
        name = t.value.id
        kind = env[name]
        nd = NDIM[kind]
        idx = t.slice
        idxs = list(idx.elts) if isinstance(idx, ast.Tuple) else [idx]
        idxs = [i for i in idxs if not (isinstance(i, ast.Name) and i.id in self.lift)]
        if any(is_none(i) for i in idxs):
            self.fail(s, 'None in a store target')
        mk = [self.aval(i, env) if not isinstance(i, ast.Slice) and not is_ellipsis(i) else None for i in idxs]
        mk = [m if isinstance(m, AV) and m.dtype == 'b' else None for m in mk]
        if any(m is not None and m.ndim > 1 for m in mk) or (any(m is not None for m in mk) and self.masked_value(s.value, env)):
            return self.np_store_masked(s, t, idxs, mk, env, ind)
        full = len(idxs) == nd and not any(is_ellipsis(i) for i in idxs)
        idxs = self.norm_indices(idxs, nd, s)
        masks = [self.aval(i, env) if not isinstance(i, ast.Slice) else None for i in idxs]
        if full and all(not isinstance(i, ast.Slice) for i in idxs) and all(m is None for m in masks):
            return None                               # every axis fixed by a natural: the existing element store
        self.check_store(name, s)
        nm = self.var(name)
        bs = self.BINDERS[:nd]
        shape = self.shapes.get(name) or [None] * nd
        conds = []
        sel_shape = []                                # shape of the selected block (what the value is broadcast to)
        sel_index = []                                # per selected axis: text of the position inside the block
        old_ix = []
        for ax, (i, b) in enumerate(zip(idxs, bs)):
            ln = shape[ax]
            if isinstance(i, ast.Slice):
                if i.step is not None:
                    self.fail(s, 'store into a strided slice')
                lo = self.slice_bound(i.lower, ln, env, s) if i.lower is not None else None
                hi = self.slice_bound(i.upper, ln, env, s) if i.upper is not None else None
                if hi is not None:
                    self.need_le(hi, ln)
                if lo is not None:
                    conds.append('%s ≤ %s' % (lo, b))
                if hi is not None:
                    conds.append('%s < %s' % (b, hi))
                sel_index.append(b if lo is None else '(%s - %s)' % (b, lo))
                if hi is not None:
                    sel_shape.append(hi if lo is None else '(%s - %s)' % (hi, lo))
                elif ln is None or ln == BC:
                    sel_shape.append(None)
                else:
                    sel_shape.append(ln if lo is None else '(%s - %s)' % (ln, lo))
                old_ix.append(b)
            elif masks[ax] is not None:
                m = masks[ax]
                if not (isinstance(m, AV) and m.dtype == 'b' and m.ndim == 1):
                    self.fail(s, 'unsupported advanced index in a store')
                self.need_equal(m.shape[0], ln, s)
                conds.append('%s = true' % m.elem([b]))
                sel_index.append(None)                # position inside the masked block: not available
                sel_shape.append(None)
                old_ix.append(b)
            else:
                fx = self.index(i, env, ln if ln not in (None, BC) else None)
                conds.append('%s = %s' % (b, fx))
                old_ix.append(fx)
        value = s.value
        v = self.aval(value, env)
        if isinstance(v, LV):
            self.fail(s, 'a list stored into an array')
        if v is None:
            stxt = self.expr(value, env)
            vtxt = lambda ix: stxt
            vshape = []
        else:
            if v.dtype != 'f':
                self.fail(s, 'a mask stored into an array')
            vtxt = v.elem
            vshape = v.shape
        if len(vshape) > len(sel_shape):
            self.fail(s, 'the stored value has more axes than the target')
        # broadcast the value to the selected block (trailing alignment)
        off = len(sel_shape) - len(vshape)
        vix = []
        for a, d in enumerate(vshape):
            if d == BC:
                vix.append('0')
                continue
            if sel_index[off + a] is None:
                self.fail(s, 'an array stored along a masked axis')
            self.need_equal(d, sel_shape[off + a], s)
            vix.append(sel_index[off + a])
        new = vtxt(vix)
        old_sel = '(%s %s)' % (nm, ' '.join(old_ix))
        if isinstance(s, ast.AugAssign):
            ops = {ast.Add: '+', ast.Sub: '-', ast.Mult: '*', ast.Div: '/'}
            if type(s.op) not in ops:
                self.fail(s, 'unsupported augmented assignment')
            new = '(%s %s %s)' % (old_sel, ops[type(s.op)], new)
        old = '%s %s' % (nm, ' '.join(bs))
        if not conds:
            return '%slet %s : %s := fun %s => %s\n' % (ind, nm, self.lean_ty(kind), ' '.join(bs), new)
        return '%slet %s : %s := fun %s => if %s then %s else %s\n' % (
            ind, nm, self.lean_ty(kind), ' '.join(bs), ' ∧ '.join(conds), new, old)

    def masked_value(self, value, env):
        """is the stored value an array with an axis selected by a mask?"""
        try:
            v = self.aval(value, env)
        except Untranslatable:
            return False
        return isinstance(v, AV) and any(isinstance(d, MaskAx) for d in v.shape)

    def np_store_masked(self, s, t, idxs, mk, env, ind):
        """`a[…, M, …] = E` / `op=` with ONE boolean mask M (covering M.ndim axes of a), integers, slices.  The selected block
        has, in numpy's order (the advanced indices — the mask and the integers — where they stand when adjacent, else
        first), one axis for the mask and one per slice; E is broadcast to it.  An axis of E selected by the SAME mask
        expression is paired with the mask axis position by position, i.e. at the same original indices."""
        name = t.value.id
        kind = env[name]
        nd = NDIM[kind]
        if sum(1 for m in mk if m is not None) != 1 or any(is_ellipsis(i) for i in idxs):
            self.fail(s, 'unsupported combination of a mask with other indices in a store')
        self.check_store(name, s)
        nm = self.var(name)
        bs = self.BINDERS[:nd]
        shape = self.shapes.get(name) or [None] * nd
        conds, old_ix = [], []
        entries = []       # per index: ('mask', MaskAx, [binders]) | ('fix',) | ('slice', position text, length)
        ax = 0
        for i, m in zip(idxs, mk):
            if m is not None:
                if ax + m.ndim > nd:
                    self.fail(s, 'too many indices')
                for d in range(m.ndim):
                    self.need_equal(m.shape[d], shape[ax + d], s)
                own = bs[ax:ax + m.ndim]
                conds.append('%s = true' % m.elem(own))
                old_ix.extend(own)
                entries.append(('mask', MaskAx(ast.unparse(i), m), own))
                ax += m.ndim
                continue
            if ax >= nd:
                self.fail(s, 'too many indices')
            b, ln = bs[ax], shape[ax]
            if isinstance(i, ast.Slice):
                if i.step is not None:
                    self.fail(s, 'store into a strided slice')
                lo = self.slice_bound(i.lower, ln, env, s) if i.lower is not None else None
                hi = self.slice_bound(i.upper, ln, env, s) if i.upper is not None else None
                if hi is not None:
                    self.need_le(hi, ln)
                if lo is not None:
                    conds.append('%s ≤ %s' % (lo, b))
                if hi is not None:
                    conds.append('%s < %s' % (b, hi))
                if hi is not None:
                    length = hi if lo is None else '(%s - %s)' % (hi, lo)
                elif ln is None or ln == BC:
                    length = None
                else:
                    length = ln if lo is None else '(%s - %s)' % (ln, lo)
                entries.append(('slice', b if lo is None else '(%s - %s)' % (b, lo), length))
                old_ix.append(b)
            else:
                fx = self.index(i, env, ln if ln not in (None, BC) else None)
                conds.append('%s = %s' % (b, fx))
                old_ix.append(fx)
                entries.append(('fix',))
            ax += 1
        while ax < nd:                                    # trailing axes: full slices
            entries.append(('slice', bs[ax], shape[ax] if shape[ax] != BC else None))
            old_ix.append(bs[ax])
            ax += 1
        adv = [n for n, e in enumerate(entries) if e[0] in ('mask', 'fix')]
        adjacent = adv == list(range(adv[0], adv[-1] + 1))
        if adjacent:
            sel = [e for e in entries if e[0] in ('mask', 'slice')]
        else:
            sel = [e for e in entries if e[0] == 'mask'] + [e for e in entries if e[0] == 'slice']
        v = self.aval(s.value, env)
        if isinstance(v, LV):
            self.fail(s, 'a list stored into an array')
        if v is None:
            new = self.expr(s.value, env)
        else:
            if v.dtype != 'f':
                self.fail(s, 'a mask stored into an array')
            if v.ndim > len(sel):
                self.fail(s, 'the stored value has more axes than the target')
            off = len(sel) - v.ndim
            vix = []
            for a, d in enumerate(v.shape):
                e = sel[off + a]
                if d == BC:
                    vix.append('0')
                elif isinstance(d, MaskAx):
                    if e[0] != 'mask' or not d.same(e[1]):
                        self.fail(s, 'the value is selected by another mask than the target')
                    vix.append(list(e[2]))
                else:
                    if e[0] == 'mask':
                        self.fail(s, 'an array stored along a masked axis')
                    self.need_equal(d, e[2], s)
                    vix.append(e[1])
            new = v.elem(vix)
        if isinstance(s, ast.AugAssign):
            ops = {ast.Add: '+', ast.Sub: '-', ast.Mult: '*', ast.Div: '/'}
            if type(s.op) not in ops:
                self.fail(s, 'unsupported augmented assignment')
            new = '((%s %s) %s %s)' % (nm, ' '.join(old_ix), ops[type(s.op)], new)
        return '%slet %s : %s := fun %s => if %s then %s else %s %s\n' % (
            ind, nm, self.lean_ty(kind), ' '.join(bs), ' ∧ '.join(conds), new, nm, ' '.join(bs))

    # ------------------------------------------------------------------ objects
    def method_call(self, s, c, f, env, ind):
        m = self.methods[f.attr]
        kinds = list(m['kinds'])
        if len(c.args) != len(kinds):
            self.fail(s, 'method call with a different number of positional arguments than declared')
        if m.get('updates_obj'):
            # a method called for its effect on the object itself (`contrib.prepare(…)`): the object after the call is an
            # abstract function of the object before; lists built from the object hold the SAME object (python aliasing)
            if c.keywords or any(k != 'skip' for k in kinds):
                self.fail(s, 'a method that updates its object takes no translated arguments')
            self.add_param(m['lean'], 'ι → ι')
            self.uses_iota = True
            o = self.var(f.value.id)
            out = '%slet %s := (%s %s)\n' % (ind, o, m['lean'], o)
            for lst, elems in self.objlist_elems.items():
                if f.value.id in elems:
                    out += '%slet %s : List ι := [%s]\n' % (ind, lst, ', '.join(self.var(e) for e in elems))
            return out
        args = [self.var(f.value.id)]
        tys = ['ι']
        pairs = list(zip(c.args, kinds))
        kw = dict(m.get('kw', {}))
        for k in c.keywords:
            if k.arg not in kw:
                self.fail(s, 'undeclared keyword argument')
            pairs.append((k.value, kw.pop(k.arg)))
        if kw:
            self.fail(s, 'declared keyword argument(s) %s not passed' % sorted(kw))
        for a, k in pairs:
            if k == 'skip':
                continue
            tys.append(self.lean_ty(k) if k in ('s', 'nat') else '(' + self.lean_ty(k) + ')')
            if k == 'nat':
                args.append(self.nat(a, env))
            elif k in ('arr', 'arr2'):
                args.append(self.arr_arg(a, k, env))
            else:
                args.append(self.expr(a, env))
        mut = m.get('mutates')
        if not mut or env.get(mut) not in ('arr', 'arr2'):
            self.fail(s, 'the method must declare the array it mutates')
        self.check_store(mut, s)
        tys.append('(' + self.lean_ty(env[mut]) + ')')
        self.add_param(m['lean'], ' → '.join(tys))
        self.uses_iota = True
        return '%slet %s := (%s %s)\n' % (ind, self.var(mut), m['lean'], ' '.join(args))

    def obj_loop(self, s, env, ind, values=None):
        """`for c in <declared list of objects>` (element type ι) or `for name, x in <declared list of values>`
        (`values` = (lean name, [kind per tuple element]), one element an array, the others 'skip')"""
        if s.orelse:
            self.fail(s, 'unsupported loop')
        env2 = dict(env)
        if values is None:
            if not isinstance(s.target, ast.Name):
                self.fail(s, 'unsupported loop target')
            lst = self.objlists[ast.unparse(s.iter)]
            self.add_param(lst, 'List ι')
            self.uses_iota = True
            elem_ty = 'ι'
            v = s.target.id
            env2[v] = 'obj'
            self.obj_alias.pop(v, None)
        else:
            lst, kinds = values
            tg = list(s.target.elts) if isinstance(s.target, ast.Tuple) else [s.target]
            if len(tg) != len(kinds) or not all(isinstance(t, ast.Name) for t in tg):
                self.fail(s, 'loop target does not match the declared element')
            real = [(t.id, k) for t, k in zip(tg, kinds) if k != 'skip']
            if len(real) != 1 or real[0][1] not in ('arr', 'arr2'):
                self.fail(s, 'exactly one array component is supported')
            v, k = real[0]
            elem_ty = '(' + self.lean_ty(k) + ')'
            self.add_param(lst, 'List ' + elem_ty)
            env2[v] = k
            self.shapes.pop(v, None)
            self.views.pop(v, None)
            for t, kk in zip(tg, kinds):
                if kk == 'skip':
                    env2.pop(t.id, None)
        names = [n for n in self.assigned(s.body, env) if n in env]
        if not names:
            self.fail(s, 'loop without a carried variable')
        brk = self.has_break(s.body)
        vs = [self.var(n) for n in names]
        st_ty = self.state_type(names, env)
        if brk:
            st_ty = '(' + (st_ty[1:-1] if len(names) > 1 else st_ty) + ' × Bool)'
        in2 = ind + '    '

        def pack(flag):
            # an optional array that has become an array inside the body goes back into the state as `some …`
            cur_vs = ['(some %s)' % self.var(n) if env.get(n) == 'optarr2' and env2.get(n) == 'arr2' else self.var(n)
                      for n in names]
            if brk:
                return '(' + ', '.join(cur_vs + [flag]) + ')'
            return cur_vs[0] if len(cur_vs) == 1 else '(' + ', '.join(cur_vs) + ')'
        head = ''
        allv = vs + (['brk__'] if brk else [])
        if len(allv) == 1:
            stvar = allv[0]
        else:
            stvar = 'st__'
            path = 'st__'
            for i, x in enumerate(allv):
                head += '%slet %s := %s\n' % (in2, x, path + ('.1' if i < len(allv) - 1 else ''))
                path += '.2'
        body = head
        cur = in2
        nctx = len(self.ctx)
        self.ctx.append('∀ (%s : %s), %s\n' % (self.var(v), elem_ty, self.carried_binders(names, env)))
        if brk:
            body += '%sif brk__ then %s else\n' % (cur, pack('brk__'))
        for st in s.body:
            one = isinstance(st, ast.If) and len(st.body) == 1 and not st.orelse
            if one and isinstance(st.body[0], ast.Break):
                body += '%sif %s then %s else\n' % (cur, self.cond(st.test, env2), pack('true'))
                continue
            if one and isinstance(st.body[0], ast.Continue):
                # `if c: continue`: the rest of the body is skipped, the state is kept
                body += '%sif %s then %s else\n' % (cur, self.cond(st.test, env2), pack('brk__'))
                continue
            if self.has_break([st]) or any(isinstance(n, ast.Continue) for n in ast.walk(st)):
                self.fail(st, 'unsupported position of break / continue')
            body += self.block([st], env2, cur, None, inline=True)
        body += '%s%s\n' % (cur, pack('brk__'))
        del self.ctx[nctx:]
        init = ('(' + ', '.join(vs + ['false']) + ')') if brk else self.state_pack(names)
        src = '(%s).foldl (fun (%s : %s) (%s : %s) =>\n%s%s  ) %s' % (lst, stvar, st_ty, self.var(v), elem_ty, body, ind,
                                                                     init)
        if not brk:
            return self.unpack(names, src, ind)
        out = '%slet st__ := %s\n' % (ind, src)
        path = 'st__'
        for x in vs:
            out += '%slet %s := %s.1\n' % (ind, x, path)
            path += '.2'
        return out

    def obj_gen_loop(self, s, env, ind):
        """`for a, b in obj.gen(…)` for a GENERATOR METHOD of a loop object, declared in `obj_generators` (python text of the
        call -> dict(lean, obj, elts)).  The generator is suspended while the loop body runs and resumed for the next
        element; what one pass of the body sees is (the yielded tuple, the state `obj` is in at that `yield`).  The call is
        the abstract function `lean : ι → List (String × ι)` of the object as it is when the generator is created: the list
        of (yielded string, state of the object at that yield) in order (`elts`: one 'str', the others 'skip').  Inside the
        body `obj` IS that state (and the object lists built from it hold it: python aliasing).  Sound when the body does
        not itself change the object (checked: no `updates_obj` method, no nested generator on it); after the loop the
        object is in the state the exhausted generator leaves, which is not modelled: `obj` may not be used again."""
        g = self.obj_generators[ast.unparse(s.iter)]
        obj = g['obj']
        elts = list(g['elts'])
        if s.orelse or self.has_break(s.body) or any(isinstance(n, ast.Continue) for st in s.body for n in ast.walk(st)):
            self.fail(s, 'unsupported loop over a generator')
        if env.get(obj) != 'obj' or not (isinstance(s.iter, ast.Call) and isinstance(s.iter.func, ast.Attribute)
                                         and isinstance(s.iter.func.value, ast.Name) and s.iter.func.value.id == obj):
            self.fail(s, 'the generator is not a method of the declared loop object')
        tg = list(s.target.elts) if isinstance(s.target, ast.Tuple) else [s.target]
        if len(tg) != len(elts) or not all(isinstance(t, ast.Name) for t in tg) \
                or [k for k in elts if k != 'skip'] != ['str']:
            self.fail(s, 'loop target does not match the declared element')
        for st in s.body:
            for n in ast.walk(st):
                if isinstance(n, ast.Call) and isinstance(n.func, ast.Attribute) and isinstance(n.func.value, ast.Name) \
                        and n.func.value.id == obj and (self.methods.get(n.func.attr, {}).get('updates_obj')
                                                        or ast.unparse(n) in self.obj_generators):
                    self.fail(st, 'the loop body changes the object whose generator is suspended')
                if isinstance(n, (ast.Assign, ast.AugAssign)):
                    for t in (n.targets if isinstance(n, ast.Assign) else [n.target]):
                        if (isinstance(t, ast.Name) and t.id == obj) or \
                                (isinstance(t, ast.Attribute) and isinstance(t.value, ast.Name) and t.value.id == obj):
                            self.fail(st, 'the loop body changes the object whose generator is suspended')
        self.add_param(g['lean'], 'ι → List (String × ι)')
        self.uses_iota = True
        env2 = dict(env)
        sname = [t.id for t, k in zip(tg, elts) if k == 'str'][0]
        for t, k in zip(tg, elts):
            if k == 'skip':
                env2.pop(t.id, None)
        env2[sname] = 'str'
        names = [n for n in self.assigned(s.body, env) if n in env]
        if not names:
            self.fail(s, 'loop without a carried variable')
        if obj in names or sname in names:
            self.fail(s, 'the loop body re-binds the loop variables')
        vs = [self.var(n) for n in names]
        st_ty = self.state_type(names, env)
        in2 = ind + '    '
        head = ''
        if len(vs) == 1:
            stvar = vs[0]
        else:
            stvar = 'st__'
            path = 'st__'
            for i, x in enumerate(vs):
                head += '%slet %s := %s\n' % (in2, x, path + ('.1' if i < len(vs) - 1 else ''))
                path += '.2'
        o = self.var(obj)
        body = head + '%slet %s : String := g__.1\n%slet %s : ι := g__.2\n' % (in2, self.var(sname), in2, o)
        for lst, elems in self.objlist_elems.items():
            if obj in elems:
                body += '%slet %s : List ι := [%s]\n' % (in2, lst, ', '.join(self.var(e) for e in elems))
        nctx = len(self.ctx)
        self.ctx.append('∀ (g__ : String × ι), %s\n' % self.carried_binders(names, env))
        body += self.block(list(s.body), env2, in2, None, inline=True)
        body += '%s%s\n' % (in2, self.state_pack(names))
        del self.ctx[nctx:]
        src = '(%s %s).foldl (fun (%s : %s) (g__ : String × ι) =>\n%s%s  ) %s' % (
            g['lean'], o, stvar, st_ty, body, ind, self.state_pack(names))
        env[obj] = 'exhausted-obj'                        # (its state after the generator has finished is not modelled)
        return self.unpack(names, src, ind)

    def enumerate_loop(self, s, env, ind):
        """`for i, x in enumerate(A)` / `for i, tp in enumerate(zip(A, B))` / `for i, (x, y) in enumerate(zip(A, B))` over
        1-D arrays of declared (equal) length: the `range` loop over the index with the element(s) bound first"""
        if s.orelse or not (isinstance(s.target, ast.Tuple) and len(s.target.elts) == 2
                            and isinstance(s.target.elts[0], ast.Name)):
            self.fail(s, 'unsupported enumerate loop')
        idx = s.target.elts[0].id
        what = s.iter.args[0]
        elem = s.target.elts[1]
        if isinstance(what, ast.Call) and ast.unparse(what.func) == 'zip' and not what.keywords and len(what.args) >= 2:
            arrs = list(what.args)
        else:
            arrs = [what]
        lens = []
        for a in arrs:
            v = self.aval(a, env)
            if not (isinstance(v, AV) and v.ndim == 1 and v.dtype == 'f') or v.shape[0] in (None, BC):
                self.fail(s, 'enumerate over something else than 1-D arrays of declared length')
            lens.append(v.shape[0])
        n = lens[0]
        for m in lens[1:]:
            self.need_equal(n, m, s)                     # (zip would stop at the shorter one)
        pre = ''
        if re.fullmatch(r'[A-Za-z_]\w*', n) and lname(n) == n:
            nvar = n
            added = nvar not in env
        else:
            nvar = self.fresh_name('n')
            pre = '%slet %s := %s\n' % (ind, nvar, n)
            added = True
        env3 = dict(env)
        env3[nvar] = 'nat'
        sub = lambda a: ast.Subscript(value=a, slice=ast.Name(id=idx, ctx=ast.Load()), ctx=ast.Load())
        binds = []
        if len(arrs) == 1:
            if not isinstance(elem, ast.Name):
                self.fail(s, 'unsupported enumerate target')
            binds.append(ast.Assign(targets=[ast.Name(id=elem.id, ctx=ast.Store())], value=sub(arrs[0])))
        elif isinstance(elem, ast.Tuple):
            if len(elem.elts) != len(arrs) or not all(isinstance(t, ast.Name) for t in elem.elts):
                self.fail(s, 'unsupported enumerate target')
            for t, a in zip(elem.elts, arrs):
                binds.append(ast.Assign(targets=[ast.Name(id=t.id, ctx=ast.Store())], value=sub(a)))
        elif isinstance(elem, ast.Name):
            env3[elem.id] = ('zip', arrs, idx)
        else:
            self.fail(s, 'unsupported enumerate target')
        loop = ast.For(target=ast.Name(id=idx, ctx=ast.Store()),
                       iter=ast.Call(func=ast.Name(id='range', ctx=ast.Load()),
                                     args=[ast.Name(id=nvar, ctx=ast.Load())], keywords=[]),
                       body=[ast.copy_location(b, s) for b in binds] + list(s.body), orelse=[])
        ast.copy_location(loop, s)
        ast.fix_missing_locations(loop)
        txt = pre + self.loop(loop, env3, ind)
        for k2, v2 in env3.items():                     # kinds of the carried variables may have been refined
            if k2 in env:
                env[k2] = v2
        return txt

    # ------------------------------------------------------------------ generators
    def published_var(self, ys):
        """`publish='self.attr'`: the variable whose array the attribute refers to when the generator is suspended at the yield
        statement `ys`.  Required: a store `self.attr = X` (X a plain variable) earlier in the SAME statement list as the
        yield, and between the two no statement that re-binds X to another object (`X = …`, a loop target, `with … as X`;
        element stores `X[…] = …` and `X op= …` act on the same array, which the attribute shares) nor another store to the
        attribute.  Then attribute and X are the same array object at the yield: its value is X's current value."""
        attr = self.spec['publish']
        for node in ast.walk(self.node):
            for fld in ('body', 'orelse', 'finalbody'):
                blk = getattr(node, fld, None)
                if not isinstance(blk, list) or not any(b is ys for b in blk):
                    continue
                i = [k for k, b in enumerate(blk) if b is ys][0]
                for j in range(i - 1, -1, -1):
                    b = blk[j]
                    if isinstance(b, ast.Assign) and len(b.targets) == 1 and ast.unparse(b.targets[0]) == attr:
                        la = ast.unparse(b.value) if isinstance(b.value, ast.Attribute) else None
                        if la is not None and la in self.local_attrs:
                            # a LOCAL ATTRIBUTE (`self.x = e` earlier in this function: a variable of the translation) is
                            # published: same rule, the attribute must not be stored again before the yield
                            for mid in blk[j + 1:i]:
                                for n in ast.walk(mid):
                                    if isinstance(n, ast.Attribute) and ast.unparse(n) in (attr, la) \
                                            and isinstance(n.ctx, ast.Store):
                                        self.fail(mid, 'the published attribute / its local attribute is stored again before the yield')
                                    if isinstance(n, (ast.Yield, ast.YieldFrom)):
                                        self.fail(mid, 'a yield between the store of the published attribute and the yield')
                            return ast.copy_location(ast.Attribute(value=b.value.value, attr=b.value.attr, ctx=ast.Load()), ys)
                        if not isinstance(b.value, ast.Name):
                            self.fail(b, 'the published attribute is not assigned a plain variable')
                        x = b.value.id
                        for mid in blk[j + 1:i]:
                            for n in ast.walk(mid):
                                if isinstance(n, ast.Name) and n.id == x and isinstance(n.ctx, (ast.Store, ast.Del)) \
                                        and not any(isinstance(a, ast.AugAssign) and a.target is n for a in ast.walk(mid)):
                                    self.fail(mid, 'the published variable is re-bound before the yield')
                                if isinstance(n, ast.Attribute) and ast.unparse(n) == attr and isinstance(n.ctx, ast.Store):
                                    self.fail(mid, 'the published attribute is stored twice before the yield')
                                if isinstance(n, (ast.Yield, ast.YieldFrom)):
                                    self.fail(mid, 'a yield between the store of the published attribute and the yield')
                        return x
                    for n in ast.walk(b):
                        if isinstance(n, ast.Attribute) and ast.unparse(n) == attr and isinstance(n.ctx, ast.Store):
                            self.fail(b, 'the published attribute is stored inside a nested statement before the yield')
                self.fail(ys, 'no store of the published attribute %s before the yield in the same block' % attr)
        self.fail(ys, 'yield statement not found')

    def np_yield(self, s, env, ind, rest, inline):
        y = s.value.value
        if not (isinstance(y, ast.Tuple) and len(y.elts) == 2):
            self.fail(s, 'unsupported yield')
        mode = self.spec.get('yields')
        if mode == 'single':
            if inline or any(not (isinstance(r, ast.Expr) and isinstance(r.value, ast.Constant)) for r in rest):
                self.fail(s, 'the single yield must be the last statement of the function body')
            rk = self.spec.get('returns', 's')
            if self.spec.get('publish'):
                # what the declared ATTRIBUTE holds while the generator is suspended at its single yield
                pv = self.published_var(s)
                pv = pv if isinstance(pv, ast.AST) else ast.copy_location(ast.Name(id=pv, ctx=ast.Load()), s)
                return ind + self.value_of_kind(pv, rk, env) + '\n', True
            return ind + self.value_of_kind(y.elts[1], rk, env) + '\n', True
        if mode == 'list':
            if env.get('yield__') != 'arr2list':
                self.fail(s, 'yield outside the generator body')
            if self.spec.get('publish'):
                # the list of what the declared ATTRIBUTE holds at every yield (what the consumer of the suspended generator
                # reads from the object) instead of the yielded values
                pv = self.published_var(s)
                pv = pv if isinstance(pv, ast.AST) else ast.copy_location(ast.Name(id=pv, ctx=ast.Load()), s)
                return self.list_append('yield__', pv, env, ind, s), False
            return self.list_append('yield__', y.elts[1], env, ind, s), False
        self.fail(s, 'yield in a function that is not declared as a generator')

    # ------------------------------------------------------------------ plugging into Fn
    def lean_ty(self, kind):
        if isinstance(kind, (list, tuple)):
            return ' × '.join('(' + self.lean_ty(k) + ')' for k in kind)
        if kind == 'arrlist':
            return 'List (Nat → α)'
        if kind == 'arr2list':
            return 'List (Nat → Nat → α)'
        if kind == 'barr':
            return 'Nat → Bool'
        if kind == 'optarr2':
            return 'Option (Nat → Nat → α)'
        if kind == 'arr3':
            return '(Nat → Nat → Nat → α)'
        if kind == 'arr4':
            return '(Nat → Nat → Nat → Nat → α)'
        if kind == 'barr2':
            return '(Nat → Nat → Bool)'
        if kind == 'optarr4':
            return 'Option (Nat → Nat → Nat → Nat → α)'
        if kind == 'larrlist':                             # a list of 1-D arrays, each with its length
            return 'List (Nat × (Nat → α))'
        if kind == 'optlarrlist':
            return 'Option (List (Nat × (Nat → α)))'
        if kind == 'str':
            return 'String'
        if kind == 'reclist':                              # a list of tuples (records) of strings and arrays
            (kinds,) = self.rec_lists.values()
            return 'List (%s)' % ' × '.join('(' + self.lean_ty(k) + ')' for k in kinds if k != 'skip')
        if kind == 'dict' and len(self.dicts) == 1 and list(self.dicts.values())[0].get('value_list'):
            return 'List (String × (%s))' % self.lean_ty('reclist')
        if kind == 'dict':                                 # a python dict, in insertion order: keys are strings
            (d,) = self.dicts.values()
            return 'List (String × (%s))' % ' × '.join('(' + self.lean_ty(k) + ')' for k in d['value'] if k != 'skip')
        return super().lean_ty(kind)

    def result_type_ext(self, ret, rty):
        rty = super().result_type_ext(ret, rty)
        rk = self.spec.get('returns', 's')
        # (Fn.translate appends one Nat parameter per `lens` entry that is not a parameter itself, in this order)
        len_params = [(arr, n) for arr, n in self.lens.items() if n not in self.arg_names]
        self.known_extra = dict(getattr(self, 'known_extra', {}) or {}, returns=rk, out=self.out_var, shaped=True,
                                len_params=len_params)
        if self.assume or self.ret_dims:
            a = self.node.args
            pos = [x.arg for x in a.args]
            defaults = {n: ast.unparse(d) for n, d in zip(pos[len(pos) - len(a.defaults):], a.defaults)}
            self.known_extra.update(assume=dict(self.assume), defaults=defaults, ret_dims=self.ret_dims)
        if isinstance(rk, list):
            return ' × '.join('(' + self.lean_ty(k) + ')' for k in rk)
        return rty

    def block(self, stmts, env, ind, tail, inline=False):
        """Fn.block, statement by statement, so that the text of every translated statement is available as the context
        of the shape obligations recorded later in the same scope"""
        if tail is None and not inline and self.out_var:
            # a procedure: falling off the end (of any path) yields the final value of the mutated parameter
            tail = self.var(self.out_var)
        n = len(self.ctx)
        pre = self._branch_ctx.pop(id(stmts), None)
        if pre:
            self.ctx.append(pre)
        if not inline:
            env = dict(env)
        out = ''
        if stmts is self.node.body and self.spec.get('yields') == 'list':
            # a generator: the result is the list of the yielded components, in order
            env['yield__'] = 'arr2list'
            out = '%slet yield__ : List (Nat → Nat → α) := []\n' % ind
            self.ctx.append(out)
            if tail is None:
                tail = 'yield__'
        try:
            for i, s in enumerate(stmts):
                terminal = isinstance(s, (ast.Return, ast.Raise)) \
                    or (isinstance(s, ast.If) and self.ends_in_return(s.body)) \
                    or (isinstance(s, ast.Expr) and isinstance(s.value, ast.Yield) and self.spec.get('yields') == 'single')
                if terminal:
                    if isinstance(s, ast.If):
                        # Fn.block translates the test AFTER the rest of the block: the shapes in force at the test
                        if not hasattr(self, '_late_shapes'):
                            self._late_shapes = {}
                        self._late_shapes[id(s.test)] = (dict(self.shapes), dict(self.views))
                    return out + super().block(stmts[i:], env, ind, tail, inline)
                if isinstance(s, ast.If) and self.static_value(s.test) is None \
                        and not any(isinstance(o, (ast.Is, ast.IsNot)) for n in ast.walk(s.test)
                                    if isinstance(n, ast.Compare) for o in n.ops):
                    try:
                        c = self.cond(s.test, env)
                    except Untranslatable:
                        c = None                          # (reported by the translation of the statement itself)
                    if c is not None:
                        self._branch_ctx[id(s.body)] = '%s = true →\n' % c
                        if s.orelse:
                            self._branch_ctx[id(s.orelse)] = '%s = false →\n' % c
                self._rest = stmts[i + 1:]                # (what follows in this block: liveness of an abstract branch)
                t = super().block([s], env, ind, None, inline=True)
                out += t
                if t:
                    self.ctx.append(t)
            if inline:
                return out
            if tail is None:
                raise Untranslatable('%s: a path does not end in return' % self.spec['func'])
            return out + ind + tail + '\n'
        finally:
            if not inline:
                del self.ctx[n:]

    def carried_binders(self, names, env):
        return ''.join('∀ (%s : %s), ' % (self.var(x), self.lean_ty(env[x])) for x in names)

    def loop(self, s, env, ind):
        n = len(self.ctx)
        if isinstance(s.target, ast.Name) and isinstance(s.iter, ast.Call) and s.target.id not in self.lift \
                and ast.unparse(s.iter.func) in ('range', 'numba.prange', 'prange') and len(s.iter.args) in (1, 2):
            a = s.iter.args
            lo = '0' if len(a) == 1 else self.nat(a[0], env)
            hi = self.nat(a[-1], env)
            v = self.var(s.target.id)
            names = [x for x in self.assigned(s.body, env) if x in env and env[x] not in ('ignored-len',)]
            # inside the loop the carried variables are the loop state: the obligations are stated for any state
            self.ctx.append('∀ %s : Nat, %s ≤ %s → %s < %s → %s\n' % (v, lo, v, v, hi, self.carried_binders(names, env)))
        try:
            return super().loop(s, env, ind)
        finally:
            del self.ctx[n:]

    def translate(self):
        text = super().translate()
        name = self.spec.get('lean', self.spec['func'])
        head = text.partition(' :=\n')[0]
        if self.obligs:
            # the parameters of the companion proposition: those of the function (its result type dropped)
            depth, cut = 0, None
            for i, ch in enumerate(head):
                if ch in '([{':
                    depth += 1
                elif ch in ')]}':
                    depth -= 1
                elif ch == ':' and depth == 0:
                    cut = i
                    break
            params = head[len('def %s ' % name):cut].strip()
            text += ('\n/-- the axis lengths numpy requires to agree in `%s` (no silent length-1 broadcast of a slice) -/\n'
                     'def %s_shapes %s%s : Prop :=\n  %s\n' % (
                         self.spec['func'], name, '{ι : Type} ' if self.uses_iota else '', params,
                         ' ∧\n  '.join('(%s)' % o.replace('\n', '\n  ') for o in self.obligs)))
        if self.uses_iota:
            text = text.replace('def %s ' % name, 'def %s {ι : Type} ' % name, 1)
        self.shape_obligations = list(self.obligs)
        return text
