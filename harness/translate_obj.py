"""Object idioms for harness/translate.py — `FnObj`, the translator class of specs with `dialect='obj'` (the text produced
for every other spec is unchanged; everything not listed here or in translate.py still raises Untranslatable).

  * OPTIONAL VALUES.  A parameter / attribute of kind 'opt' may be None: it is an `Option α` ('optpair': `Option (α × α)`).
    A local assigned `None` is optional from there on.  A parameter of kind 'none' IS None in the translated call shape (it
    does not appear in the Lean signature); every other declared kind is never None.
      - `x is None` / `x is not None` is decided by the kind where the kind decides it (then only the live branch of an `if`
        exists), and is `x.isNone` for an optional value;
      - `if x is None: …` / `if x is not None: … else: …` on an optional `x` is a `match x with | none => … | some x => …`
        (inside the `some` branch `x` is a plain value);
      - a variable that is possibly None after one branch of an `if` is optional after the `if` (`some v` on the other path);
      - a statement that USES the value of a possibly-None variable (arithmetic, argument of a non-optional parameter) is
        `match x with | none => <raise> | some x => <the statement and the rest of the block>`: Python raises a TypeError
        there.  At function level <raise> is the spec's `raise_value` (the total value of the function when it raises;
        `raises='option'`: the result type is `Option T`, a raise is `none`, a return `some v`).  Inside a branch or a loop
        body the enclosing conditional / fold is translated in OPTION FORM: its value is `Option state`, `none` once it has
        raised, and the code after it runs under `| some st =>` (the raise propagates outwards to the function level).
  * `try: <one assignment> except E: <handler>` is `if raised_E then <handler> else <assignment>`: whether the assignment
    raises E is a Bool PARAMETER `raised_E` of the translation (a second `try … except E` in the same function: `raised_E_2`).
    The tie theorem says for which inputs the flag is what.
  * CALLS OF TRANSLATED METHODS.  `calls={'super().__init__': '<callname>'}` names the translated function a call text
    dispatches to (what the MRO / the receiver's class resolves it to; the tie theorem documents it).  Arguments are bound by
    position and keyword; every parameter must be given.  A call statement of a translated STATE method (spec `state=[…]`:
    the attributes it assigns, its result) re-binds those attributes in the caller, which must declare them as state too.
  * FRAGMENTS.  `inner='name'`: the function of that name defined inside the method (a closure handed to a sampler);
    `closure=[…]` variables of the enclosing scope assigned exactly once at its top level (that assignment is executed
    first), `closure_params=[…]` enclosing variables that become parameters.  `loop_body='<text of the iterable>'`: ONE
    ITERATION of that (unique) `for` loop as a function of the loop variables and `free=[…]`; its value is the dict the
    iteration stores — `result='name'` (a dict local filled by `name['key'] = e`) or `result='{}'` (a dict display stored by
    the last statement) — as the tuple of the values in the ORDER OF THE KEYS; the generated `<lean>_keys : List String`
    lists the keys (`dict_skip` leaves keys out).
  * `[f(x) for x in p]` over a declared pair `p` is the pair of the two values; `y = x` for an object / optional / index
    array gives the value another name.
  * LISTS (kind 'list', `List α`; 1-D numpy arrays / Python lists of numbers that the model treats as lists; 'list2' a 2-D
    array as the list of its rows; 'natlist' an index array):
      - element-wise `+ - * /`, unary minus, `**k`, exp/log/log10/sqrt: operations on ONE underlying list are fused into one
        `List.map`, two different lists meet in `List.zipWith` (numpy requires equal lengths — or a length-1 operand, which
        is outside the modelled inputs — so nothing is dropped on inputs numpy accepts), a scalar operand broadcasts;
        `x.ravel()` / `.copy()` / `.tolist()` / `np.asarray(x)` / `np.array(x)` / `tuple(x)` / `list(x)` of a 1-D list: the list;
      - `np.sum(l)` / `l.sum()` / `sum(l)`: the left fold of `+` from 0 in index order (numpy's pairwise order differs by
        rounding only — the same documented reading as in the models); `np.nansum(l)`: the same fold skipping the entries
        on which the declared Bool external `np.isnan` holds; `np.all(np.isnan(l))` / `np.any(…)`: `List.all` / `List.any`;
      - `len(l)` ↦ `l.length`; `l[i]` ↦ `List.getD l i 0`, `l[-1]` ↦ `List.getLastD l 0`, `l[i] = e` ↦ `List.set`,
        `a, b, c = l` ↦ `getD 0/1/2` (Python raises IndexError / ValueError outside: the tie theorem states the guard; an
        index expression with a subtraction is refused); `a[:, j]` on a 'list2' (entry j of every row); `a[idx]` with an
        index array (`List.map (getD a · 0) idx`); `[e(i) for i in range(n)]`; `[c]*n` ↦ `List.replicate`; list displays;
        `l.append(e)`; `l op= e`;
      - declared list-valued externals (`list_externals={'np.argsort': ('argsort', ['list'], 'natlist')}` …) and Bool
        externals of one value (`bool_externals={'np.isnan': 'isnan'}`): function parameters whose documented behaviour the
        tie theorem supplies as instances or hypotheses; `attrs` may also declare an expression TEXT (`modes_array[nmode]`,
        `NEST_stats['modes'][nmode]['mean']`) as a parameter;
      - a tuple result `returns=['s', 'list']` (`return e1, e2`); `a, _, b = <declared tuple-valued external>` with parts of
        kind 'skip'.
  * ABSTRACT OBJECTS.  Kinds 'objlist:T' / 'obj:T' (a type parameter `{T : Type}` of the definition); `methods={'T.m':
    (leanname, arity)}`: `x.m(a)` is the function parameter `leanname x a`; loops `for x in L`, `for i, x in enumerate(L)`,
    `for a, b, c in zip(A, B, C)` over lists (of numbers or objects) are left folds (`List.zipIdx`, `List.zip` — which stops at
    the shortest like Python's `zip`) whose state is the tuple of the variables the body assigns, at the kinds they have on
    entry; `if c: …; continue` at the top level of the body is `if c: … else: <rest of the body>`;
    `a, b, … = obj` names the components of an object; a call `f(v)` of such a component is an EFFECT: with
    `returns='effects'` (`effects_type='T'`) the function's value is the log `[(obj, position of f in the tuple, v), …]`;
    `out='x'`: the value of the function is the final value of its (mutated) parameter `x`.
  * float `a == b` / `a != b`: `a ≤ b ∧ b ≤ a` (IEEE: false for NaN, true for +0 == -0); `x is np.nan` with
    `identity={'np.nan': 'is_np_nan'}`: a Bool parameter of the carrier value (the tie instantiates the carrier with values that
    carry their identity); `np.ndim(x) == 0` for a scalar variable: true (the model is one element)."""
import ast
import re

from harness.translate import Fn, Untranslatable, MATH_FUNCS


class NeedRaise(Exception):
    """a statement inside a branch / loop body can raise: the enclosing construct must be translated in the Option form"""


class FnObj(Fn):

    def __init__(self, spec, tree, src_lines, known_funcs):
        spec = dict(spec)
        params = dict(spec.get('params', {}))
        self.none_params = {n for n, k in params.items() if k == 'none'}
        for n in self.none_params:
            params[n] = 'skip'
        spec['params'] = params
        super().__init__(spec, tree, src_lines, known_funcs)
        if spec.get('inner'):
            self.enter_inner(spec, src_lines)
        if spec.get('loop_body'):
            self.enter_loop_body(spec, src_lines)
        self.records = {}                                 # dict locals: name -> [(key, kind, lean variable)] in store order
        self.ntry = {}
        self.loop_tails = []                              # the value functions of the enclosing object loops' bodies
        self.type_params = []                             # abstract object types (`{Prior : Type}`) in order of first use
        self.methods = dict(spec.get('methods', {}))      # 'Prior.sample' -> (leanname, arity): method of an abstract object
        self.opt_result = spec.get('raises') == 'option'  # the result is `Option T`: `none` when the function raises
        if self.opt_result:
            self.raise_value = 'none'
        # results that are not returned: the effect log (`returns='effects'`), an argument mutated in place (`out='cube'`);
        # they are carried like state attributes and are the value of the function when it falls off its end
        if spec.get('returns') == 'effects':
            self.attrs['eff__'] = ('eff__', 'effects')
            self.state.append('eff__')
        if spec.get('out'):
            self.attrs[spec['out']] = (self.var(spec['out']), self.kinds[spec['out']])
            self.state.append(spec['out'])
        self.list_externals = dict(spec.get('list_externals', {}))
        self.known_extra = dict(state=list(self.state), attrs={a: self.attrs[a] for a in self.state},
                                returns=spec.get('returns', 's'), opt_result=self.opt_result)

    def enter_inner(self, spec, src_lines):
        """spec['inner']: translate the function of that name defined in the body of spec['func'] (a closure handed to a
        sampler).  Variables it reads from the enclosing scope: `closure=[names]` — the enclosing function assigns each of
        them exactly once, at its top level; that assignment is executed first (the closure sees the value at call time,
        which is that value) — and `closure_params=[names]` — they become parameters (kinds in `params`)."""
        outer = self.node
        hits = [n for n in outer.body if isinstance(n, ast.FunctionDef) and n.name == spec['inner']]
        if len(hits) != 1:
            raise Untranslatable('%s: inner function %s not found (or defined more than once)' % (spec['func'], spec['inner']))
        inner = hits[0]
        stores = {}
        for n in ast.walk(outer):
            if isinstance(n, ast.Name) and isinstance(n.ctx, (ast.Store, ast.Del)):
                stores[n.id] = stores.get(n.id, 0) + 1
            if isinstance(n, (ast.Global, ast.Nonlocal)):
                raise Untranslatable('%s: global / nonlocal declaration' % spec['func'])
        pre = []
        for name in spec.get('closure', ()):
            top = [st for st in outer.body if isinstance(st, ast.Assign) and len(st.targets) == 1
                   and isinstance(st.targets[0], ast.Name) and st.targets[0].id == name]
            if len(top) != 1 or stores.get(name) != 1:
                raise Untranslatable('%s: closure variable %s is not assigned exactly once at the top level of the '
                                     'enclosing function' % (spec['func'], name))
            pre.append(top[0])
        for name in spec.get('closure_params', ()):
            if name in [a.arg for a in inner.args.args]:
                raise Untranslatable('%s: closure parameter %s is a parameter of the inner function' % (spec['func'], name))
        args = ast.arguments(posonlyargs=[], args=list(inner.args.args) + [ast.arg(arg=n) for n in
                                                                            spec.get('closure_params', ())],
                             vararg=inner.args.vararg, kwonlyargs=inner.args.kwonlyargs, kw_defaults=inner.args.kw_defaults,
                             kwarg=inner.args.kwarg, defaults=[])
        node = ast.FunctionDef(name=inner.name, args=args, body=pre + list(inner.body), decorator_list=[], returns=None,
                               type_comment=None, type_params=[])
        ast.copy_location(node, inner)
        node.end_lineno = inner.end_lineno
        self.node = node
        self.src = ''.join(''.join(src_lines[st.lineno - 1:st.end_lineno]) for st in pre) \
            + ''.join(src_lines[inner.lineno - 1:inner.end_lineno])
        self.lineno = inner.lineno

    def enter_loop_body(self, spec, src_lines):
        """spec['loop_body'] = text of the iterable of a `for` statement of the function (exactly one such loop): translate
        ONE ITERATION of that loop as a function of the loop variables and of the variables it reads (`free=[names]`, kinds in
        `params`).  The value is the dict local named by spec['result'] (a record: the tuple of the values stored under its
        string keys, in the order of the stores; keys in `dict_skip` are left out)."""
        outer = self.node
        hits = [n for n in ast.walk(outer) if isinstance(n, ast.For) and ast.unparse(n.iter) == spec['loop_body']]
        if len(hits) != 1:
            raise Untranslatable('%s: no unique loop over %s' % (spec['func'], spec['loop_body']))
        loop = hits[0]
        tnames = [n.id for n in ast.walk(loop.target) if isinstance(n, ast.Name)]       # (nested tuple targets: all names)
        args = ast.arguments(posonlyargs=[], args=[ast.arg(arg=n) for n in tnames + list(spec.get('free', ()))],
                             vararg=None, kwonlyargs=[], kw_defaults=[], kwarg=None, defaults=[])
        node = ast.FunctionDef(name=outer.name, args=args, body=list(loop.body), decorator_list=[], returns=None,
                               type_comment=None, type_params=[])
        ast.copy_location(node, loop)
        node.end_lineno = loop.end_lineno
        self.node = node
        self.src = ''.join(src_lines[loop.lineno - 1:loop.end_lineno])
        self.lineno = loop.lineno

    def lean_ty(self, kind):
        if isinstance(kind, (list, tuple)):               # a tuple result
            return ' × '.join(self.lean_ty(k) for k in kind)
        if kind == 'list':
            return 'List α'
        if isinstance(kind, str) and kind.startswith(('objlist:', 'obj:')):
            t = kind.split(':', 1)[1]
            if t not in self.type_params:
                self.type_params.append(t)
            return 'List ' + t if kind.startswith('objlist:') else t
        if kind == 'effects':
            # one entry per call `f(v)` of a callable component `f` of an object: (the object, the component's position in the
            # unpacked tuple, the argument)
            return 'List (%s × Nat × α)' % self.lean_ty('obj:' + self.spec['effects_type'])
        if kind == 'natlist':
            return 'List Nat'
        if kind == 'list2':                               # a 2-D array as the list of its rows
            return 'List (List α)'
        if kind == 'optpair':
            return 'Option (α × α)'
        return super().lean_ty(kind)

    def nat(self, node, env):
        if isinstance(node, ast.Call) and ast.unparse(node.func) == 'len' and len(node.args) == 1 and not node.keywords:
            k = self.ekind(node.args[0], env)
            if k == 'list' or (isinstance(k, str) and k.startswith('objlist:')):
                self.need_attr(self.key_of(node.args[0]), env)
                return '(List.length %s)' % self.var(self.key_of(node.args[0]))
        return super().nat(node, env)

    def result_type_ext(self, ret, rty):
        rty = super().result_type_ext(ret, rty)
        if self.spec.get('result'):
            rty = ' × '.join(self.lean_ty(k) for _, k, _ in self.record_fields(self.spec['result']))
        return 'Option (%s)' % rty if self.opt_result else rty

    def translate(self):
        txt = super().translate()
        if self.spec.get('result'):
            # the keys of the record, in the order of the components of the result
            txt += '\n/-- the dict keys under which the components of `%s` are stored, in order -/\ndef %s_keys : List String := [%s]\n' % (
                self.spec.get('lean', self.spec['func']), self.spec.get('lean', self.spec['func']),
                ', '.join('"%s"' % f[0].replace('\\', '\\\\').replace('"', '\\"') for f in self.record_fields(self.spec['result'])))
        if self.type_params:                              # abstract object types are implicit arguments of the definition
            head, rest = txt.split(' ', 2)[:2], txt.split(' ', 2)[2]
            txt = '%s %s %s %s' % (head[0], head[1], ' '.join('{%s : Type}' % t for t in self.type_params), rest)
        return txt

    # ------------------------------------------------------------------ kinds / None
    def ekind(self, node, env):
        """kind in force of a variable / declared attribute (None: not a variable)"""
        if isinstance(node, ast.Name):
            if node.id in self.none_params:
                return 'none'
            return env.get(node.id)
        if isinstance(node, (ast.Attribute, ast.Subscript, ast.Call)) and ast.unparse(node) in self.attrs:
            # a declared attribute, or a declared expression text such as `modes_array[nmode]` (spec attrs): a parameter
            return env.get(ast.unparse(node), self.attrs[ast.unparse(node)][1])
        return None

    @staticmethod
    def key_of(node):
        return node.id if isinstance(node, ast.Name) else ast.unparse(node)

    def none_test(self, node, env):
        """`x is None` / `x is not None` on a variable or declared attribute -> (key, is_none?, kind in force)"""
        if isinstance(node, ast.Compare) and len(node.ops) == 1 and isinstance(node.ops[0], (ast.Is, ast.IsNot)) \
                and isinstance(node.comparators[0], ast.Constant) and node.comparators[0].value is None:
            k = self.ekind(node.left, env)
            if k is not None:
                return self.key_of(node.left), isinstance(node.ops[0], ast.Is), k
        return None

    def need_attr(self, key, env):
        if key in self.attrs and key not in env:
            self.add_param(self.attrs[key][0], self.lean_ty(self.attrs[key][1]))

    def cond_ext(self, node, env):
        nt = self.none_test(node, env)
        if nt is not None:
            key, isnone, k = nt
            if k in ('opt', 'optpair'):
                self.need_attr(key, env)
                c = '(%s).isNone' % self.var(key)
                return c if isnone else '(!%s)' % c
            return 'true' if (k == 'none') == isnone else 'false'
        if isinstance(node, ast.Compare) and len(node.ops) == 1 and isinstance(node.ops[0], (ast.Is, ast.IsNot)) \
                and ast.unparse(node.comparators[0]) in self.spec.get('identity', {}) \
                and self.ekind(node.left, env) in ('s', 'elem'):
            # `x is np.nan`: identity with one particular object — a Bool parameter of the carrier value (the tie theorem
            # instantiates the carrier with values that carry their identity)
            nm = self.spec['identity'][ast.unparse(node.comparators[0])]
            self.add_param(nm, 'α → Bool')
            c = '(%s %s)' % (nm, self.expr(node.left, env))
            return c if isinstance(node.ops[0], ast.Is) else '(!%s)' % c
        if isinstance(node, ast.Compare) and len(node.ops) == 1 and isinstance(node.ops[0], (ast.Eq, ast.NotEq)) \
                and isinstance(node.left, ast.Call) and ast.unparse(node.left.func) in ('np.ndim', 'numpy.ndim') \
                and len(node.left.args) == 1 and self.ekind(node.left.args[0], env) in ('s', 'elem') \
                and isinstance(node.comparators[0], ast.Constant) and node.comparators[0].value == 0:
            # the model is one element: a scalar has no dimensions
            return 'true' if isinstance(node.ops[0], ast.Eq) else 'false'
        if isinstance(node, ast.Compare) and len(node.ops) == 1 and isinstance(node.ops[0], (ast.Eq, ast.NotEq)) \
                and ast.unparse(node.left) not in self.enums \
                and not (self.is_nat(node.left, env) and self.is_nat(node.comparators[0], env)) \
                and not (isinstance(node.comparators[0], ast.Constant)
                         and (node.comparators[0].value is None or isinstance(node.comparators[0].value, (str, bool)))):
            # IEEE / numpy `a == b` on floats: true exactly when a <= b and b <= a (false for NaN, true for +0 == -0)
            a, b = self.expr(node.left, env), self.expr(node.comparators[0], env)
            c = '(decide (%s ≤ %s) && decide (%s ≤ %s))' % (a, b, b, a)
            return c if isinstance(node.ops[0], ast.Eq) else '(!%s)' % c
        if isinstance(node, ast.Call) and ast.unparse(node.func) in ('np.all', 'numpy.all', 'np.any', 'numpy.any', 'all', 'any') \
                and len(node.args) == 1 and not node.keywords and isinstance(node.args[0], ast.Call) \
                and ast.unparse(node.args[0].func) in self.spec.get('bool_externals', {}) \
                and len(node.args[0].args) == 1 and self.is_list(node.args[0].args[0], env):
            # np.all(np.isnan(L)) / np.any(…): every / some element satisfies the predicate (all of an empty array is True)
            b, e = self.lvec(node.args[0].args[0], env)
            q = 'all' if ast.unparse(node.func).split('.')[-1] == 'all' else 'any'
            return '(List.%s %s (fun x__ => %s %s))' % (q, b, self.bool_external(ast.unparse(node.args[0].func), node), e)
        return super().cond_ext(node, env)

    def opt_reads(self, s, env):
        """optional variables (kind 'opt': possibly None) whose VALUE statement `s` uses, other than in an `is None` test"""
        if not any(k == 'opt' for k in env.values()) and not any(k == 'opt' for _, k in self.attrs.values()):
            return []
        found = []

        def walk(n):
            if isinstance(n, ast.Compare) and len(n.ops) == 1 and isinstance(n.ops[0], (ast.Is, ast.IsNot)):
                return
            if isinstance(n, ast.BoolOp):
                tested = [self.none_test(v, env) for v in n.values]
                tested = {t[0] for t in tested if t is not None}
                before = len(found)
                for v in n.values:
                    walk(v)
                if tested & set(found[before:]):
                    self.fail(n, 'a None test and a use of the same optional value in one short-circuit expression')
                return
            if isinstance(n, (ast.Name, ast.Attribute)) and self.ekind(n, env) is not None:
                if self.ekind(n, env) == 'opt':
                    if self.key_of(n) not in found:
                        found.append(self.key_of(n))
                return
            if isinstance(n, ast.Call) and self.resolve_call(ast.unparse(n.func)) is not None:
                for a, k in self.bind_args(n, self.resolve_call(ast.unparse(n.func))):
                    if k != 'opt':
                        walk(a)
                return
            for c in ast.iter_child_nodes(n):
                walk(c)
        if isinstance(s, ast.Assign):
            if isinstance(s.value, ast.Constant) and s.value.value is None:
                return []
            if isinstance(s.value, (ast.Name, ast.Attribute)) and self.ekind(s.value, env) == 'opt' \
                    and len(s.targets) == 1 and isinstance(s.targets[0], ast.Name) and env.get(s.targets[0].id) is None:
                return []                                 # y = x: the optional value gets another name, it is not used
            walk(s.value)
            for t in s.targets:
                if isinstance(t, ast.Subscript):
                    walk(t.slice)
        elif isinstance(s, ast.AugAssign):
            walk(s.target)
            walk(s.value)
        elif isinstance(s, (ast.Return, ast.Expr)) and s.value is not None:
            walk(s.value)
        elif isinstance(s, ast.If):
            walk(s.test)
        elif isinstance(s, ast.For):
            walk(s.iter)
        return found

    # ------------------------------------------------------------------ calls of translated functions
    def resolve_call(self, text):
        """the translated function a call text refers to: spec['calls'] names it explicitly (what `super().__init__` or a
        method call dispatches to), else the function registered under that call name"""
        calls = self.spec.get('calls', {})
        if text in calls:
            return self.known.get(calls[text])
        return self.known.get(text)

    def bind_args(self, node, tgt):
        """[(argument node, kind)] of a call of a translated function, in the callee's parameter order; keywords are matched
        by name; every parameter must be given (defaults are not modelled)"""
        names, kinds = tgt['arg_names'], tgt['arg_kinds']
        if len(node.args) > len(names):
            self.fail(node, 'call of %s with more arguments than its definition' % ast.unparse(node.func))
        given = dict(zip(names, node.args))
        for kw in node.keywords:
            if kw.arg is None or kw.arg not in names or kw.arg in given:
                self.fail(node, 'keyword argument does not match the definition')
            given[kw.arg] = kw.value
        if set(given) != set(names):
            self.fail(node, 'call of %s that relies on default arguments' % ast.unparse(node.func))
        return [(given[n], k) for n, k in zip(names, kinds)]

    def known_call(self, node, tgt, env):
        """call of a translated function (arguments bound by position / keyword, extra parameters passed through)"""
        args = []
        for (a, k), pn in zip(self.bind_args(node, tgt), tgt['arg_names']):
            if k == 'skip':
                continue
            args.append(self.index(a, env, tgt['index_dims'].get(pn)) if k == 'nat' else self.arg(a, k, env))
        cattrs = tgt.get('attrs', {})
        for nm, ty in tgt['extra_params']:
            # an extra parameter that is an attribute (same Lean name, declared here too) this method has already assigned is
            # the local value; otherwise it is passed through as a parameter of this function as well
            mine = [a for a, (n2, _) in self.attrs.items() if n2 == nm and a in env]
            if mine:
                args.append(nm if not (ty == 'Option α' and env[mine[0]] == 's') else '(some %s)' % nm)
                continue
            self.add_param(nm, ty)
            args.append(nm)
        return '(%s %s)' % (tgt['lean'], ' '.join(args))

    def arg(self, node, kind, env):
        if kind == 'pair':
            if isinstance(node, ast.Name) and env.get(node.id) == 'pair':
                return '%s_0 %s_1' % (self.var(node.id), self.var(node.id))
            self.fail(node, 'pair argument must be a plain pair variable')
        if kind == 'opt':
            if isinstance(node, ast.Constant) and node.value is None:
                return 'none'
            if self.ekind(node, env) == 'none':
                return 'none'
            if self.ekind(node, env) == 'opt':
                self.need_attr(self.key_of(node), env)
                return self.var(self.key_of(node))
            return '(some %s)' % self.expr(node, env)
        if kind == 'list':
            return self.lexpr(node, env)
        return super().arg(node, kind, env)

    def expr_ext(self, node, env):
        if isinstance(node, ast.Subscript) and self.is_list(node.value, env) and not isinstance(node.slice, (ast.Slice, ast.Tuple)):
            # l[i]: Python raises IndexError outside the list; the total reading is 0 there (the tie theorem states the guard);
            # l[-1]: the last element
            self.literals.add(0)
            i = node.slice
            if isinstance(i, ast.UnaryOp) and isinstance(i.op, ast.USub) and isinstance(i.operand, ast.Constant) \
                    and i.operand.value == 1:
                return '(List.getLastD %s (0 : α))' % self.lexpr(node.value, env)
            if self.is_nat(i, env) and not any(isinstance(n, ast.Sub) for n in ast.walk(i)):
                # (no subtraction in the index: a negative Python index counts from the end, Lean's `Nat` subtraction stops at 0)
                return '(List.getD %s %s (0 : α))' % (self.lexpr(node.value, env), self.nat(i, env))
            self.fail(node, 'unsupported list index')
        if isinstance(node, ast.Call) and isinstance(node.func, ast.Attribute) \
                and str(self.ekind(node.func.value, env)).startswith('obj:'):
            # a method of an abstract object: a function parameter taking the object first (the tie theorem supplies it)
            t = self.ekind(node.func.value, env).split(':', 1)[1]
            m = self.methods.get('%s.%s' % (t, node.func.attr))
            if m is None or node.keywords or len(node.args) != m[1]:
                self.fail(node, 'undeclared method of an object (or other arguments than declared)')
            self.add_param(m[0], ' → '.join([t] + ['α'] * (m[1] + 1)))
            return '(%s %s)' % (m[0], ' '.join([self.var(self.key_of(node.func.value))] + [self.expr(a, env) for a in node.args]))
        if isinstance(node, ast.Call):
            full = ast.unparse(node.func)
            if (full in self.spec.get('calls', {}) or node.keywords) and self.resolve_call(full) is not None:
                return self.known_call(node, self.resolve_call(full), env)
            r = self.list_reduce(node, env)
            if r is not None:
                return r
        return super().expr_ext(node, env)

    # ------------------------------------------------------------------ lists
    def is_list(self, node, env):
        if isinstance(node, (ast.Name, ast.Attribute)) or (isinstance(node, (ast.Subscript, ast.Call))
                                                         and ast.unparse(node) in self.attrs):
            return self.ekind(node, env) == 'list'
        if isinstance(node, ast.BinOp) and isinstance(node.op, (ast.Add, ast.Sub, ast.Mult, ast.Div)):
            return self.is_list(node.left, env) or self.is_list(node.right, env)
        if isinstance(node, ast.BinOp) and isinstance(node.op, ast.Pow):
            return self.is_list(node.left, env)
        if isinstance(node, ast.UnaryOp) and isinstance(node.op, (ast.USub, ast.UAdd)):
            return self.is_list(node.operand, env)
        if self.range_comprehension(node) is not None:
            return True
        if self.column_of(node, env) is not None or self.fancy_index(node, env) is not None:
            return True
        if isinstance(node, ast.List) and not any(isinstance(e, ast.Starred) for e in node.elts):
            return True                                   # a list display of scalars
        if isinstance(node, ast.BinOp) and isinstance(node.op, ast.Mult) and isinstance(node.left, ast.List) \
                and len(node.left.elts) == 1 and self.is_nat(node.right, env):
            return True
        if isinstance(node, ast.Call):
            f = ast.unparse(node.func)
            if isinstance(node.func, ast.Attribute) and node.func.attr in ('ravel', 'copy', 'tolist', 'flatten') \
                    and not node.args and not node.keywords:
                return self.is_list(node.func.value, env)
            if f in ('np.asarray', 'np.array', 'numpy.asarray', 'numpy.array', 'tuple', 'list') and len(node.args) == 1 \
                    and not node.keywords:
                return self.is_list(node.args[0], env)
            short = self.call_name(node)[0]
            if short in MATH_FUNCS and len(node.args) == 1 and not node.keywords:
                return self.is_list(node.args[0], env)
            if f in self.list_externals:
                return self.list_externals[f][2] == 'list'
            if self.resolve_call(f) is not None and self.resolve_call(f).get('returns') == 'list':
                return True
        return False

    def lexpr(self, node, env):
        """a list-valued expression (`List α`)"""
        b, e = self.lvec(node, env)
        return b if e == 'x__' else '(List.map (fun x__ => %s) %s)' % (e, b)

    def lvec(self, node, env):
        """a list-valued expression as (base, elem): the list `List.map (fun x__ => elem) base` (elem 'x__': the base itself).
        Element-wise operations on ONE underlying list are fused into one `List.map`; two different lists meet in a
        `List.zipWith` (numpy requires equal lengths there, so nothing is dropped on inputs numpy accepts)."""
        if isinstance(node, (ast.Name, ast.Attribute, ast.Subscript, ast.Call)) and self.ekind(node, env) == 'list':
            self.need_attr(self.key_of(node), env)
            return self.var(self.key_of(node)), 'x__'
        if isinstance(node, ast.UnaryOp) and isinstance(node.op, ast.UAdd):
            return self.lvec(node.operand, env)
        if isinstance(node, ast.List) and not any(isinstance(e, ast.Starred) for e in node.elts):
            return '([' + ', '.join(self.expr(e, env) for e in node.elts) + '] : List α)', 'x__'
        if isinstance(node, ast.BinOp) and isinstance(node.op, ast.Mult) and isinstance(node.left, ast.List) \
                and len(node.left.elts) == 1 and self.is_nat(node.right, env):
            # [c]*n: n copies of c
            return '(List.replicate %s %s)' % (self.nat(node.right, env), self.expr(node.left.elts[0], env)), 'x__'
        col = self.column_of(node, env)
        if col is not None:
            # a[:, j]: entry j of every row
            self.literals.add(0)
            return '(List.map (fun r__ => List.getD r__ %s (0 : α)) %s)' % (self.nat(col[1], env), col[0]), 'x__'
        fi = self.fancy_index(node, env)
        if fi is not None:
            # a[idx] with an index array: the entries of a at the positions idx, in the order of idx
            self.literals.add(0)
            return '(List.map (fun i__ => List.getD %s i__ (0 : α)) %s)' % (self.lexpr(node.value, env), fi), 'x__'
        rc = self.range_comprehension(node)
        if rc is not None:
            # [e(i) for i in range(n)]
            i, n = rc
            if i in env:
                self.fail(node, 'comprehension variable shadows a variable')
            env2 = dict(env)
            env2[i] = 'nat'
            return '(List.map (fun %s => %s) (List.range %s))' % (self.var(i), self.expr(node.elt, env2), self.nat(n, env)), 'x__'
        if isinstance(node, ast.UnaryOp) and isinstance(node.op, ast.USub) and self.is_list(node.operand, env):
            b, e = self.lvec(node.operand, env)
            return b, '(-%s)' % e
        if isinstance(node, ast.BinOp) and isinstance(node.op, ast.Pow) and self.is_list(node.left, env) \
                and isinstance(node.right, ast.Constant) and isinstance(node.right.value, int) \
                and not isinstance(node.right.value, bool) and 2 <= node.right.value <= 6:
            b, e = self.lvec(node.left, env)
            k = node.right.value
            if re.fullmatch(r'\w+', e):
                return b, '(' + ' * '.join([e] * k) + ')'
            return b, '(let b__ := %s; %s)' % (e, ' * '.join(['b__'] * k))
        if isinstance(node, ast.BinOp) and isinstance(node.op, (ast.Add, ast.Sub, ast.Mult, ast.Div)):
            op = {ast.Add: '+', ast.Sub: '-', ast.Mult: '*', ast.Div: '/'}[type(node.op)]
            ll, rl = self.is_list(node.left, env), self.is_list(node.right, env)
            if ll and rl:
                b1, e1 = self.lvec(node.left, env)
                b2, e2 = self.lvec(node.right, env)
                if b1 == b2:
                    return b1, '(%s %s %s)' % (e1, op, e2)
                e2 = re.sub(r'\bx__\b', 'y__', e2)
                return '(List.zipWith (fun x__ y__ => (%s %s %s)) %s %s)' % (e1, op, e2, b1, b2), 'x__'
            if ll:
                b, e = self.lvec(node.left, env)
                return b, '(%s %s %s)' % (e, op, self.expr(node.right, env))
            if rl:
                b, e = self.lvec(node.right, env)
                return b, '(%s %s %s)' % (self.expr(node.left, env), op, e)
        if isinstance(node, ast.Call):
            f = ast.unparse(node.func)
            if isinstance(node.func, ast.Attribute) and node.func.attr in ('ravel', 'copy', 'tolist', 'flatten') \
                    and not node.args and not node.keywords and self.is_list(node.func.value, env):
                return self.lvec(node.func.value, env)    # a 1-D array: the same elements in the same order
            if f in ('np.asarray', 'np.array', 'numpy.asarray', 'numpy.array', 'tuple', 'list') and len(node.args) == 1 \
                    and not node.keywords and self.is_list(node.args[0], env):
                return self.lvec(node.args[0], env)       # the same numbers in the same order
            short = self.call_name(node)[0]
            if short in MATH_FUNCS and len(node.args) == 1 and not node.keywords and self.is_list(node.args[0], env):
                b, e = self.lvec(node.args[0], env)
                return b, '(%s %s)' % (MATH_FUNCS[short], e)
            if f in self.list_externals and self.list_externals[f][2] == 'list':
                return self.list_external(node, env), 'x__'
            if self.resolve_call(f) is not None and self.resolve_call(f).get('returns') == 'list':
                return self.known_call(node, self.resolve_call(f), env), 'x__'
        self.fail(node, 'unsupported list expression')

    def column_of(self, node, env):
        """a[:, j] on a 2-D array (kind 'list2') -> (lean text of a, index node)"""
        if isinstance(node, ast.Subscript) and isinstance(node.slice, ast.Tuple) and len(node.slice.elts) == 2 \
                and isinstance(node.slice.elts[0], ast.Slice) and ast.unparse(node.slice.elts[0]) == ':' \
                and isinstance(node.value, (ast.Name, ast.Attribute, ast.Subscript)) and self.ekind(node.value, env) == 'list2' \
                and self.is_nat(node.slice.elts[1], env):
            self.need_attr(self.key_of(node.value), env)
            return self.var(self.key_of(node.value)), node.slice.elts[1]
        return None

    def fancy_index(self, node, env):
        """a[idx], idx an index array (kind 'natlist') -> lean text of idx"""
        if isinstance(node, ast.Subscript) and isinstance(node.slice, ast.Name) and env.get(node.slice.id) == 'natlist' \
                and self.is_list(node.value, env):
            return self.var(node.slice.id)
        return None

    def record_fields(self, name):
        """the fields of a record in the order of their keys (so that the position of a value says under which key it is stored)"""
        return sorted((f for f in self.records.get(name, []) if f[0] not in self.spec.get('dict_skip', ())),
                      key=lambda f: f[0])

    @staticmethod
    def range_comprehension(node):
        """[e for i in range(n)] -> (i, n)"""
        if isinstance(node, ast.ListComp) and len(node.generators) == 1:
            g = node.generators[0]
            if not g.ifs and not g.is_async and isinstance(g.target, ast.Name) and isinstance(g.iter, ast.Call) \
                    and ast.unparse(g.iter.func) == 'range' and len(g.iter.args) == 1 and not g.iter.keywords:
                return g.target.id, g.iter.args[0]
        return None

    def list_external(self, node, env):
        ent = self.list_externals[ast.unparse(node.func)]
        nm, kinds, ret = ent[:3]
        kwnames = ent[3] if len(ent) > 3 else ()          # keyword arguments, in the order of the trailing `kinds`
        fixed = ent[4] if len(ent) > 4 else {}            # keywords that must have exactly this text (not passed on)
        kws = {k.arg: k.value for k in node.keywords}
        for k, v in fixed.items():
            if k not in kws or ast.unparse(kws.pop(k)) != v:
                self.fail(node, 'external called without the declared keyword %s=%s' % (k, v))
        if None in kws or set(kws) != set(kwnames) or len(node.args) + len(kwnames) != len(kinds):
            self.fail(node, 'list external called with other arguments than declared')
        args = list(node.args) + [kws[k] for k in kwnames]
        self.add_param(nm, ' → '.join([self.lean_ty(k) for k in kinds if k != 'skip'] + [self.lean_ty(ret)]))
        return '(%s %s)' % (nm, ' '.join(self.arg(a, k, env) for a, k in zip(args, kinds) if k != 'skip'))

    def list_reduce(self, node, env):
        """scalar-valued functions of a list"""
        f = ast.unparse(node.func)
        if f in self.list_externals and self.list_externals[f][2] == 's':
            return self.list_external(node, env)
        arg = None
        if f in ('np.sum', 'numpy.sum', 'sum') and len(node.args) == 1 and not node.keywords:
            arg = node.args[0]
        elif isinstance(node.func, ast.Attribute) and node.func.attr == 'sum' and not node.args and not node.keywords:
            arg = node.func.value
        if arg is not None and self.is_list(arg, env):
            self.literals.add(0)
            return '(List.foldl (fun acc__ x__ => (acc__ + x__)) (0 : α) %s)' % self.lexpr(arg, env)
        if f in ('np.nansum', 'numpy.nansum') and len(node.args) == 1 and not node.keywords \
                and self.is_list(node.args[0], env):
            # NaN entries count as zero: they are skipped by the running sum
            self.literals.add(0)
            return '(List.foldl (fun acc__ x__ => if %s x__ then acc__ else (acc__ + x__)) (0 : α) %s)' % (
                self.bool_external('np.isnan', node), self.lexpr(node.args[0], env))
        return None

    def bool_external(self, text, node):
        """a declared Bool-valued function of one carrier value (`bool_externals={'np.isnan': 'isnan'}`): a parameter"""
        be = self.spec.get('bool_externals', {})
        if text not in be:
            self.fail(node, 'needs the Bool external %s' % text)
        self.add_param(be[text], 'α → Bool')
        return be[text]

    # ------------------------------------------------------------------ statements
    def state_tail(self, env):
        vs = []
        for a in self.state:
            if a == 'eff__' and a not in env:
                vs.append('([] : %s)' % self.lean_ty('effects'))     # no effect happened
                continue
            if a not in env:
                self.add_param(self.attrs[a][0], self.lean_ty(self.attrs[a][1]))
            vs.append(self.attrs[a][0] if not (self.attrs[a][1] == 'opt' and env.get(a) == 's')
                      else '(some %s)' % self.attrs[a][0])
        t = vs[0] if len(vs) == 1 else '(' + ', '.join(vs) + ')'
        return '(some %s)' % t if self.opt_result else t

    def assigned_ext(self, s, env, add):
        super().assigned_ext(s, env, add)
        if isinstance(s, ast.Expr) and isinstance(s.value, ast.Call):
            f = s.value.func
            if isinstance(f, ast.Attribute) and f.attr == 'append' and isinstance(f.value, ast.Name):
                add(f.value.id)
            if isinstance(f, ast.Name) and isinstance(env.get(f.id), tuple) and env[f.id][0] == 'part':
                add('eff__')

    def obj_loop(self, s, env, ind, rest=None, tail=None, rv=None):
        """for x in L / for i, x in enumerate(L) / for a, b, c in zip(A, B, C) over lists (of numbers or abstract objects):
        a left fold over the list (zip: over `List.zip`, which stops at the shortest like Python's zip; enumerate: over
        `List.zipIdx`); the state is the tuple of the variables the body assigns"""
        it = s.iter
        if s.orelse:
            return None

        def seq(n):
            k = self.ekind(n, env)
            if k == 'list' or (isinstance(k, str) and k.startswith('objlist:')):
                self.need_attr(self.key_of(n), env)
                return self.var(self.key_of(n)), ('s' if k == 'list' else 'obj:' + k.split(':', 1)[1])
            return None
        binds = []                                        # (python name, kind, projection of it__)
        if isinstance(it, ast.Call) and ast.unparse(it.func) == 'enumerate' and len(it.args) == 1 and not it.keywords \
                and isinstance(s.target, ast.Tuple) and len(s.target.elts) == 2 \
                and all(isinstance(e, ast.Name) for e in s.target.elts) and seq(it.args[0]) is not None:
            src, k = seq(it.args[0])
            ity = '%s × Nat' % self.lean_ty(k)
            binds = [(s.target.elts[0].id, 'nat', 'it__.2'), (s.target.elts[1].id, k, 'it__.1')]
            src = '(List.zipIdx %s)' % src
        elif isinstance(it, ast.Call) and ast.unparse(it.func) == 'zip' and len(it.args) >= 2 and not it.keywords \
                and isinstance(s.target, ast.Tuple) and len(s.target.elts) == len(it.args) \
                and all(isinstance(e, ast.Name) for e in s.target.elts) and all(seq(a) is not None for a in it.args):
            parts = [seq(a) for a in it.args]
            src = parts[-1][0]
            for p in reversed(parts[:-1]):
                src = '(List.zip %s %s)' % (p[0], src)
            ity = ' × '.join(self.lean_ty(p[1]) for p in parts)
            path = 'it__'
            for i, (e, p) in enumerate(zip(s.target.elts, parts)):
                binds.append((e.id, p[1], path + '.1' if i < len(parts) - 1 else path))
                path += '.2'
        elif isinstance(s.target, ast.Name) and seq(it) is not None:
            src, k = seq(it)
            ity = self.lean_ty(k)
            binds = [(s.target.id, k, 'it__')]
        else:
            return None
        names = [n for n in self.assigned(s.body, env) if n in env or n == 'eff__']
        parts = set()                                     # components unpacked from the loop's objects
        for st in s.body:
            if isinstance(st, ast.Assign) and len(st.targets) == 1 and isinstance(st.targets[0], ast.Tuple) \
                    and isinstance(st.value, ast.Name) and st.value.id in [b[0] for b in binds if b[1].startswith('obj:')]:
                parts |= {e.id for e in st.targets[0].elts if isinstance(e, ast.Name)}
            if isinstance(st, ast.Expr) and isinstance(st.value, ast.Call) and isinstance(st.value.func, ast.Name) \
                    and st.value.func.id in parts and 'eff__' not in names:
                names.append('eff__')
        if not names:
            self.fail(s, 'loop without a carried variable')
        pre = ''
        if 'eff__' in names and 'eff__' not in env:
            pre = '%slet eff__ : %s := []\n' % (ind, self.lean_ty('effects'))
            env['eff__'] = 'effects'
        env2 = dict(env)
        body = ''
        for n, k, proj in binds:
            if n in env:
                self.fail(s, 'loop variable shadows a variable')
            env2[n] = k
            body += '%s    let %s := %s\n' % (ind, self.var(n), proj)
        entry = {n: env[n] for n in names}                # the kinds of the carried variables are those at loop entry

        def pack_of(fe):
            vs = []
            for n in names:
                if fe[n] == entry[n]:
                    vs.append(self.var(n))
                elif entry[n] == 'opt' and fe[n] == 's':
                    vs.append('(some %s)' % self.var(n))
                else:
                    self.fail(s, 'variable %s changes its kind in the loop body' % n)
            return vs[0] if len(vs) == 1 else '(' + ', '.join(vs) + ')'
        raising = rest is not None
        def tailf(fe):
            return '(some %s)' % pack_of(fe) if raising else pack_of(fe)
        tailf.raising = raising
        pack = self.state_pack(names)
        stvar = 'st__' if len(names) > 1 else self.var(names[0])
        bind_ind = ind + ('        ' if raising else '    ')
        unp = self.unpack(names, 'st__', bind_ind) if len(names) > 1 else ''
        body = body.replace(ind + '    let ', bind_ind + 'let ')
        self.loop_tails.append(tailf)
        try:
            inner = self.block(s.body, env2, bind_ind, tailf)
        finally:
            self.loop_tails.pop()
        if not raising:
            txt = '(List.foldl (fun (%s : %s) (it__ : %s) =>\n%s%s%s%s  ) %s %s)' % (
                stvar, self.state_type(names, env), ity, unp, body, inner, ind, pack, src)
            return pre + self.unpack(names, txt, ind)
        # the body can raise: the fold runs over `Option state` (`none` once an iteration has raised), and a raise ends the
        # function with its raise value
        sty = self.state_type(names, env)
        txt = '%smatch (List.foldl (fun (st?__ : Option %s) (it__ : %s) =>\n%s    match st?__ with\n%s    | none => none\n' \
              '%s    | some %s =>\n%s%s%s%s  ) (some %s) %s) with\n' % (
                  ind, sty if sty.startswith('(') else '(' + sty + ')', ity, ind, ind, ind, stvar, unp,
                  body, inner, ind, pack, src)
        txt += '%s| none => %s\n%s| some %s =>\n' % (ind, rv, ind, stvar)
        txt += self.unpack(names, 'st__', ind + '  ') if len(names) > 1 else ''
        return pre + txt + self.block(rest, env, ind + '  ', tail)

    def state_store(self, s, t, env, ind):
        key = ast.unparse(t)
        nm, k = self.attrs[key]
        if k == 'opt' and isinstance(s, ast.Assign):
            if isinstance(s.value, ast.Constant) and s.value.value is None:
                env[key] = 'opt'
                return '%slet %s : Option α := none\n' % (ind, nm)
            env[key] = 's'                                # an optional attribute now holds a value
            return '%slet %s := %s\n' % (ind, nm, self.expr(s.value, env))
        if k == 'opt':                                    # augmented assignment: the old value is known not to be None here
            ops = {ast.Add: '+', ast.Sub: '-', ast.Mult: '*', ast.Div: '/'}
            if type(s.op) not in ops:
                self.fail(s, 'unsupported augmented assignment')
            e = '(%s %s %s)' % (self.expr(t, env), ops[type(s.op)], self.expr(s.value, env))
            env[key] = 's'
            return '%slet %s := %s\n' % (ind, nm, e)
        return super().state_store(s, t, env, ind)

    def try_as_if(self, s, env):
        """`try: <one assignment> except E: <handler>` is `if <E was raised by the assignment>: <handler> else: <assignment>`;
        whether the exception is raised is a Bool parameter `raised_E` of the translation"""
        if len(s.handlers) != 1 or s.orelse or s.finalbody or s.handlers[0].name is not None \
                or not isinstance(s.handlers[0].type, (ast.Name, ast.Attribute)) or len(s.body) != 1 \
                or not isinstance(s.body[0], (ast.Assign, ast.AugAssign)):
            self.fail(s, 'unsupported try statement')
        e = ast.unparse(s.handlers[0].type).split('.')[-1]
        self.ntry[e] = self.ntry.get(e, 0) + 1
        nm = 'raised_' + e + ('' if self.ntry[e] == 1 else '_%d' % self.ntry[e])
        self.add_param(nm, 'Bool')
        env[nm] = 'bool'
        return ast.copy_location(ast.If(test=ast.Name(id=nm, ctx=ast.Load()), body=s.handlers[0].body, orelse=s.body), s)

    def rv_for(self, s, tail):
        """the value a block takes when statement `s` in it raises.  At function level (`tail` None) the declared
        `raise_value`; in a block whose value is an Option (its value function is marked `raising`) `none`; in any other
        block the enclosing construct has to be redone in Option form (NeedRaise)"""
        if tail is None:
            if self.raise_value is None:
                self.fail(s, 'use of a possibly-None value (no total value declared for the TypeError)')
            for n in re.findall(r'\((\d+) : α\)', self.raise_value):
                self.literals.add(int(n))
            return self.raise_value
        if getattr(tail, 'raising', False):
            return 'none'
        raise NeedRaise()

    def stmt_ext(self, s, env, ind, rest, tail, inline):
        if isinstance(s, ast.Raise) and tail is not None and not inline:
            return ind + self.rv_for(s, tail) + '\n', True
        at_loop_level = bool(self.loop_tails) and tail is self.loop_tails[-1] and not inline
        if isinstance(s, ast.Continue) and at_loop_level:
            return ind + tail(env) + '\n', True            # next iteration: the state as it is
        if isinstance(s, ast.If) and s.body and isinstance(s.body[-1], ast.Continue) and at_loop_level:
            # if c: …; continue   <rest>    ==>   if c: … else: <rest>      (the loop body ends either way)
            s2 = ast.copy_location(ast.If(test=s.test, body=s.body[:-1] or [ast.Pass()], orelse=list(s.orelse) + rest), s)
            return self.block([s2], env, ind, tail), True
        if isinstance(s, ast.Try):
            # try: x = e / except E: h   ==>   if raised_E: h else: x = e
            return self.block([self.try_as_if(s, env)] + rest, env, ind, tail, inline=inline), True
        if not isinstance(s, ast.Raise):
            r = self.opt_reads(s, env)
            if r:
                # the value of a possibly-None variable is used: None raises TypeError, otherwise go on with the value
                if inline:
                    self.fail(s, 'use of a possibly-None value inside a lifted loop')
                rv = self.rv_for(s, tail)                 # (inside a plain branch / loop body: NeedRaise)
                key = r[0]
                self.need_attr(key, env)
                env2 = dict(env)
                env2[key] = 's'
                inner = self.block([s] + rest, env2, ind + '  ', tail)
                return '%smatch %s with\n%s| none => %s\n%s| some %s =>\n%s' % (
                    ind, self.var(key), ind, rv, ind, self.var(key), inner), True
        if isinstance(s, ast.If) and self.none_test(s.test, env) is not None \
                and self.none_test(s.test, env)[2] not in ('opt', 'optpair'):
            # a None test decided by the declared kind: only the live branch exists
            live = s.body if self.cond(s.test, env) == 'true' else s.orelse
            return self.block(list(live) + rest, env, ind, tail, inline=inline), True
        if isinstance(s, ast.If) and not self.ends_in_return(s.body):
            try:
                txt = self.opt_if(s, env, ind)
                if txt is not None:
                    return txt, False
            except NeedRaise:
                if inline:
                    self.fail(s, 'a branch can raise inside a lifted loop')
                rv = self.rv_for(s, tail)                 # (NeedRaise again: an enclosing construct goes to Option form)
                return self.opt_if(s, env, ind, rest=rest, tail=tail, rv=rv), True
        if isinstance(s, ast.Expr) and isinstance(s.value, ast.Call) \
                and self.resolve_call(ast.unparse(s.value.func)) is not None \
                and self.resolve_call(ast.unparse(s.value.func)).get('state'):
            # a call, for its effect, of a translated method that assigns attributes: its result is their new values
            tgt = self.resolve_call(ast.unparse(s.value.func))
            for a in tgt['state']:
                if a not in self.state or self.attrs.get(a) != tuple(tgt['attrs'][a]):
                    self.fail(s, 'the called method assigns %s, which is not declared as state here' % a)
            txt = self.unpack(tgt['state'], self.known_call(s.value, tgt, env), ind)
            for a in tgt['state']:
                env[a] = self.attrs[a][1]
            return txt, False
        if isinstance(s, ast.For):
            try:
                txt = self.obj_loop(s, env, ind)
                if txt is not None:
                    return txt, False
            except NeedRaise:
                if inline:
                    self.fail(s, 'a loop body can raise inside a lifted loop')
                rv = self.rv_for(s, tail)
                return self.obj_loop(s, env, ind, rest=rest, tail=tail, rv=rv), True
        if isinstance(s, ast.Assign) and len(s.targets) == 1 and isinstance(s.targets[0], ast.Tuple) \
                and isinstance(s.value, ast.Name) and str(env.get(s.value.id)).startswith('obj:') \
                and all(isinstance(e, ast.Name) for e in s.targets[0].elts):
            # a, b, c = obj: the names are the components of the (abstract) object; no value is computed
            for i, e in enumerate(s.targets[0].elts):
                env[e.id] = ('part', s.value.id, i)
            return '', False
        if isinstance(s, ast.Expr) and isinstance(s.value, ast.Call) and isinstance(s.value.func, ast.Name) \
                and isinstance(env.get(s.value.func.id), tuple) and env[s.value.func.id][0] == 'part':
            # f(v) for a callable component f of an object: an effect, appended to the effect log
            if self.spec.get('returns') != 'effects' or len(s.value.args) != 1 or s.value.keywords:
                self.fail(s, 'call of an object component (the function is not declared to return its effects)')
            _, obj, i = env[s.value.func.id]
            pre = ''
            if 'eff__' not in env:
                pre = '%slet eff__ : %s := []\n' % (ind, self.lean_ty('effects'))
            env['eff__'] = 'effects'
            return pre + '%slet eff__ := eff__ ++ [(%s, %d, %s)]\n' % (ind, self.var(obj), i,
                                                                       self.expr(s.value.args[0], env)), False
        if isinstance(s, ast.Expr) and isinstance(s.value, ast.Call) and isinstance(s.value.func, ast.Attribute) \
                and s.value.func.attr == 'append' and isinstance(s.value.func.value, ast.Name) \
                and env.get(s.value.func.value.id) == 'list' and len(s.value.args) == 1 and not s.value.keywords:
            v = self.var(s.value.func.value.id)
            return '%slet %s := %s ++ [%s]\n' % (ind, v, v, self.expr(s.value.args[0], env)), False
        if isinstance(s, ast.Assign) and len(s.targets) == 1 and isinstance(s.targets[0], ast.Subscript) \
                and isinstance(s.targets[0].value, ast.Name) and env.get(s.targets[0].value.id) == 'list' \
                and self.is_nat(s.targets[0].slice, env) \
                and not any(isinstance(n, ast.Sub) for n in ast.walk(s.targets[0].slice)):
            # l[i] = e (IndexError outside the list in Python; `List.set` leaves the list alone there — the tie states the guard)
            v = self.var(s.targets[0].value.id)
            e = self.expr(s.value, env)
            return '%slet %s := List.set %s %s %s\n' % (ind, v, v, self.nat(s.targets[0].slice, env), e), False
        if isinstance(s, ast.Return) and self.opt_result and not inline:
            k = self.spec.get('returns', 's')
            if s.value is None:
                return ind + self.state_tail(env) + '\n', True
            if isinstance(k, (list, tuple)):
                if not (isinstance(s.value, ast.Tuple) and len(s.value.elts) == len(k)):
                    self.fail(s, 'a tuple of %d values was declared as the result' % len(k))
                return ind + '(some (%s))\n' % ', '.join(self.arg(e, kk, env) for e, kk in zip(s.value.elts, k)), True
            return ind + '(some %s)\n' % self.arg(s.value, k, env), True
        if isinstance(s, ast.Assign) and len(s.targets) == 1 and isinstance(s.targets[0], ast.Tuple) \
                and ast.unparse(s.value) in self.tuples and any(k == 'skip' for _, k in self.tuples[ast.unparse(s.value)]):
            # a, _, b = <declared tuple-valued external>: the parts are parameters; parts declared 'skip' are never read
            parts = self.tuples[ast.unparse(s.value)]
            tg = s.targets[0].elts
            if len(parts) != len(tg) or not all(isinstance(t, ast.Name) for t in tg):
                self.fail(s, 'tuple unpacking does not match the declaration')
            txt = ''
            for t, (nm, k) in zip(tg, parts):
                if k == 'skip':
                    env.pop(t.id, None)
                    continue
                self.add_param(nm, self.lean_ty(k))
                txt += '%slet %s := %s\n' % (ind, self.var(t.id), nm)
                env[t.id] = k
            return txt, False
        if isinstance(s, ast.Assign) and len(s.targets) == 1 and isinstance(s.targets[0], ast.Name) \
                and isinstance(s.value, (ast.Name, ast.Attribute)) and env.get(s.targets[0].id) is None \
                and (str(self.ekind(s.value, env)).startswith(('obj:', 'objlist:'))
                     or self.ekind(s.value, env) in ('natlist', 'list2', 'opt')):
            # y = x for an object / index array / 2-D array / optional value: another name for the same value
            k = self.ekind(s.value, env)
            self.need_attr(self.key_of(s.value), env)
            env[s.targets[0].id] = k
            return '%slet %s := %s\n' % (ind, self.var(s.targets[0].id), self.var(self.key_of(s.value))), False
        if isinstance(s, ast.Assign) and len(s.targets) == 1 and isinstance(s.targets[0], ast.Name):
            t = s.targets[0]
            if isinstance(s.value, ast.Constant) and s.value.value is None:
                if env.get(t.id) not in (None, 'opt'):
                    self.fail(s, 'None assigned to a variable that is not optional')
                env[t.id] = 'opt'
                return '%slet %s : Option α := none\n' % (ind, self.var(t.id)), False
            if env.get(t.id) == 'opt':                    # an optional local now holds a value
                e = self.expr(s.value, env)
                env[t.id] = 's'
                return '%slet %s := %s\n' % (ind, self.var(t.id), e), False
            if isinstance(s.value, ast.ListComp) and env.get(t.id) in (None, 'pair'):
                txt = self.pair_comprehension(t.id, s.value, env, ind)
                if txt is not None:
                    return txt, False
            if self.is_list(s.value, env) and env.get(t.id) in (None, 'list'):
                e = self.lexpr(s.value, env)
                env[t.id] = 'list'
                return '%slet %s := %s\n' % (ind, self.var(t.id), e), False
            if isinstance(s.value, ast.Call) and ast.unparse(s.value.func) in self.list_externals \
                    and self.list_externals[ast.unparse(s.value.func)][2] == 'natlist' and env.get(t.id) in (None, 'natlist'):
                e = self.list_external(s.value, env)
                env[t.id] = 'natlist'
                return '%slet %s := %s\n' % (ind, self.var(t.id), e), False
            if isinstance(s.value, ast.Dict) and not s.value.keys and env.get(t.id) is None:
                env[t.id] = 'rec'                         # a dict local with string keys: a record, one Lean variable per key
                self.records[t.id] = []
                return '', False
            if isinstance(s.value, ast.Dict) and s.value.keys and env.get(t.id) is None and tail is None and not inline \
                    and all(isinstance(k, ast.Constant) and isinstance(k.value, str) for k in s.value.keys):
                env[t.id] = 'rec'                         # a dict display: the record of its values
                self.records[t.id] = []
                txt = ''
                for k, v in zip(s.value.keys, s.value.values):
                    if k.value in self.spec.get('dict_skip', ()):
                        continue
                    nm = '%s_%s' % (self.var(t.id), re.sub(r'\W', '_', k.value))
                    kd = 'list' if self.is_list(v, env) else ('nat' if self.is_nat(v, env) else 's')
                    self.records[t.id].append((k.value, kd, nm))
                    txt += '%slet %s := %s\n' % (ind, nm, self.arg(v, kd, env) if kd != 'nat' else self.nat(v, env))
                return txt, False
        if isinstance(s, ast.Assign) and len(s.targets) == 1 and isinstance(s.targets[0], ast.Subscript) \
                and isinstance(s.targets[0].value, ast.Name) and env.get(s.targets[0].value.id) == 'rec' \
                and isinstance(s.targets[0].slice, ast.Constant) and isinstance(s.targets[0].slice.value, str):
            # rec['key'] = e
            rec, key = s.targets[0].value.id, s.targets[0].slice.value
            if key in self.spec.get('dict_skip', ()):
                return '', False
            if any(f[0] == key for f in self.records[rec]):
                self.fail(s, 'a record key stored twice')
            if tail is not None or inline:
                self.fail(s, 'record store inside a branch or loop')
            nm = '%s_%s' % (self.var(rec), re.sub(r'\W', '_', key))
            k = 'list' if self.is_list(s.value, env) else ('nat' if self.is_nat(s.value, env) else 's')
            self.records[rec].append((key, k, nm))
            return '%slet %s := %s\n' % (ind, nm, self.arg(s.value, k, env) if k != 'nat' else self.nat(s.value, env)), False
        if isinstance(s, ast.Assign) and len(s.targets) == 1 and isinstance(s.targets[0], ast.Subscript) \
                and isinstance(s.value, ast.Name) and s.value.id == self.spec.get('result') \
                and env.get(s.value.id) == 'rec' and not rest and tail is None and not inline:
            # the last statement of the iteration stores the record (under the loop's key): it is the value of the iteration
            fs = self.record_fields(s.value.id)
            if not fs:
                self.fail(s, 'empty record')
            return ind + ('(' + ', '.join(f[2] for f in fs) + ')' if len(fs) > 1 else fs[0][2]) + '\n', True
        if isinstance(s, ast.Assign) and len(s.targets) == 1 and isinstance(s.targets[0], ast.Subscript) \
                and isinstance(s.value, ast.Dict) and self.spec.get('result') == '{}' and not rest and tail is None \
                and not inline and all(isinstance(k, ast.Constant) and isinstance(k.value, str) for k in s.value.keys):
            # the last statement of the iteration stores a dict display (under the loop's key): the record of its values, in
            # display order, is the value of the iteration
            fs = []
            for k, v in zip(s.value.keys, s.value.values):
                if k.value in self.spec.get('dict_skip', ()):
                    continue
                kd = 'list' if self.is_list(v, env) else ('nat' if self.is_nat(v, env) else 's')
                fs.append((k.value, kd, self.arg(v, kd, env) if kd != 'nat' else self.nat(v, env)))
            self.records['{}'] = fs
            fs = self.record_fields('{}')
            return ind + ('(' + ', '.join(f[2] for f in fs) + ')' if len(fs) > 1 else fs[0][2]) + '\n', True
        if isinstance(s, ast.Assign) and len(s.targets) == 1 and isinstance(s.targets[0], ast.Tuple) \
                and all(isinstance(e, ast.Name) for e in s.targets[0].elts) and self.is_list(s.value, env):
            # a, b, c = <list of exactly that many numbers> (ValueError otherwise in Python; the tie supplies the length)
            self.literals.add(0)
            txt = '%slet unpack__ := %s\n' % (ind, self.lexpr(s.value, env))
            for i, e in enumerate(s.targets[0].elts):
                txt += '%slet %s := List.getD unpack__ %d (0 : α)\n' % (ind, self.var(e.id), i)
                env[e.id] = 's'
            return txt, False
        if isinstance(s, ast.Assign) and len(s.targets) == 1 and isinstance(s.targets[0], ast.Name):
            t = s.targets[0]
        if isinstance(s, ast.AugAssign) and isinstance(s.target, ast.Name) and env.get(s.target.id) == 'list':
            v = ast.copy_location(ast.BinOp(left=s.target, op=s.op, right=s.value), s)
            return '%slet %s := %s\n' % (ind, self.var(s.target.id), self.lexpr(v, env)), False
        if isinstance(s, ast.Return) and s.value is not None and self.spec.get('returns') == 'list' and not inline:
            return ind + self.lexpr(s.value, env) + '\n', True
        if isinstance(s, ast.Return) and isinstance(self.spec.get('returns'), (list, tuple)) and not inline:
            kinds = self.spec['returns']
            if not (isinstance(s.value, ast.Tuple) and len(s.value.elts) == len(kinds)):
                self.fail(s, 'a tuple of %d values was declared as the result' % len(kinds))
            return ind + '(' + ', '.join(self.arg(e, k, env) for e, k in zip(s.value.elts, kinds)) + ')\n', True
        return super().stmt_ext(s, env, ind, rest, tail, inline)

    def pair_comprehension(self, name, node, env, ind):
        """`[f(x) for x in p]` over a declared pair p"""
        if len(node.generators) != 1:
            return None
        g = node.generators[0]
        if g.ifs or g.is_async or not isinstance(g.target, ast.Name) or not isinstance(g.iter, ast.Name) \
                or env.get(g.iter.id) != 'pair':
            return None
        x = g.target.id
        if x in env:
            self.fail(node, 'comprehension variable shadows a variable')
        outs = []
        saved = self.rename.get(x)
        for i in (0, 1):
            env2 = dict(env)
            env2[x] = 's'
            self.rename[x] = '%s_%d' % (self.var(g.iter.id), i)
            outs.append(self.expr(node.elt, env2))
        if saved is None:
            self.rename.pop(x, None)
        else:
            self.rename[x] = saved
        # both elements are computed from the OLD pair before the name is re-bound
        txt = '%slet %s_new__ := (%s, %s)\n' % (ind, self.var(name), outs[0], outs[1])
        txt += '%slet %s_0 := %s_new__.1\n%slet %s_1 := %s_new__.2\n' % (ind, self.var(name), self.var(name),
                                                                       ind, self.var(name), self.var(name))
        env[name] = 'pair'
        return txt

    def opt_if(self, s, env, ind, rest=None, tail=None, rv=None):
        """an `if` (not returning) that involves optional variables: `if x is None: …` becomes a `match`; variables that are
        possibly None after one branch are optional afterwards.  Returns None when no optional variable is involved.
        With `rest` (the statements after the `if`): the Option form — a branch can raise (use of a None value): the value of
        the conditional is `Option state`, `none` ends the enclosing block with its raise value, else `rest` goes on."""
        raising = rest is not None
        names = [n for n in self.assigned([s], env)]
        nt = self.none_test(s.test, env)
        if nt is not None and nt[2] not in ('opt', 'optpair'):
            nt = None

        def declared_opt(n):
            return env.get(n) == 'opt' or (n in self.attrs and self.attrs[n][1] == 'opt') or self.kinds.get(n) == 'opt'
        if nt is None and not any(declared_opt(n) for n in names):
            return None
        if not names:
            self.fail(s, 'conditional without effect')
        for n in names:
            if n not in env and n in self.state:
                self.add_param(self.attrs[n][0], self.lean_ty(self.attrs[n][1]))
                env[n] = self.attrs[n][1]
        for n in names:
            if n not in env:
                self.fail(s, 'variable %s assigned only inside a conditional' % n)
        if nt is not None:
            key, isnone, k = nt
            self.need_attr(key, env)
            env_some = dict(env)
            none_b, some_b = (s.body, s.orelse) if isnone else (s.orelse, s.body)
            if k == 'optpair':
                env_some[key] = 'pair'
                pat = '(%s_0, %s_1)' % (self.var(key), self.var(key))
            else:
                env_some[key] = 's'
                pat = self.var(key)
            branches = [('| none =>', none_b, dict(env)), ('| some %s =>' % pat, some_b, env_some)]
            head = 'match %s with' % self.var(key)
        else:
            branches = [('then', s.body, dict(env)), ('else', s.orelse, dict(env))]
            head = 'if %s' % self.cond(s.test, env)
        if True:
            finals = []
            for _, stmts, e in branches:                  # first pass: which variables are possibly None after each branch
                rec = {}

                def dry(fe, rec=rec):
                    rec.update({n: fe[n] for n in names})
                    return '_'
                dry.raising = raising
                self.block(stmts, dict(e), ind + '    ', dry)
                finals.append(rec)
            merged = {n: (env[n] if not declared_opt(n) else ('s' if all(f.get(n, 's') == 's' for f in finals) else 'opt'))
                      for n in names}

            def pack(fe):
                vs = []
                for n in names:
                    if env[n] == 'pair':                  # pairs are carried as their two scalars
                        vs.extend([self.var(n) + '_0', self.var(n) + '_1'])
                    elif fe[n] == merged[n]:
                        vs.append(self.var(n))
                    elif merged[n] == 'opt' and fe[n] == 's':
                        vs.append('(some %s)' % self.var(n))
                    else:
                        self.fail(s, 'variable %s has different kinds after the two branches' % n)
                t = vs[0] if len(vs) == 1 else '(' + ', '.join(vs) + ')'
                return '(some %s)' % t if raising else t
            pack.raising = raising
            txt = '(' + head + '\n'
            for (h, stmts, e) in branches:
                txt += '%s  %s\n%s' % (ind, h, self.block(stmts, e, ind + '    ', pack))
            txt += ind + '  )'
        for n in names:
            env[n] = merged[n]
        if not raising:
            return self.unpack_flat(names, env, txt, ind)
        out = '%smatch %s with\n%s| none => %s\n%s| some st__ =>\n' % (ind, txt, ind, rv, ind)
        out += self.unpack_flat(names, env, 'st__', ind + '  ')
        return out + self.block(rest, env, ind + '  ', tail)

    def unpack_flat(self, names, env, src, ind):
        vs = []
        for n in names:
            vs.extend([self.var(n)] if env[n] != 'pair' else [self.var(n) + '_0', self.var(n) + '_1'])
        if len(vs) == 1:
            return '%slet %s := %s\n' % (ind, vs[0], src)
        out = '%slet st__ := %s\n' % (ind, src)
        path = 'st__'
        for i, v in enumerate(vs):
            if i < len(vs) - 1:
                out += '%slet %s := %s.1\n' % (ind, v, path)
                path = path + '.2'
            else:
                out += '%slet %s := %s\n' % (ind, v, path)
        return out
