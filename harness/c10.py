"""C10 — atmospheric composition is a valid mixture for every input.

Correspondence of TaurexModel/Chemistry.lean (+ NpInterp.lean) with a real `TaurexChemistry` holding real
ConstantGas / TwoLayerGas / TwoPointGas / ArrayGas / PowerGas objects (mixProfile, muProfile, active / inactive
split against the molecules registered in `OpacityCache`, `get_gas_mix_profile`), plus the property's own
predicates evaluated on the real code for every in-domain case."""
import re
import numpy as np
from harness import common as C

# ----------------------------------------------------------------------------- source tie (harness/translate.py)
# Regenerated on every run into lean/TaurexModel/Gen/SrcC10.lean; lean/Props/C10Src.lean proves each definition equal to
# the hand-written model of TaurexModel/Chemistry.lean.  dialect='arr': the idioms of harness/translate_arr.py
# (python lists of arrays are `List (Nat → α)`; lists of names / gas objects are opaque sequences indexed by position).
_CDIR = 'taurex/data/profiles/chemistry/'
_LOG = r'^self\.(debug|info|warning|error|critical)\('
SRC_SPECS = [
    dict(module=_CDIR + 'gas/constantgas.py', cls='ConstantGas', func='initialize_profile', lean='constant_gas',
         dialect='arr', params=dict(nlayers='nat', temperature_profile='skip', pressure_profile='skip',
                                    altitude_profile='skip'),
         attrs={'self._mix_ratio': ('mix_ratio', 's'), 'self._mix_array': ('mix_array', 'arr')},
         state=['self._mix_array']),
    dict(module=_CDIR + 'gas/twopointgas.py', cls='TwoPointGas', func='initialize_profile', lean='two_point_gas',
         dialect='arr', params=dict(nlayers='nat', temperature_profile='skip', pressure_profile='arr',
                                    altitude_profile='skip'),
         lens={'pressure_profile': 'nP'},
         attrs={'self._mix_surface': ('mix_surface', 's'), 'self._mix_top': ('mix_top', 's'),
                'self._mix_profile': ('mix_profile', 'arr')}, state=['self._mix_profile']),
    # PowerGas.initialize_profile from `P = pressure_profile*1e-5` on: the formula with the resolved coefficients
    # (mix_surface, alpha, beta, gamma are the locals the preceding look-up has set); np.power(P, alpha) is the external
    # `rpow`; 1e-5 is the parameter `c1em05`
    dict(module=_CDIR + 'gas/powergas.py', cls='PowerGas', func='initialize_profile', lean='power_gas', dialect='arr',
         params=dict(nlayers='skip', temperature_profile='arr', pressure_profile='arr', altitude_profile='skip'),
         attrs={'self._mix_profile': ('mix_profile', 'arr')}, state=['self._mix_profile'],
         start_at='P = pressure_profile * 1e-05', free_locals=dict(mix_surface='s', alpha='s', beta='s', gamma='s'),
         externals={'**': ('rpow', 2)}),
    dict(module=_CDIR + 'taurexchemistry.py', cls='TaurexChemistry', func='fill_atmosphere',
         callname='self.fill_atmosphere', lean='fill_atmosphere', dialect='arr', params=dict(mixratio_remainder='arr'),
         lens={'self._fill_gases': 'nFill'}, seqs=['self._fill_gases'],
         attrs={'self._fill_ratio': ('fill_ratio', 'slist')}, locals={'fill': 'rows'}, returns='rows'),
    # initialize_chemistry up to the row list `mix_profile` (fill gases first); none = InvalidChemistryException.
    # `gas.initialize_profile(...)` is an effect on the gas object: `gas.mixProfile` afterwards is the parameter `gasMix k`
    # (k the position of the gas), every profile having `nlayers` entries.  np.vstack and the base-class call (which runs
    # compute_mu_profile, tied below) are after `stop_at`.
    dict(module=_CDIR + 'taurexchemistry.py', cls='TaurexChemistry', func='initialize_chemistry',
         lean='initialize_chemistry', dialect='arr',
         params=dict(nlayers='nat', temperature_profile='skip', pressure_profile='skip', altitude_profile='skip'),
         lens={'self._gases': 'nGases'}, seqs=['self._gases'], elem_attrs={'mixProfile': ('gasMix', 'arr', 'nlayers')},
         locals={'mix_profile': 'rows'}, row_len='nlayers',
         ignore_calls=_LOG + r'|^gas\.initialize_profile\(nlayers, temperature_profile, pressure_profile, '
                             r'altitude_profile\)$',
         returns='optrows', raise_value='none',
         stop_at='mix_profile = self.fill_atmosphere(mixratio_remainder) + mix_profile', result=['mix_profile']),
    dict(module=_CDIR + 'autochemistry.py', cls='AutoChemistry', func='compute_mu_profile', lean='compute_mu_profile',
         dialect='arr', params=dict(nlayers='nat'), lens={'self.gases': 'nGas'}, seqs=['self.gases'],
         attrs={'self.mixProfile': ('mixProfile', 'arr2'), 'self.mu_profile': ('mu_profile', 'arr')},
         state=['self.mu_profile'], elem_funcs={'self.get_molecular_mass': ('massAt', 's')},
         not_none=['self.mixProfile']),
    # ---- dialect 'seq' (harness/translate_seq.py): arrays as lists of run-time length, Python ints, general slices, the
    # shape tests numpy makes at run time as `Except.error "ValueError"`
    dict(module='taurex/util/util.py', func='movingaverage', lean='movingaverage', dialect='seq',
         params=dict(a='list', n='int'), raises=True),
    # the @property getters TwoLayerGas.initialize_profile reads
    dict(module=_CDIR + 'gas/twolayergas.py', cls='TwoLayerGas', func='mixRatioSurface', getter=True, prop=True,
         callname='self.mixRatioSurface', lean='two_layer_mixRatioSurface', dialect='seq', params={},
         attrs={'self._mix_surface': ('mix_surface', 's')}),
    dict(module=_CDIR + 'gas/twolayergas.py', cls='TwoLayerGas', func='mixRatioTop', getter=True, prop=True,
         callname='self.mixRatioTop', lean='two_layer_mixRatioTop', dialect='seq', params={},
         attrs={'self._mix_top': ('mix_top', 's')}),
    # the WHOLE TwoLayerGas.initialize_profile: argmin of |P - P_boundary|, int(...) layer window with max / min, node
    # lists, np.interp in log P (external `interp x xp fp`, mapped over the abscissae), odd smoothing window, movingaverage
    # of log10, border, slice store into the view `self._mix_profile` of chemprofile
    dict(module=_CDIR + 'gas/twolayergas.py', cls='TwoLayerGas', func='initialize_profile', lean='two_layer_gas',
         dialect='seq', params=dict(nlayers='nat', temperature_profile='skip', pressure_profile='list',
                                    altitude_profile='skip'),
         attrs={'self._mix_ratio_smoothing': ('smoothing', 's'), 'self._mix_ratio_pressure': ('mix_pressure', 's'),
                'self._mix_profile': ('mix_profile', 'list'), 'self._mix_surface': ('mix_surface', 's'),
                'self._mix_top': ('mix_top', 's')},
         state=['self._mix_profile'], raises=True,
         vexternals={'np.interp': dict(lean='interp', args=['s*', 'list', 'list'], ret='s')}),
    # ArrayGas.initialize_profile (nlayers given): np.linspace / np.interp externals
    dict(module=_CDIR + 'gas/arraygas.py', cls='ArrayGas', func='initialize_profile', lean='array_gas', dialect='seq',
         params=dict(nlayers='nat', temperature_profile='skip', pressure_profile='skip', altitude_profile='skip'),
         attrs={'self._mix_ratio_array': ('mix_ratio_array', 'list'), 'self._mix_array': ('mix_array', 'list')},
         state=['self._mix_array'],
         vexternals={'np.interp': dict(lean='interp', args=['s*', 'list', 'list'], ret='s'),
                     'np.linspace': dict(lean='linspace', args=['s', 's', 'nat'], ret='list')}),
    # AutoChemistry.determine_active_inactive (TaurexChemistry calls it from __init__ and addGas): the names and positions
    # of the gases that are / are not in `availableActive`; `self.gases` and `self.availableActive` are read-only
    # properties (lists of names).  Result: (_active, _active_mask, _inactive, _inactive_mask), a mask is None when empty
    dict(module=_CDIR + 'autochemistry.py', cls='AutoChemistry', func='determine_active_inactive',
         lean='determine_active_inactive', dialect='seq', params={},
         attrs={'self.gases': ('gases', 'strlist'), 'self.availableActive': ('availableActive', 'strlist'),
                'self._active': ('active', 'strlist'), 'self._active_mask': ('active_mask', ('optl', 'natlist')),
                'self._inactive': ('inactive', 'strlist'), 'self._inactive_mask': ('inactive_mask', ('optl', 'natlist'))},
         state=['self._active', 'self._active_mask', 'self._inactive', 'self._inactive_mask']),
    # Chemistry.__init__: the molecules that count as absorbing = the registered opacity data (cross-sections or
    # k-tables, by the global option) minus the `deactive_molecules` option.  The caches and GlobalCache are externals
    dict(module=_CDIR + 'chemistry.py', cls='Chemistry', func='__init__', lean='chemistry_init', dialect='seq',
         params=dict(name='skip'), state=['self._avail_active'],
         ignore_calls=_LOG + r'|^(Logger|Fittable)\.__init__\(',
         b_externals={"GlobalCache()['opacity_method'] == 'ktables'": 'ktables'},
         t_externals={'KTableCache().find_list_of_molecules()': ('ktableMolecules', 'strlist'),
                      'OpacityCache().find_list_of_molecules()': ('opacityMolecules', 'strlist'),
                      "GlobalCache()['deactive_molecules']": ('deactive', ('optl', 'strlist'))}),
    # the WHOLE PowerGas.initialize_profile: the coefficient look-up (a constructor argument left None is taken from the
    # tuple `self.check_known(...)` returns — an external: four optional numbers —, ValueError when that is None too) and the
    # formula; np.power(P, alpha) is the external `rpow`; 1e-5 is the parameter `c1em05`
    dict(module=_CDIR + 'gas/powergas.py', cls='PowerGas', func='initialize_profile', lean='power_gas_full', dialect='seq',
         params=dict(nlayers='nat', temperature_profile='list', pressure_profile='list', altitude_profile='skip'),
         attrs={'self._mix_profile': ('mix_profile', 'list'), 'self._profile_type': ('profile_type', 'str'),
                'self._mix_surface': ('mix_surface', 'opt'), 'self._alpha': ('alpha', 'opt'),
                'self._beta': ('beta', 'opt'), 'self._gamma': ('gamma', 'opt')},
         state=['self._mix_profile'], raises=True, externals={'**': ('rpow', 2)},
         vexternals={'self.check_known(molecule_name)': dict(lean='checkKnown', args=['str'],
                                                             ret=('tuple', ('opt', 'opt', 'opt', 'opt')))}),
    # the same with the option given as ONE bare string (it names that molecule)
    dict(module=_CDIR + 'chemistry.py', cls='Chemistry', func='__init__', lean='chemistry_init_str', dialect='seq',
         params=dict(name='skip'), state=['self._avail_active'],
         ignore_calls=_LOG + r'|^(Logger|Fittable)\.__init__\(',
         b_externals={"GlobalCache()['opacity_method'] == 'ktables'": 'ktables'},
         t_externals={'KTableCache().find_list_of_molecules()': ('ktableMolecules', 'strlist'),
                      'OpacityCache().find_list_of_molecules()': ('opacityMolecules', 'strlist'),
                      "GlobalCache()['deactive_molecules']": ('deactive', 'str')}),
    # ---- Chemistry.get_gas_mix_profile with the @property getters it reads.  `self.activeGases` … are resolved to the
    # getters of AutoChemistry (the class TaurexChemistry derives from; Chemistry's own are abstract).  `self.mixProfile` is
    # an optional 2-D array (None before initialize_chemistry: the getters raise Exception), a mask is an optional index
    # array (None: the getter returns None, and subscripting that None raises TypeError)
    dict(module=_CDIR + 'autochemistry.py', cls='AutoChemistry', func='activeGases', getter=True, prop=True,
         callname='self.activeGases', lean='auto_activeGases', dialect='seq', params={},
         attrs={'self._active': ('active', 'strlist')}),
    dict(module=_CDIR + 'autochemistry.py', cls='AutoChemistry', func='inactiveGases', getter=True, prop=True,
         callname='self.inactiveGases', lean='auto_inactiveGases', dialect='seq', params={},
         attrs={'self._inactive': ('inactive', 'strlist')}),
    dict(module=_CDIR + 'autochemistry.py', cls='AutoChemistry', func='activeGasMixProfile', getter=True, prop=True,
         callname='self.activeGasMixProfile', lean='auto_activeGasMixProfile', dialect='seq', params={}, raises=True,
         returns=('optl', 'rows'),
         attrs={'self.mixProfile': ('mixProfile', ('optl', 'rows')),
                'self._active_mask': ('active_mask', ('optl', 'natlist'))}),
    dict(module=_CDIR + 'autochemistry.py', cls='AutoChemistry', func='inactiveGasMixProfile', getter=True, prop=True,
         callname='self.inactiveGasMixProfile', lean='auto_inactiveGasMixProfile', dialect='seq', params={}, raises=True,
         returns=('optl', 'rows'),
         attrs={'self.mixProfile': ('mixProfile', ('optl', 'rows')),
                'self._inactive_mask': ('inactive_mask', ('optl', 'natlist'))}),
    dict(module=_CDIR + 'chemistry.py', cls='Chemistry', func='get_gas_mix_profile', lean='get_gas_mix_profile',
         dialect='seq', params=dict(gas_name='str'), raises=True),
]

RULE = ('real TaurexChemistry with 1-4 fill gases (random ratios 1e-6..2) and 0-5 trace gases drawn from all five '
        'built-in profile classes; layer counts 2-120, deliberately not multiples of ten (10/25/45 pinned in the '
        'corpus); real Simple/Array pressure grids; random subsets of the molecules registered in OpacityCache '
        '(in-memory tables) and optional deactive_molecules; quota of mixtures whose traces sum to exactly 1.0 in '
        'the bottom layer (dyadic abundances), just above 1 (1e-12..1e-3) and clearly above 1; a third of the free '
        'cases are re-initialised on the SAME chemistry object after 1-3 parameters were rewritten through the '
        'fitting-parameter setters; quota: fill ratios typed as python ints, one then rewritten with a fraction through its '
        'fitting parameter; quota: sampler history accepted -> proposal with traces above one (rejected) -> the object READ in '
        'that state (judged against the model mixture of the last accepted parameters, non-negative, sum one, mu) -> accepted '
        'again; the same with '
        'fitting-parameter setters; constructor variants (ratio as float, fill gas as str); session stream: 2-3 scratch '
        'directories of cross-section files, histories of 5-12 cache operations (set_opacity_path switches, files added / '
        'removed, in-memory tables registered, OpacityCache()[m] loads, clear_cache, find_list_of_molecules, force_active with '
        'empty and non-empty lists — every third session starts with a non-empty forced list) with a chemistry '
        'constructed after every second or third operation, each judged against the files of the current path + the tables in '
        'memory + the list last handed to force_active and against Chemistry.CacheState (op c10.session). distinct '
        'non-trivial = distinct (nfill, sorted trace kinds, nlayers, outcome, region)')
ASSUMPTIONS = [
    'np.interp / np.linspace / movingaverage as modelled in NpInterp.lean (validated numerically by the C12 run and '
    'end-to-end here through ArrayGas and TwoLayerGas)',
    'molecular masses: the element table (taurex.util.util.mass) and AMU are inputs of the model, the formula '
    'parser (bracket-free formulas) is modelled and compared value by value; the mu theorem takes the masses as '
    'given; the harness additionally re-derives masses with its own regex parser',
    'np.power(P, alpha) = exp(alpha * log P) for P > 0',
    'trace abundances and control values > 0 (constant gas: >= 0), fill ratios >= 0, pressure grid > 0 and '
    'decreasing, no duplicate molecule, smoothing window a percentage in [0, 100]',
    'rounding: model on Float vs numpy doubles compared to 1e-10 relative; sums to one within 1e-12',
    'session stream: cross-section files are PickleOpacity files `<molecule>.R100.pickle` (the molecule is read off the file '
    'name; HDF5 / ExoTransmit discovery is not exercised); k-tables are left out; a file removed from a '
    'directory stays available once its table is in memory; a molecule handed to OpacityCache().force_active counts as '
    'having opacity data (an external radiative code supplies it) until the next force_active call replaces the list',
    'source tie (Props/C10Src.lean): gas.mixProfile after gas.initialize_profile(...) is a profile of nlayers entries '
    '(parameter gasMix); x + 0 = x for the `mixratio_remainder += np.zeros(nlayers)` step; initialize_chemistry is tied '
    'up to the row list mix_profile (np.vstack and the base-class call that runs compute_mu_profile come after); '
    'PowerGas is tied from `P = pressure_profile*1e-5` on (coefficients already resolved) and as a whole (power_gas_full: '
    'the look-up of the coefficients left None in the tuple check_known returns — an input of the tie — then the formula; '
    'Chemistry.powerGasAuto, compared with the real PowerGas through the op c10.gasauto)',
    'source tie, dialect seq (movingaverage, TwoLayerGas, ArrayGas, determine_active_inactive, Chemistry.__init__): '
    'np.interp(x, xp, fp) is evaluated abscissa by abscissa; int(x) truncates toward zero and the model truncNat is its '
    'non-negative part; the smoothing window is not negative and nlayers >= 1; int(k/2) = k//2 for k >= 0; np.cumsum '
    'accumulates from the left; the cumsum trick equals the window means exactly over the reals (rounding on floats); '
    'a.argmin() is the FIRST minimum; self.gases / self.availableActive are read-only properties; zip(*L) of an empty '
    'list raises ValueError at the unpacking; OpacityCache / KTableCache / GlobalCache are inputs; deactive_molecules is '
    'None, a list of names, or one bare string',
    'source tie of get_gas_mix_profile (dialect seq): self.activeGases / inactiveGases / activeGasMixProfile / '
    'inactiveGasMixProfile are the getters of AutoChemistry; mixProfile[mask] selects the rows at the mask positions and '
    'M[i] the i-th row (a position beyond the array, IndexError in numpy, is totalised to an empty row; the masks of '
    'determine_active_inactive are positions of the gas list); the tie is stated for the object state '
    'determine_active_inactive leaves',
]

FILL_POOL = ['H2', 'He', 'N2', 'CO2', 'H2O', 'O2']
TRACE_POOL = ['H2O', 'CH4', 'CO2', 'CO', 'NH3', 'HCN', 'TiO', 'VO', 'Na', 'K', 'C2H2', 'SO2', 'H2S', 'H-', 'e-',
              'FeH', 'SiO', 'PH3', 'N2', 'O2', 'He']
# Parmentier (2018) coefficients as documented in PowerGas.check_known (independent copy)
POWER_KNOWN = {
    'H2': (1.0, 2.41e4, 6.5, 10 ** -0.1), 'H2O': (2.0, 4.83e4, 15.9, 10 ** -3.3), 'TiO': (1.6, 5.94e4, 23.0, 10 ** -7.1),
    'VO': (1.5, 5.4e4, 23.8, 10 ** -9.2), 'H-': (0.6, -0.14e4, 7.7, 10 ** -8.3), 'Na': (0.6, 1.89e4, 12.2, 10 ** -5.5),
    'K': (0.6, 1.28e4, 12.7, 10 ** -7.1)}
KIND_TAG = dict(constant=0, twolayer=1, twopoint=2, array=3, power=4)


def quiet():
    import logging
    import taurex.log
    from taurex.log.logger import root_logger
    taurex.log.disableLogging()
    root_logger.setLevel(logging.CRITICAL + 1)


# --------------------------------------------------------------------------------------- in-memory opacities
def mem_opacity(mol):
    from taurex.opacity.interpolateopacity import InterpolatingOpacity

    class MemOpacity(InterpolatingOpacity):
        def __init__(self):
            super().__init__('Mem' + mol, interpolation_mode='linear')

        moleculeName = mol
        xsecGrid = property(lambda self: np.ones((2, 2, 2)))
        wavenumberGrid = property(lambda self: np.array([100.0, 200.0]))
        temperatureGrid = property(lambda self: np.array([100.0, 2000.0]))
        pressureGrid = property(lambda self: np.array([1.0, 1e6]))
    return MemOpacity()


def install(registered, deactive):
    from taurex.cache import OpacityCache, GlobalCache
    oc = OpacityCache()
    oc.clear_cache()
    oc._force_active = []
    g = GlobalCache()
    g['opacity_method'] = 'xsec'
    g['xsec_path'] = None
    g['deactive_molecules'] = deactive
    for m in registered:
        oc.add_opacity(mem_opacity(m))


def uninstall():
    from taurex.cache import OpacityCache, GlobalCache
    OpacityCache().clear_cache()
    GlobalCache()['deactive_molecules'] = None


# --------------------------------------------------------------------------------------- oracles
def oracle_mass(mol):
    """own formula parser (Element[count])* over the repo's element table"""
    from taurex.util.util import mass
    from taurex.constants import AMU
    if mol == 'e-':
        return 0.0
    tot = 0.0
    for el, cnt in re.findall(r'([A-Z][a-z]?)([0-9]*)', mol):
        tot += mass[el] * (int(cnt) if cnt else 1)
    return tot * AMU


_TABLE = {}


def model_weights(ctx, formulas):
    """molecular weights (kg) from the Lean formula parser fed with the repo's element table and AMU"""
    from taurex.util.util import mass
    from taurex.constants import AMU
    if 'names' not in _TABLE:
        _TABLE['names'] = [k for k in mass if ' ' not in k]
    names = _TABLE['names']
    d = ctx.model().call('c10.weight', C.L(names, C.S), C.L([mass[k] for k in names]), C.F(AMU),
                         C.L(list(formulas), C.S))
    return d.list(lambda: d.opt())


def validate_weights(ctx):
    """formula parser: pool molecules + random bracket-free formulas (elements, counts, unknown symbols, noise)"""
    from taurex.util.util import mass, get_molecular_weight
    rng = ctx.rng
    els = [k for k in mass if k != 'e-']
    forms = sorted(set(TRACE_POOL + FILL_POOL + ['CH3COOH', 'C12H22O11', 'H0', 'h2o', 'Xx2H', 'D2O', 'HD', 'OH-',
                                                  'H3O+', '13C16O2', '1H2-16O']))
    for _ in range(ctx.n(150, 3000)):
        parts = []
        for _ in range(int(rng.integers(1, 6))):
            r = rng.random()
            if r < 0.75:
                parts.append(str(els[int(rng.integers(0, len(els)))]))
            elif r < 0.85:
                parts.append(str(rng.choice(['Xx', 'Q', 'Zz', 'J'])))
            else:
                parts.append(str(rng.choice(['-', '+', 'e', 'x', '.'])))
            if rng.random() < 0.5:
                parts.append(str(int(rng.integers(0, 25))))
        forms.append(''.join(parts))
    mod = model_weights(ctx, forms)
    for f, m in zip(forms, mod):
        try:
            impl = get_molecular_weight(f)
        except Exception as e:
            impl = 'raised ' + type(e).__name__
        ctx.bucket('external:formula-parser')
        ctx.check_eq('get_molecular_weight vs Chemistry.molecularWeight', impl, m, dict(formula=f))
        o = oracle_mass(f) if re.fullmatch(r'([A-Z][a-z]?[0-9]*)+', f) and all(
            el in mass for el, _ in re.findall(r'([A-Z][a-z]?)([0-9]*)', f)) else None
        if o is not None and isinstance(impl, float) and not C.close(impl, o, rel=1e-12):
            ctx.violation('molecular-mass', 'molecular mass is not the sum of element masses times counts',
                          dict(formula=f), dict(impl=impl, expected=o))


def power_coeffs(g):
    k = POWER_KNOWN.get(g['profile_type'] if g['profile_type'] != 'auto' else g['mol'])
    out = []
    for name, i in (('alpha', 0), ('beta', 1), ('gamma', 2), ('mix_ratio_surface', 3)):
        v = g.get(name)
        if v is None:
            v = k[i]
        out.append(float(v))
    return out          # alpha, beta, gamma, mix_surface


# --------------------------------------------------------------------------------------- generators
def gen_nlayers(rng):
    r = rng.random()
    if r < 0.2:
        return int(rng.integers(2, 9))
    n = int(rng.integers(2, 121))
    if n % 10 == 0:
        n = n + int(rng.integers(1, 10)) if n < 120 else n - int(rng.integers(1, 10))
    return n


def gen_pressure(rng, n):
    if rng.random() < 0.65:
        return dict(type='simple', pmin=float(10 ** rng.uniform(-6, -1)), pmax=float(10 ** rng.uniform(3, 7)), n=n)
    lp = np.sort(rng.uniform(-5, 7, size=n))[::-1] - np.arange(n) * 1e-6
    return dict(type='array', p=(10 ** lp).tolist(), n=n)


def make_pressure(spec):
    from taurex.data.profiles.pressure import SimplePressureProfile, ArrayPressureProfile
    if spec['type'] == 'simple':
        pp = SimplePressureProfile(nlayers=spec['n'], atm_min_pressure=spec['pmin'], atm_max_pressure=spec['pmax'])
    else:
        pp = ArrayPressureProfile(np.asarray(spec['p'], float))
    pp.compute_pressure_profile()
    return np.asarray(pp.profile, float)


def gen_abund(rng, big=False):
    if big:
        return float(rng.uniform(0.05, 0.7))
    return float(10 ** rng.uniform(-12, -1))


def gen_gas(rng, mol, kind, n, ps, big=False):
    if kind == 'constant':
        v = gen_abund(rng, big)
        if rng.random() < 0.03:
            v = 0.0
        return dict(mol=mol, kind=kind, mix_ratio=v)
    if kind == 'twopoint':
        return dict(mol=mol, kind=kind, mix_ratio_surface=gen_abund(rng, big), mix_ratio_top=gen_abund(rng))
    if kind == 'array':
        r = rng.random()
        m = n if r < 0.3 else (1 if r < 0.35 else int(rng.integers(2, 2 * n + 2)))
        return dict(mol=mol, kind=kind, mix_ratio_array=[gen_abund(rng, big and i == 0) for i in range(m)])
    if kind == 'twolayer':
        r = rng.random()
        if r < 0.5:
            w = 10
        elif r < 0.7:
            w = int(rng.integers(0, 101))
        else:
            w = float(rng.uniform(0, 100))
        lo = np.log10(ps['pmin']) if ps['type'] == 'simple' else np.log10(ps['p'][-1])
        hi = np.log10(ps['pmax']) if ps['type'] == 'simple' else np.log10(ps['p'][0])
        return dict(mol=mol, kind=kind, mix_ratio_surface=gen_abund(rng, big), mix_ratio_top=gen_abund(rng),
                    mix_ratio_P=float(10 ** rng.uniform(lo - 1, hi + 1)), mix_ratio_smoothing=w)
    if kind == 'power':
        known = list(POWER_KNOWN)
        g = dict(mol=mol, kind=kind, profile_type='auto', mix_ratio_surface=None, alpha=None, beta=None, gamma=None)
        if mol not in POWER_KNOWN:
            g['profile_type'] = known[int(rng.integers(0, len(known)))]
        elif rng.random() < 0.3:
            g['profile_type'] = known[int(rng.integers(0, len(known)))]
        for name, (a, b) in dict(mix_ratio_surface=(-12, -1), alpha=(0.5, 2.5), beta=(1e4, 6e4), gamma=(5, 25)).items():
            if rng.random() < 0.4:
                g[name] = float(10 ** rng.uniform(a, b)) if name == 'mix_ratio_surface' else float(rng.uniform(a, b))
        return g
    raise ValueError(kind)


def dyadic_split(rng, m):
    parts = [1.0]
    while len(parts) < m:
        i = int(rng.integers(0, len(parts)))
        if parts[i] < 2.0 ** -20:
            continue
        x = parts.pop(i)
        parts += [x / 2, x / 2]
    return parts


def gen_case(rng, k):
    n = gen_nlayers(rng)
    ps = gen_pressure(rng, n)
    nfill = int(rng.choice([1, 2, 2, 3, 3, 4]))
    fills = [str(x) for x in rng.choice(FILL_POOL, size=nfill, replace=False)]
    if rng.random() < 0.4 and nfill >= 2:
        fills = ['H2', 'He'] + [f for f in fills if f not in ('H2', 'He')][:nfill - 2]
    ratios = [float(10 ** rng.uniform(-6, 0.3)) for _ in range(nfill - 1)]
    if nfill >= 2 and rng.random() < 0.05:
        ratios[int(rng.integers(0, nfill - 1))] = 0.0
    pool = [m for m in TRACE_POOL if m not in fills]
    region = ['free', 'free', 'free', 'unity', 'above-tiny', 'free', 'above', 'free', 'near'][k % 9]
    ntr = int(rng.integers(0, 6))
    gases = []
    if region in ('unity', 'above-tiny'):
        ntr = max(ntr, 1)
        mols = [str(x) for x in rng.choice(pool, size=ntr, replace=False)]
        parts = dyadic_split(rng, ntr)
        bump = int(rng.integers(0, ntr))
        delta = float(10 ** rng.uniform(-12, -3))
        for i, (mol, v) in enumerate(zip(mols, parts)):
            if region == 'above-tiny' and i == bump:
                v = v * (1 + delta) if rng.random() < 0.5 else v + delta
            kind = str(rng.choice(['constant', 'array', 'twopoint']))
            if kind == 'constant':
                gases.append(dict(mol=mol, kind=kind, mix_ratio=v))
            elif kind == 'array':
                m = int(rng.integers(2, n + 3))
                arr = [v] + [v * float(2.0 ** -int(rng.integers(1, 12))) for _ in range(m - 1)]
                gases.append(dict(mol=mol, kind=kind, mix_ratio_array=arr))
            else:
                gases.append(dict(mol=mol, kind=kind, mix_ratio_surface=v,
                                  mix_ratio_top=v * float(2.0 ** -int(rng.integers(1, 30)))))
    else:
        mols = [str(x) for x in rng.choice(pool, size=ntr, replace=False)]
        for mol in mols:
            kind = str(rng.choice(['constant', 'twolayer', 'twopoint', 'array', 'power']))
            big = region in ('above', 'near') and rng.random() < 0.7
            gases.append(gen_gas(rng, mol, kind, n, ps, big))
    everything = fills + [g['mol'] for g in gases]
    reg_pool = sorted(set(TRACE_POOL + FILL_POOL) - {'e-'})
    nreg = int(rng.integers(0, 9))
    registered = [str(x) for x in rng.choice(reg_pool, size=nreg, replace=False)]
    for m in everything:
        if m != 'e-' and rng.random() < 0.45 and m not in registered:
            registered.append(m)
    deactive = None
    if rng.random() < 0.3:
        cand = registered + everything
        deactive = sorted({str(cand[int(rng.integers(0, len(cand)))]) for _ in range(int(rng.integers(0, 3)))}) \
            if cand else []
    # quota: ONE deactivated molecule, handed over as the bare string an input file yields ([Global] deactive_molecules =
    # CO2); picked, when possible, so that its name contains the name of another molecule with opacity data (CO2/CO,
    # H2O/H2, ...): it must switch off exactly the molecule named
    deactive_as_str = False
    if k % 6 == 3 and registered:
        subs = [a for a in registered if any(b != a and b in a for b in registered + everything)]
        deactive = [str(rng.choice(subs if subs else registered))]
        deactive_as_str = True
    temperature = [float(x) for x in rng.uniform(400, 3500, size=n)]
    c = dict(nlayers=n, pressure=ps, temperature=temperature, fill_gases=fills, ratio=ratios, gases=gases,
             registered=registered, deactive=deactive, deactive_as_str=deactive_as_str, region=region,
             ratio_as_float=bool(rng.random() < 0.5), fill_as_str=bool(rng.random() < 0.5))
    if region in ('free', 'above', 'near') and rng.random() < 0.35:
        c['update'] = gen_update(rng, c)
    if k % 9 == 2 and nfill >= 2:
        # quota: the fill ratios typed as whole numbers (python ints: ratio=[1], ratio=[1, 2]); one of them is then rewritten
        # with a fractional value through its fitting parameter (what a retrieval does) and the chemistry re-initialised
        c['ratio'] = [float(rng.integers(0 if i else 1, 4)) for i in range(nfill - 1)]
        c['ratio_as_int'] = True
        c['ratio_as_float'] = False
        i = int(rng.integers(0, nfill - 1))
        forced = dict(param='%s_%s' % (fills[i + 1], fills[0]), target=['ratio', i],
                      value=float(10 ** rng.uniform(-2, 0.3)))
        more = [u for u in (gen_update(rng, c) or []) if u['param'] != forced['param']][:1]
        c['update'] = [forced] + (more if rng.random() < 0.5 else [])
    if k % 9 == 5 and gases:
        # quota: the history of a sampler - an accepted parameter set, then a proposal whose traces exceed one (rejected
        # with InvalidChemistryException and caught), the object READ in that state, then an acceptable proposal again
        c.pop('update', None)
        j = int(rng.integers(0, len(gases)))
        for t in range(len(gases)):
            if gases[(j + t) % len(gases)]['kind'] in ('constant', 'twolayer', 'twopoint'):
                j = (j + t) % len(gases)
                break
        else:
            gases[j] = dict(mol=gases[j]['mol'], kind='constant', mix_ratio=gen_abund(rng))
        g = gases[j]
        field = 'mix_ratio' if g['kind'] == 'constant' else str(rng.choice(['mix_ratio_surface', 'mix_ratio_top']))
        pname = g['mol'] if g['kind'] == 'constant' else g['mol'] + '_' + field.split('_')[-1]
        over = dict(param=pname, target=['gas', j, field], value=float(rng.uniform(1.0 + 1e-6, 3.0)))
        back = dict(param=pname, target=['gas', j, field], value=gen_abund(rng))
        extra = [u for u in (gen_update(rng, c) or []) if u['param'] != pname][:1]
        c['updates'] = [[over] + (extra if rng.random() < 0.3 else []), [back]]
        if rng.random() < 0.3:
            c['updates'].insert(1, [dict(over, value=float(rng.uniform(1.0 + 1e-6, 3.0)))])
    return c


# --------------------------------------------------------------------------------------- real code
def make_gas(g):
    from taurex.chemistry import ConstantGas, TwoLayerGas, ArrayGas, PowerGas
    from taurex.data.profiles.chemistry.gas.twopointgas import TwoPointGas
    k = g['kind']
    if k == 'constant':
        return ConstantGas(g['mol'], mix_ratio=g['mix_ratio'])
    if k == 'twolayer':
        return TwoLayerGas(g['mol'], mix_ratio_surface=g['mix_ratio_surface'], mix_ratio_top=g['mix_ratio_top'],
                           mix_ratio_P=g['mix_ratio_P'], mix_ratio_smoothing=g['mix_ratio_smoothing'])
    if k == 'twopoint':
        return TwoPointGas(g['mol'], mix_ratio_surface=g['mix_ratio_surface'], mix_ratio_top=g['mix_ratio_top'])
    if k == 'array':
        return ArrayGas(g['mol'], mix_ratio_array=list(g['mix_ratio_array']))
    if k == 'power':
        return PowerGas(g['mol'], profile_type=g['profile_type'], mix_ratio_surface=g['mix_ratio_surface'],
                        alpha=g['alpha'], beta=g['beta'], gamma=g['gamma'])
    raise ValueError(k)


def gas_token(g):
    k = g['kind']
    t = [C.N(KIND_TAG[k])]
    if k == 'constant':
        t.append(C.F(g['mix_ratio']))
    elif k == 'twolayer':
        t += [C.F(g['mix_ratio_surface']), C.F(g['mix_ratio_top']), C.F(g['mix_ratio_P']),
              C.F(float(g['mix_ratio_smoothing']))]
    elif k == 'twopoint':
        t += [C.F(g['mix_ratio_surface']), C.F(g['mix_ratio_top'])]
    elif k == 'array':
        t.append(C.L(g['mix_ratio_array']))
    else:
        a, b, c, ms = power_coeffs(g)
        t += [C.F(ms), C.F(a), C.F(b), C.F(c), C.F(1e-5)]
    return ' '.join(t)


def gas_bounds(g, P):
    """(lo, hi) the property grants for one gas profile, or None when not judged"""
    k = g['kind']
    if k == 'constant':
        return g['mix_ratio'], g['mix_ratio']
    if k in ('twopoint', 'twolayer'):
        s, t = g['mix_ratio_surface'], g['mix_ratio_top']
        return min(s, t), max(s, t)
    if k == 'array':
        return min(g['mix_ratio_array']), max(g['mix_ratio_array'])
    if k == 'power':
        return 0.0, power_coeffs(g)[3]
    return None


def gen_update(rng, c):
    """1-3 parameter updates applied through the fitting-parameter setters before a second initialisation"""
    fills, gases = c['fill_gases'], c['gases']
    cand = []
    for i in range(len(fills) - 1):
        cand.append(dict(param='%s_%s' % (fills[i + 1], fills[0]), target=['ratio', i],
                         value=float(10 ** rng.uniform(-6, 0.3))))
    for j, g in enumerate(gases):
        m, k = g['mol'], g['kind']
        if k == 'constant':
            cand.append(dict(param=m, target=['gas', j, 'mix_ratio'], value=gen_abund(rng, rng.random() < 0.2)))
        elif k in ('twolayer', 'twopoint'):
            cand.append(dict(param=m + '_surface', target=['gas', j, 'mix_ratio_surface'], value=gen_abund(rng)))
            cand.append(dict(param=m + '_top', target=['gas', j, 'mix_ratio_top'], value=gen_abund(rng)))
            if k == 'twolayer':
                cand.append(dict(param=m + '_P', target=['gas', j, 'mix_ratio_P'],
                                 value=float(10 ** rng.uniform(-4, 6))))
        elif k == 'power':
            cand.append(dict(param=m + '_surface', target=['gas', j, 'mix_ratio_surface'], value=gen_abund(rng)))
            cand.append(dict(param=m + '_alpha', target=['gas', j, 'alpha'], value=float(rng.uniform(0.5, 2.5))))
            cand.append(dict(param=m + '_beta', target=['gas', j, 'beta'], value=float(rng.uniform(1e4, 6e4))))
            cand.append(dict(param=m + '_gamma', target=['gas', j, 'gamma'], value=float(rng.uniform(5, 25))))
    if not cand:
        return None
    k = int(rng.integers(1, min(3, len(cand)) + 1))
    idx = rng.choice(len(cand), size=k, replace=False)
    return [cand[int(i)] for i in idx]


def apply_update(c, chem, upd=None):
    """write the new values through the real setters; return the spec the model must now agree with"""
    import copy
    c2 = copy.deepcopy({k: v for k, v in c.items() if k not in ('update', 'updates')})
    params = chem.fitting_parameters()
    for u in (c['update'] if upd is None else upd):
        params[u['param']][3](u['value'])
        t = u['target']
        if t[0] == 'ratio':
            c2['ratio'][int(t[1])] = u['value']
        else:
            c2['gases'][int(t[1])][t[2]] = u['value']
    c2['region'] = str(c.get('region', 'free')).split('/')[0] + '/updated'
    return c2


def _opt(x):
    return '0' if x is None else '1 ' + C.F(float(x))


def power_auto(ctx, go, n, T, P, case):
    """PowerGas.initialize_profile INCLUDING the look-up of the coefficients left None, against Chemistry.powerGasAuto;
    inputs: the object's current constructor attributes and the tuple its check_known returns"""
    known = go.check_known(molecule_name=go._profile_type)
    try:
        go.initialize_profile(n, T, P, None)
        impl, prof = 'ok', np.array(go.mixProfile, float)
    except ValueError:
        impl, prof = 'error', None
    d = ctx.model().call('c10.gasauto', _opt(go._mix_surface), _opt(go._alpha), _opt(go._beta), _opt(go._gamma),
                         _opt(known[0]), _opt(known[1]), _opt(known[2]), _opt(known[3]), C.F(1e-5), C.L(P), C.L(T))
    tag = d.nat()
    ctx.check_eq('PowerGas outcome (ok / ValueError) vs Chemistry.powerGasAuto', impl, ['ok', 'invalid', 'error'][tag],
                 case)
    if tag == 0 and impl == 'ok':
        ctx.check_close('PowerGas.mixProfile (coefficient look-up) vs Chemistry.powerGasAuto', prof, d.list(), case,
                        rel=1e-10, abs_=1e-300)


def eval_case(ctx, c):
    quiet()
    install(c['registered'], c['deactive'][0] if (c.get('deactive_as_str') and c['deactive']) else c['deactive'])
    if c.get('deactive_as_str'):
        ctx.bucket('deactive_molecules:bare-string')
    try:
        st = {}
        judge(ctx, c, dict(c), st)
        if c.get('update') and st.get('chem') is not None and st.get('built'):
            c2 = apply_update(c, st['chem'])
            judge(ctx, c2, dict(c, phase='after-update'), st)
        elif c.get('updates') and st.get('chem') is not None and st.get('built'):
            cur = c
            for i, upd in enumerate(c['updates']):
                cur = apply_update(cur, st['chem'], upd)
                judge(ctx, cur, dict(c, phase='after-update-%d' % (i + 1)), st)
    finally:
        uninstall()


def judge(ctx, c, small, st):
    from taurex.chemistry import TaurexChemistry
    from taurex.data.profiles.chemistry.taurexchemistry import InvalidChemistryException
    n = c['nlayers']
    P = make_pressure(c['pressure'])
    T = np.asarray(c['temperature'], float)
    fills, ratios, gases = list(c['fill_gases']), list(c['ratio']), c['gases']
    names = fills + [g['mol'] for g in gases]
    kinds = tuple(sorted(g['kind'] for g in gases))
    if True:
        # ------------------------------------------------------------------ the implementation
        outcome = 'ok'
        if 'chem' not in st:
            st['chem'] = None
            st['gas_objs'] = []
            st['built'] = False
            try:
                if len(fills) == 1:
                    chem = TaurexChemistry(fill_gases=fills[0] if c.get('fill_as_str') else list(fills))
                elif len(fills) == 2 and c.get('ratio_as_float'):
                    chem = TaurexChemistry(fill_gases=list(fills), ratio=float(ratios[0]))
                elif c.get('ratio_as_int'):
                    chem = TaurexChemistry(fill_gases=list(fills), ratio=[int(r) for r in ratios])
                else:
                    chem = TaurexChemistry(fill_gases=list(fills), ratio=list(ratios))
                st['chem'] = chem
                for g in gases:
                    go = make_gas(g)
                    st['gas_objs'].append(go)
                    chem.addGas(go)
                st['built'] = True
            except InvalidChemistryException:
                outcome = 'invalid'
            except Exception as e:
                outcome = 'error:' + type(e).__name__
        chem = st['chem']
        gas_objs = st['gas_objs']
        if st['built']:
            try:
                chem.initialize_chemistry(n, T, P, None)
            except InvalidChemistryException:
                outcome = 'invalid'
            except Exception as e:
                outcome = 'error:' + type(e).__name__
        # trace rows as the real gas objects produced them (independent of the chemistry class)
        rows = []
        rows_ok = True
        for go in gas_objs:
            try:
                go.initialize_profile(n, T, P, None)
                rows.append(np.array(go.mixProfile, float))
            except Exception:
                rows_ok = False
        if len(gas_objs) != len(gases):
            rows_ok = False
        if rows_ok:
            for g, go in zip(gases, gas_objs):
                if g['kind'] == 'power':
                    power_auto(ctx, go, n, T, P, small)
        total = np.zeros(n)
        if rows_ok:
            for r in rows:
                total = total + r
        # ------------------------------------------------------------------ the model
        masses = model_weights(ctx, names)      # molecular masses from the model's own formula parser
        if chem is not None:
            ctx.check_close('get_molecular_mass vs Chemistry.molecularWeight',
                            [chem.get_molecular_mass(m) for m in names], masses, small, rel=1e-15)
        d = ctx.model().call('c10.chem', C.N(len(fills)), C.L(ratios if len(fills) > 1 else []),
                             C.L(gases, gas_token), C.N(n), C.L(P), C.L(T), C.L(masses))
        tag = d.nat()
        m_out = ['ok', 'invalid', 'error'][tag]
        m_rows = m_mu = None
        if tag == 0:
            m_rows = d.list(lambda: d.list())
            m_mu = np.array(d.list())
        region = c.get('region', 'free')
        ctx.case(key=(len(fills), kinds, n, outcome, region), bucket='region:' + region,
                 sample=dict(fill=fills, ratio=ratios, kinds=kinds, nlayers=n, outcome=outcome, region=region,
                             mu0_impl=None if outcome != 'ok' else float(chem.muProfile[0]),
                             mu0_model=None if m_mu is None else float(m_mu[0])))
        ctx.bucket('outcome:' + outcome)
        ctx.bucket('nfill:%d' % len(fills))
        ctx.bucket('ntrace:%d' % len(gases))
        for g in gases:
            ctx.bucket('gas:' + g['kind'])
        ctx.bucket('layers:' + ('2-9' if n < 10 else '10-49' if n < 50 else '50-120'))
        if c.get('ratio_as_int'):
            ctx.bucket('fill-ratios-typed-as-ints:' + ('constructed' if region == 'free' else 'one rewritten with a fraction'))
        # ------------------------------------------------------------------ correspondence
        ctx.check_eq('TaurexChemistry outcome (ok / InvalidChemistryException / error) vs Chemistry.chemistry',
                     outcome.split(':')[0], m_out, small)
        avail_m = None
        if outcome == 'ok' and m_out == 'ok':
            mix = np.atleast_2d(np.asarray(chem.mixProfile, float))
            ok = ctx.check_eq('mixProfile shape', list(mix.shape), [len(m_rows), n], small)
            if ok:
                # trace rows: relative; fill rows are 1 - (sum of traces) shared out, so their ABSOLUTE rounding error is a few ulp
                # of one (a smoothed trace near 0.45 comes back 5e-15 off, which is 1.1e-10 of a fill gas left at 4e-5)
                nfill = len(c['fill_gases'])
                mr = np.array(m_rows, float)
                ctx.check_close('mixProfile vs Chemistry.chemistry', mix[nfill:].ravel(), mr[nfill:].ravel(), small,
                                rel=1e-10, abs_=1e-300)
                ctx.check_close('mixProfile vs Chemistry.chemistry', mix[:nfill].ravel(), mr[:nfill].ravel(), small,
                                rel=1e-10, abs_=1e-13)
                ctx.check_close('muProfile vs Chemistry.muProfile', chem.muProfile, m_mu, small, rel=1e-10)
        if outcome == 'ok' and m_out == 'ok':
            st['accepted'] = dict(rows=np.array(m_rows, float), mu=np.array(m_mu, float), region=region)
        elif outcome == 'invalid' and st.get('accepted') is not None:
            exposed_after_rejection(ctx, chem, names, n, st['accepted'], small)
        if chem is not None:
            reg = sorted(c['registered'])
            dct = c['deactive']
            d2 = ctx.model().call('c10.split', C.L(names, C.S), C.L(reg, C.S),
                                  '0' if dct is None else '1 ' + C.L(dct, C.S))
            act_m = d2.list(d2.str)
            inact_m = d2.list(d2.str)
            amask_m = d2.list(d2.nat)
            imask_m = d2.list(d2.nat)
            ctx.check_eq('activeGases vs Chemistry.activeGases', list(chem.activeGases), act_m, small)
            ctx.check_eq('inactiveGases vs Chemistry.inactiveGases', list(chem.inactiveGases), inact_m, small)
            ctx.check_eq('_active_mask', [] if chem._active_mask is None else [int(i) for i in chem._active_mask],
                         amask_m, small)
            ctx.check_eq('_inactive_mask', [] if chem._inactive_mask is None else
                         [int(i) for i in chem._inactive_mask], imask_m, small)
            avail_m = act_m
            if outcome == 'ok':
                mix = np.atleast_2d(np.asarray(chem.mixProfile, float))
                avail = sorted(set(reg) - set(dct or []))
                d3 = ctx.model().call('c10.rows', C.L(names, C.S), C.L(avail, C.S), C.LL(mix.tolist()))
                ar = d3.list(lambda: d3.list())
                ir = d3.list(lambda: d3.list())
                try:
                    a_i = chem.activeGasMixProfile
                    i_i = chem.inactiveGasMixProfile
                except Exception as e:
                    ctx.violation('split-raises', 'active/inactive mix profile raised %s' % type(e).__name__, small)
                    return
                ctx.check_eq('activeGasMixProfile vs selectRows', [] if a_i is None else np.asarray(a_i).tolist(), ar,
                             small)
                ctx.check_eq('inactiveGasMixProfile vs selectRows', [] if i_i is None else np.asarray(i_i).tolist(),
                             ir, small)
                for nm in names + ['Xx9']:
                    try:
                        gi = np.asarray(chem.get_gas_mix_profile(nm), float).tolist()
                    except KeyError:
                        gi = None
                    except Exception as e:
                        gi = 'raised ' + type(e).__name__
                        ctx.violation('lookup-raises', 'get_gas_mix_profile raised %s for a gas of the mixture'
                                      % type(e).__name__, dict(small, name=nm))
                    d4 = ctx.model().call('c10.lookup', C.L(names, C.S), C.L(avail, C.S), C.LL(mix.tolist()),
                                          C.S(nm))
                    gm = d4.opt(lambda: d4.list())
                    ctx.check_eq('get_gas_mix_profile vs Chemistry.getGasMixProfile', gi, gm, dict(small, name=nm))
        # ------------------------------------------------------------------ the property's own predicates
        if outcome.startswith('error'):
            ctx.violation('chemistry-raises:' + outcome.split(':')[1] + ':' + '+'.join(sorted(set(kinds))),
                          'TaurexChemistry raised %s on a valid input' % outcome, small)
            return
        # every built-in profile: one finite value per layer inside its control range
        if rows_ok:
            for g, r in zip(gases, rows):
                lo, hi = gas_bounds(g, P)
                key = 'gas-' + g['kind']
                if len(r) != n:
                    ctx.violation(key + '-length', '%s profile has %d values for %d layers' % (g['kind'], len(r), n),
                                  small)
                elif not np.all(np.isfinite(r)):
                    ctx.violation(key + '-nonfinite', '%s profile not finite' % g['kind'], small, dict(profile=r))
                # (rounding is not modelled: a linear interpolant's absolute rounding error scales with the LARGEST of the
                # control values it combines — next to a node of 0.07 a node of 2e-12 comes back 6e-18 off, 3e-6 of itself)
                elif r.min() < lo * (1 - 1e-10) - 8e-16 * abs(hi) or r.max() > hi * (1 + 1e-10):
                    ctx.violation(key + '-out-of-range', '%s profile leaves the range of its control values'
                                  % g['kind'], small, dict(lo=lo, hi=hi, min=float(r.min()), max=float(r.max())))
                elif g['kind'] == 'power' and r.min() <= 0:
                    ctx.violation(key + '-nonpositive', 'power-law profile not positive', small)
        else:
            ctx.violation('gas-profile-raises:' + '+'.join(sorted(set(kinds))), 'a built-in gas profile raised', small)
            return
        tmax = float(total.max()) if len(gases) else 0.0
        if tmax > 1.0 + 1e-13:
            ctx.bucket('traces:exceed')
            if outcome != 'invalid':
                neg = chem is not None and chem.mixProfile is not None and \
                    float(np.min(np.asarray(chem.mixProfile))) < 0
                ctx.violation('exceed-not-rejected', 'traces exceed one but the model was not rejected as invalid'
                              + (' (negative fill produced)' if neg else ''), small, dict(total_max=tmax))
            return
        if tmax > 1.0:      # within rounding of one: validity not judged
            ctx.bucket('traces:within-rounding-of-one')
            return
        ctx.bucket('traces:unity' if tmax == 1.0 else 'traces:below-one')
        if outcome != 'ok':
            ctx.violation('valid-rejected' + (':unity' if tmax == 1.0 else ''),
                          'traces stay at or below one in every layer but the chemistry was rejected', small,
                          dict(total_max=tmax))
            return
        mix = np.atleast_2d(np.asarray(chem.mixProfile, float))
        if mix.shape != (len(names), n):
            ctx.violation('mix-shape', 'mixProfile has shape %r for %d gases and %d layers'
                          % (mix.shape, len(names), n), small)
            return
        if not np.all(np.isfinite(mix)) or mix.min() < 0:
            ctx.violation('negative-or-nonfinite-mix', 'volume mixing ratio negative or not finite', small,
                          dict(min=float(np.nanmin(mix))))
            return
        if np.max(np.abs(mix.sum(axis=0) - 1.0)) > 1e-12:
            ctx.violation('sum-not-one', 'mixing ratios do not sum to one in every layer', small,
                          dict(err=float(np.max(np.abs(mix.sum(axis=0) - 1.0)))))
        for j, rj in enumerate(ratios[:len(fills) - 1] if len(fills) > 1 else []):
            if not C.close(mix[j + 1], rj * mix[0], rel=1e-12, abs_=1e-300):
                ctx.violation('fill-ratio', 'fill gas %d is not ratio x first fill gas' % (j + 1), small)
        for j, r in enumerate(rows):
            if not np.array_equal(mix[len(fills) + j], r):
                ctx.violation('trace-row-changed', 'a trace row of mixProfile differs from the gas profile', small)
        mu_o = np.zeros(n)
        for row, nm in zip(mix, names):
            mu_o = mu_o + row * oracle_mass(nm)
        if not C.close(chem.muProfile, mu_o, rel=1e-12):
            ctx.violation('mu-not-weighted-sum', 'muProfile is not the abundance-weighted sum of molecular masses',
                          small)
        avail = set(c['registered']) - set(c['deactive'] or [])
        exp_a = [m for m in names if m in avail]
        exp_i = [m for m in names if m not in avail]
        if list(chem.activeGases) != exp_a or list(chem.inactiveGases) != exp_i:
            ctx.violation('active-split', 'active / inactive gases are not split by availability of opacity data',
                          small, dict(active=list(chem.activeGases), expected=exp_a))
        else:
            a_i = chem.activeGasMixProfile
            i_i = chem.inactiveGasMixProfile
            ea = [mix[names.index(m)] for m in exp_a]
            ei = [mix[names.index(m)] for m in exp_i]
            if (a_i is None) != (len(exp_a) == 0) or (a_i is not None and not np.array_equal(np.asarray(a_i), ea)):
                ctx.violation('active-rows', 'activeGasMixProfile rows are not the rows of the active gases', small)
            if (i_i is None) != (len(exp_i) == 0) or (i_i is not None and not np.array_equal(np.asarray(i_i), ei)):
                ctx.violation('inactive-rows', 'inactiveGasMixProfile rows are not the rows of the inactive gases',
                              small)
            for nm in names:
                try:
                    row = np.asarray(chem.get_gas_mix_profile(nm))
                except Exception:
                    continue        # already reported as lookup-raises
                if not np.array_equal(row, mix[names.index(nm)]):
                    ctx.violation('lookup-row', 'get_gas_mix_profile returns another gas\'s row', small, dict(name=nm))


def exposed_after_rejection(ctx, chem, names, n, acc, small):
    """a proposal whose traces exceed one was rejected on an object that had been initialised successfully before (what a
    sampler does routinely, catching the exception): what the object EXPOSES in that state - mixProfile, muProfile, the
    per-gas rows - must not be the negative fill of the rejected proposal.  Compared with the model's mixture of the last
    ACCEPTED parameter set (Chemistry.chemistry), then judged by the property's own relations"""
    ctx.bucket('history:read-after-rejected-proposal')
    try:
        mix = np.atleast_2d(np.asarray(chem.mixProfile, float))
        mu = np.asarray(chem.muProfile, float)
    except Exception as e:
        ctx.violation('rejected-proposal:read-raises', 'reading mixProfile / muProfile after a rejected proposal raised %r'
                      % (e,), small)
        return
    if ctx.check_eq('mixProfile shape after a rejected proposal', list(mix.shape), list(acc['rows'].shape), small):
        ctx.check_close('mixProfile after a rejected proposal vs Chemistry.chemistry of the last accepted parameters',
                        mix.ravel(), acc['rows'].ravel(), small, rel=1e-10, abs_=1e-300)
        ctx.check_close('muProfile after a rejected proposal vs Chemistry.muProfile of the last accepted parameters', mu,
                        acc['mu'], small, rel=1e-10)
    if not np.all(np.isfinite(mix)) or mix.min() < 0:
        ctx.violation('rejected-proposal:negative-fill-exposed', 'the traces exceeded one and the proposal was rejected, yet '
                      'the chemistry now exposes the negative fill of the rejected proposal (mixProfile has negative entries)',
                      small, dict(min=float(np.nanmin(mix)), fill_row0=mix[0][:5]))
        return
    if mix.shape == (len(names), n):
        if np.max(np.abs(mix.sum(axis=0) - 1.0)) > 1e-12:
            ctx.violation('rejected-proposal:sum-not-one', 'after a rejected proposal the exposed mixing ratios do not sum to '
                          'one in every layer', small, dict(err=float(np.max(np.abs(mix.sum(axis=0) - 1.0)))))
        mu_o = np.zeros(n)
        for row, nm in zip(mix, names):
            mu_o = mu_o + row * oracle_mass(nm)
        if not C.close(mu, mu_o, rel=1e-12):
            ctx.violation('rejected-proposal:mu-not-weighted-sum', 'after a rejected proposal muProfile is not the '
                          'abundance-weighted sum of molecular masses of the exposed mixProfile', small)
        for j, nm in enumerate(names):
            try:
                row = np.asarray(chem.get_gas_mix_profile(nm), float)
            except Exception:
                continue
            if not np.array_equal(row, mix[j]):
                ctx.violation('rejected-proposal:lookup-row', 'get_gas_mix_profile after a rejected proposal is not the row of '
                              'the exposed mixProfile', small, dict(name=nm))


def malformed(ctx):
    """outside the quantifier: recorded, never judged"""
    from taurex.chemistry import TaurexChemistry
    rng = ctx.rng
    quiet()
    for k in range(ctx.n(28, 280)):
        c = gen_case(rng, 0)
        r = k % 7
        tag = ''
        try:
            install(c['registered'], None)
            if r == 0:
                tag = 'duplicate-fill'
                TaurexChemistry(fill_gases=['H2', 'H2'], ratio=[0.1])
                out = 'accepted'
            elif r == 1:
                tag = 'trace-equals-fill'
                ch = TaurexChemistry(fill_gases=['H2', 'He'], ratio=[0.1])
                ch.addGas(make_gas(dict(mol='He', kind='constant', mix_ratio=1e-3)))
                out = 'accepted'
            elif r == 2:
                tag = 'ratio-count-mismatch'
                TaurexChemistry(fill_gases=['H2', 'He', 'N2'], ratio=[0.1])
                out = 'accepted'
            elif r == 3:
                tag = 'twolayer-window>100'
                n = c['nlayers']
                P = make_pressure(c['pressure'])
                g = make_gas(dict(mol='CH4', kind='twolayer', mix_ratio_surface=1e-4, mix_ratio_top=1e-8,
                                  mix_ratio_P=1e3, mix_ratio_smoothing=float(rng.uniform(100.5, 400))))
                g.initialize_profile(n, None, P, None)
                out = 'finite' if np.all(np.isfinite(g.mixProfile)) else 'nonfinite'
            elif r == 4:
                tag = 'negative-trace'
                n = c['nlayers']
                P = make_pressure(c['pressure'])
                ch = TaurexChemistry(fill_gases=['H2', 'He'], ratio=[0.1])
                ch.addGas(make_gas(dict(mol='CH4', kind='constant', mix_ratio=-1e-3)))
                ch.initialize_chemistry(n, None, P, None)
                out = 'accepted'
            elif r == 6:
                tag = 'twopoint-nonmonotone-pressure'
                n = max(c['nlayers'], 4)
                P = 10 ** rng.uniform(-3, 6, size=n)
                g = make_gas(dict(mol='CH4', kind='twopoint', mix_ratio_surface=1e-4, mix_ratio_top=1e-8))
                g.initialize_profile(n, None, P, None)
                mp = np.asarray(g.mixProfile)
                out = 'in-range' if (mp.min() >= 1e-8 * (1 - 1e-9) and mp.max() <= 1e-4 * (1 + 1e-9)) else \
                    'out-of-range'
            else:
                tag = 'power-unknown-molecule'
                n = c['nlayers']
                P = make_pressure(c['pressure'])
                g = make_gas(dict(mol='CH4', kind='power', profile_type='auto', mix_ratio_surface=None, alpha=None,
                                  beta=None, gamma=None))
                power_auto(ctx, g, n, np.full(n, 1500.0), P, dict(tag=tag, nlayers=n))
                g.initialize_profile(n, np.full(n, 1500.0), P, None)
                out = 'accepted'
        except Exception as e:
            out = type(e).__name__
        finally:
            uninstall()
        ctx.malformed_outcome(tag + ':' + out)


def isolation(ctx):
    """objects built with DEFAULT arguments are independent: a fill ratio written through one chemistry's fitting
    parameter must not show up in another default-built chemistry, nor in one built afterwards"""
    from taurex.data.profiles.chemistry import TaurexChemistry
    rng = ctx.rng
    for _ in range(ctx.n(6, 40)):
        nl = int(rng.integers(2, 12))
        a = TaurexChemistry()
        b = TaurexChemistry()
        T = np.full(nl, 1000.0)
        P = np.logspace(5, 0, nl)
        for ch in (a, b):
            ch.initialize_chemistry(nl, T, P)
        before = np.array(b.mixProfile, float).copy()
        default_ratio = float(b.fitting_parameters()['He_H2'][2]())
        newr = float(rng.uniform(0.3, 3.0))
        a.fitting_parameters()['He_H2'][3](newr)
        a.initialize_chemistry(nl, T, P)
        b.initialize_chemistry(nl, T, P)
        c = TaurexChemistry()
        c.initialize_chemistry(nl, T, P)
        ctx.case(bucket='isolation:default-arguments')
        rb = float(b.fitting_parameters()['He_H2'][2]())
        rc = float(c.fitting_parameters()['He_H2'][2]())
        if rb != default_ratio or rc != default_ratio or not np.array_equal(np.array(b.mixProfile, float), before) \
                or not np.array_equal(np.array(c.mixProfile, float), before):
            ctx.violation('default-chemistry-shares-state', 'writing the fill ratio of one default-built TaurexChemistry changed '
                          'another default-built object (or one built afterwards): each object must keep the ratio requested '
                          'for it', dict(kind='isolation', set_on_first=newr),
                          dict(default=default_ratio, other=rb, later=rc))
        ra = float(a.fitting_parameters()['He_H2'][2]())
        if ra != newr:
            ctx.violation('fill-ratio-setter-lost', 'the fill ratio written through the fitting parameter is not read back',
                          dict(kind='isolation', set_on_first=newr), dict(read=ra))


# --------------------------------------------------------------------------------------- sessions of the opacity cache
# Availability of opacity data is a matter of the SESSION: the directory the opacity path points to when a chemistry is
# constructed (cross-section files found there), and the tables in memory (registered, or loaded from an earlier path).
# One session = 2-3 scratch directories, a history of 5-12 operations (switch the path, put a file into / take a file out of
# a directory, register an in-memory table, load a molecule through OpacityCache()[m], clear the cache, ask for the list of
# molecules, declare molecules absorbing with force_active) and a chemistry constructed after every second or third of them.
# Model: Chemistry.CacheState (op c10.session).
SESSION_POOL = ['H2O', 'CH4', 'CO2', 'CO', 'NH3', 'HCN']
OP_TAG = dict(setPath=0, addFile=1, removeFile=2, register=3, load=4, clear=5, ask=6, build=6,     # constructing a chemistry asks
              force=7)


def write_xsec_file(directory, mol):
    """a loadable PickleOpacity file `<mol>.R100.pickle`"""
    import os
    import pickle
    t = np.array([300.0, 1000.0, 2000.0])
    p = np.array([1e-5, 1e-2, 1.0, 100.0])
    wno = np.linspace(500.0, 5000.0, 6)
    data = {'t': t, 'p': p, 'name': mol, 'wno': wno, 'xsecarr': np.full((p.size, t.size, wno.size), 1e-22)}
    with open(os.path.join(directory, '%s.R100.pickle' % mol), 'wb') as fh:
        pickle.dump(data, fh)


def enc_cache_op(op):
    t = [C.N(OP_TAG[op[0]])]
    if op[0] in ('setPath',):
        t.append(C.N(op[1]))
    elif op[0] in ('addFile', 'removeFile'):
        t += [C.N(op[1]), C.S(op[2])]
    elif op[0] in ('register', 'load'):
        t.append(C.S(op[1]))
    elif op[0] == 'force':
        t.append(C.L(list(op[1]), C.S))
    return ' '.join(t)


def gen_session(rng, k):
    ndirs = int(rng.integers(2, 4))
    ops = []
    # every session starts the way an input file does (a path is set, the files are there) or with no path at all
    have = [set() for _ in range(ndirs)]
    for i in range(ndirs):
        for m in rng.choice(SESSION_POOL, size=int(rng.integers(0, 4)), replace=False):
            ops.append(['addFile', i, str(m)])
            have[i].add(str(m))
    if k % 4 != 3:
        ops.append(['setPath', int(rng.integers(0, ndirs))])
    # quota: every third session declares 1-2 molecules absorbing (OpacityCache().force_active, the hook for external
    # radiative codes) before its first chemistry is constructed; the list stays in force over the path switches that follow
    if k % 3 == 1:
        ops.append(['force', [str(x) for x in rng.choice(SESSION_POOL, size=int(rng.integers(1, 3)), replace=False)]])
    ops.append(['build'])
    for _ in range(int(rng.integers(4, 11))):
        r = rng.random()
        m = str(rng.choice(SESSION_POOL))
        i = int(rng.integers(0, ndirs))
        if r < 0.28:
            ops.append(['setPath', i])
        elif r < 0.43:
            ops.append(['addFile', i, m])
        elif r < 0.53:
            ops.append(['removeFile', i, m])
        elif r < 0.63:
            ops.append(['register', m])
        elif r < 0.75:
            ops.append(['load', m])
        elif r < 0.80:
            ops.append(['clear'])
        elif r < 0.88:
            ops.append(['ask'])
        elif r < 0.95:
            ops.append(['force', [str(x) for x in rng.choice(SESSION_POOL, size=int(rng.integers(0, 3)), replace=False)]])
        if rng.random() < 0.45 or ops[-1][0] == 'setPath':
            ops.append(['build'])
    if ops[-1][0] != 'build':
        ops.append(['build'])
    gases = [str(x) for x in rng.choice(SESSION_POOL, size=int(rng.integers(2, 6)), replace=False)]
    return dict(kind='session', ndirs=ndirs, ops=ops, gases=gases)


def eval_session(ctx, c):
    import os
    import shutil
    import tempfile
    from taurex.cache import OpacityCache, GlobalCache
    from taurex.chemistry import TaurexChemistry, ConstantGas
    quiet()
    install([], None)
    oc = OpacityCache()
    root = tempfile.mkdtemp(prefix='verif_c10_')
    dirs = [os.path.join(root, 'xsec%d' % i) for i in range(int(c['ndirs']))]
    for d_ in dirs:
        os.mkdir(d_)
    names = ['H2', 'He'] + list(c['gases'])
    hist = []                 # the operations so far, as the model takes them
    cur = None
    builds = 0
    forced = []               # what the last force_active call asked for (our own copy)
    forced_at = None          # number of path switches when it was made
    try:
        for op in c['ops']:
            kind = op[0]
            if kind == 'setPath':
                oc.set_opacity_path(dirs[op[1]])
                cur = op[1]
            elif kind == 'addFile':
                write_xsec_file(dirs[op[1]], op[2])
            elif kind == 'removeFile':
                fn = os.path.join(dirs[op[1]], '%s.R100.pickle' % op[2])
                if os.path.exists(fn):
                    os.remove(fn)
            elif kind == 'register':
                oc.add_opacity(mem_opacity(op[1]))
            elif kind == 'load':
                try:
                    oc[op[1]]
                except Exception:
                    pass                                   # no file for it in the current path
            elif kind == 'clear':
                oc.clear_cache()
            elif kind == 'force':
                forced = [str(m) for m in op[1]]
                forced_at = sum(1 for o in hist if o[0] == 'setPath')
                oc.force_active(list(forced))              # the cache keeps the list object it is handed
            hist.append(op)
            ctx.bucket('session-op:' + kind)
            if kind not in ('build', 'ask'):
                continue
            small = dict(kind='session', ndirs=c['ndirs'], gases=c['gases'], ops=[list(o) for o in hist])
            d = ctx.model().call('c10.session', C.N(int(c['ndirs'])), C.L(hist, enc_cache_op))
            avail_m = sorted(set(d.list(d.str)))
            # the property's own notion, read off the session as it is now: a cross-section file in the directory the path
            # points to, a table in memory, or a molecule of the list last handed to force_active
            on_disk = set() if cur is None else {f.split('.')[0] for f in os.listdir(dirs[cur]) if f.endswith('.pickle')}
            avail_now = sorted(on_disk | set(oc.opacity_dict.keys()) | set(forced))
            if kind == 'ask':
                ctx.check_eq('find_list_of_molecules() vs Chemistry.CacheState.molecules', sorted(oc.find_list_of_molecules()),
                             avail_m, small)
                continue
            builds += 1
            chem = TaurexChemistry(fill_gases=['H2', 'He'], ratio=0.17)
            for g in c['gases']:
                chem.addGas(ConstantGas(g, mix_ratio=1e-4))
            ctx.check_eq('availableActive of a chemistry constructed in a session vs Chemistry.CacheState.molecules',
                         sorted(chem.availableActive), avail_m, small)
            d2 = ctx.model().call('c10.split', C.L(names, C.S), C.L(avail_m, C.S), '0')
            act_m, inact_m = d2.list(d2.str), d2.list(d2.str)
            ctx.check_eq('activeGases (session) vs Chemistry.activeGases', list(chem.activeGases), act_m, small)
            ctx.check_eq('inactiveGases (session) vs Chemistry.inactiveGases', list(chem.inactiveGases), inact_m, small)
            exp_a = [g for g in names if g in avail_now]
            exp_i = [g for g in names if g not in avail_now]
            switched = sum(1 for o in hist if o[0] == 'setPath')
            ctx.case(key=('session', switched, len(exp_a), cur is None), bucket='session:chemistry-built',
                     sample=dict(history=len(hist), path_switches=switched, active=exp_a, available=avail_now))
            ctx.bucket('session:path-switches-before-build:' + ('0' if switched == 0 else '1' if switched == 1 else '2+'))
            if forced:
                ctx.bucket('session:forced-active-nonempty-at-build')
                if switched > forced_at:
                    ctx.bucket('session:forced-active-nonempty-at-build:path-switched-since')
            if list(chem.activeGases) != exp_a or list(chem.inactiveGases) != exp_i:
                ctx.violation('active-split:session', 'a chemistry constructed in a session whose opacity path / files / '
                              'in-memory tables changed does not split its gases by the opacity data available when it is '
                              'constructed', small,
                              dict(active=list(chem.activeGases), inactive=list(chem.inactiveGases), expected_active=exp_a,
                                   files_in_current_path=sorted(on_disk), in_memory=sorted(oc.opacity_dict.keys()),
                                   forced_active=list(forced)))
                return
    finally:
        oc.force_active([])
        uninstall()
        GlobalCache()['xsec_path'] = None
        shutil.rmtree(root, ignore_errors=True)


def run(ctx):
    quiet()
    validate_weights(ctx)
    with np.errstate(all='ignore'):
        isolation(ctx)
    n = ctx.n(3000, 45000)
    with np.errstate(all='ignore'):
        for k in range(n):
            eval_case(ctx, gen_case(ctx.rng, k))
        for k in range(ctx.n(120, 1500)):
            eval_session(ctx, gen_session(ctx.rng, k))
        malformed(ctx)


def replay(ctx, case):
    """one stored case: a bare case dict, a corpus entry {note, case} or a replay file written by main.py"""
    if case.get('kind') == 'unchecked-obligation':
        for m in case.get('first_disagreements', []):
            if isinstance(m.get('case'), dict) and ('pressure' in m['case'] or m['case'].get('kind') == 'session'):
                replay(ctx, m['case'])
        return
    if isinstance(case.get('case'), dict) and 'pressure' not in case:
        case = case['case']
    case = {k: v for k, v in case.items() if k not in ('phase', 'name')}
    with np.errstate(all='ignore'):
        if case.get('kind') == 'session':
            eval_session(ctx, case)
        else:
            eval_case(ctx, case)
