"""C05 — spectral binning is an overlap-weighted mean.

Correspondence: Binning.fluxBindown / fluxBindownErr / targetBins / computeBinEdges / histMean1 / histMeanN /
nativeBindown (driver_c05) against FluxBinner, SimpleBinner (util.bindown), NativeBinner, Binner.bin_model and
compute_bin_edges of /repo.  The property's own predicates (overlap-weighted mean against an independent numpy
oracle, constant preservation, min/max bound, linearity, order independence, quadrature errors, zero outside the
native range, histogram = plain mean, native identity) are evaluated on the real code for every judged case."""
import numpy as np
from harness import common as C

RULE = ('native grids: linear / log / constant-R (repo create_grid_res) with mid-point or explicit widths, explicit '
        'non-overlapping bins with gaps, explicit ordered overlapping bins (2-60 points); targets 1-12 bins by quota: '
        'inside, narrower, wider, straddling either end, wholly outside, inside a gap, abutting (exact), covering '
        'everything; widths None/scalar/array; 1-D and 2-D spectra, with/without (1-D/2-D) errors; native and target '
        'order shuffled. judged iff the sorted native bins have non-decreasing lower and upper edges ("ordered '
        'bins"), positive widths and distinct centres; the rest is the malformed stream. distinct non-trivial = '
        'distinct (binner, native kind, target kind, width modes, ndim, error, shuffled, n-bucket) with a '
        'non-constant spectrum. Fixed quotas: every 6th case has integer-dtype inputs (target grid and/or native grid '
        'and/or spectrum as int64, widths fractional floats); a reuse stream applies ONE FluxBinner / SimpleBinner / '
        'NativeBinner instance to 2-3 different native grids of equal length in sequence (mid-point and explicit '
        'widths, 1-D/2-D, errors, bindown and bin_model), each result judged for its own grid and against a fresh '
        'binner; an observation-route stream: the binner is NOT handed its grid but created from the rows of a file '
        '(ArraySpectrum 3/4 columns, ObservedSpectrum text file 3/4 columns, TaurexSpectrum HDF5 instrument section, '
        'InstrumentFile wavelength/noise/width) with rows in descending / ascending / shuffled wavelength order, unequal '
        'widths, gaps, broad (R 2-10) channels; judged against Binning.fluxBindown on ObsTargets.routeTargets and against '
        'the overlap-weighted mean over the bins the rows declare')
ASSUMPTIONS = ['np.searchsorted(a, v, side="right") on a sorted array = number of elements <= v',
               'argsort = stable insertion sort by key (theorems on order need distinct wavenumbers)',
               'np.histogram(x, edges[, weights]) = per-bin count/sum with bins [e_i, e_i+1) and a closed last bin; '
               'np.digitize(x, edges, right=True) = bins (e_i, e_i+1]',
               'np.sum/np.minimum/np.maximum/np.abs/np.diff behave as documented; summation order and rounding are '
               'not modelled: model on Float vs numpy compared to 1e-10 relative + 1e-12*max|spectrum|',
               'the code is point-wise in the leading axes of an N-D spectrum (each row is binned separately by the '
               'model and compared)',
               'source tie: the numpy primitives are the definitions of lean/TaurexModel/Gen/Prelude.lean (element-wise ops with 1-D broadcasting, slices, searchsorted = count, stable argsort, masks, np.where, take); the list dialect of the translator (harness/translate_list.py) is part of the trusted base',
               'source tie: np.histogram is instantiated by C05Src.npHistogram / npHistogramW (Proofs/C05SrcNp.lean)',
               'source tie: np.digitize(x, edges, right=True) is instantiated by C05Src.npDigitize (the number of edges '
               'below the point: numpy evaluates it as searchsorted(edges, x, side="left") for increasing edges); the N-D '
               'path of util.bindown is translated for one row of a 2-D array (leading axis lifted, lifted_ndim=2); '
               'x.mean() = sum / (sum of ones)']

ASSUMPTIONS += ['observation route: a file row (wavelength, ..., wavelength width) declares the wavenumber bin centre 10000/wl, '
                'width 10000*w/wl^2 (wnwidth_to_wlwidth, the conversion at the bin centre that the package documents and '
                'C16 states); a TauREx output file declares (instrument_wngrid, instrument_wnwidth) directly; a 3-column '
                'observation declares the mid-point widths of its wavelength grid; np.loadtxt / np.savetxt / h5py are '
                'containers (doubles round-trip exactly)']

REL = 1e-10

# source tie (harness/translate_list.py, list dialect): the functions below are re-translated from the taurex source text
# on every run into lean/TaurexModel/Gen/SrcC05.lean; lean/Props/C05Src.lean proves each equal to the model of
# TaurexModel/Binning.lean.  `FluxBinner.bindown` / `__init__` are translated once per calling pattern (a parameter of kind
# 'none' is one the caller leaves at None: the tests on it are decided at translation time).
_FB = 'taurex/binning/fluxbinner.py'
_FB_ATTRS = {'self._wngrid': ('u_wngrid', 'list'), 'self._wngrid_width': ('u_wngrid_width', 'list')}
_FB_RAISE = '([], [])'
_SB = 'taurex/binning/simplebinner.py'
_SB_ATTRS = {'self._wngrid': ('u_wngrid', 'list'), 'self._wn_width': ('u_wn_width', 'list')}
_HIST = ('tuple', ('list', 'list'))
SRC_SPECS = [
    dict(dialect='list', module='taurex/util/util.py', func='compute_bin_edges', lean='compute_bin_edges',
         params=dict(wngrid='list')),
    dict(dialect='list', module='taurex/util/util.py', func='wnwidth_to_wlwidth', lean='wnwidth_to_wlwidth',
         params=dict(wngrid='list', wnwidth='list')),
    # util.bindown (1-D data): np.histogram is an external, one Lean parameter per calling form
    dict(dialect='list', module='taurex/util/util.py', func='bindown', lean='util_bindown',
         params=dict(original_bin='list', original_data='list', new_bin='list', last_point='none'),
         vexternals={'np.histogram': dict(lean='histogram', args=['list', 'list'], ret=_HIST),
                     'np.histogram(weights)': dict(lean='histogram_weights', args=['list', 'list', 'list'], ret=_HIST)}),
    dict(dialect='list', module=_SB, cls='SimpleBinner', func='__init__', lean='simplebinner_init_none',
         params=dict(wngrid='list', wngrid_width='none'), attrs=_SB_ATTRS, state=['self._wngrid', 'self._wn_width']),
    dict(dialect='list', module=_SB, cls='SimpleBinner', func='__init__', lean='simplebinner_init_array',
         params=dict(wngrid='list', wngrid_width='list'), attrs=_SB_ATTRS, state=['self._wngrid', 'self._wn_width']),
    dict(dialect='list', module=_SB, cls='SimpleBinner', func='bindown', lean='simplebinner_bindown',
         params=dict(wngrid='list', spectrum='list', grid_width='none', error='none'), attrs=_SB_ATTRS),
    dict(dialect='list', module='taurex/binning/nativebinner.py', cls='NativeBinner', func='bindown',
         lean='nativebinner_bindown', params=dict(wngrid='list', spectrum='list', grid_width='list', error='list')),
    dict(dialect='list', module=_FB, cls='FluxBinner', func='bindown', lean='fluxbinner_bindown', callname='self.bindown',
         params=dict(wngrid='list', spectrum='list', grid_width='none', error='none'), attrs=_FB_ATTRS),
    dict(dialect='list', module=_FB, cls='FluxBinner', func='bindown', lean='fluxbinner_bindown_w',
         params=dict(wngrid='list', spectrum='list', grid_width='list', error='none'), attrs=_FB_ATTRS),
    dict(dialect='list', module=_FB, cls='FluxBinner', func='bindown', lean='fluxbinner_bindown_e',
         params=dict(wngrid='list', spectrum='list', grid_width='none', error='list'), attrs=_FB_ATTRS),
    dict(dialect='list', module=_FB, cls='FluxBinner', func='bindown', lean='fluxbinner_bindown_we',
         params=dict(wngrid='list', spectrum='list', grid_width='list', error='list'), attrs=_FB_ATTRS),
    # Binner.bin_model(model_output) -> self.bindown(model_output[0], model_output[1]) (here: FluxBinner's)
    dict(dialect='list', module='taurex/binning/binner.py', cls='Binner', func='bin_model', lean='bin_model',
         params=dict(model_output=('tuple', ('list', 'list')))),
    # FluxBinner.__init__: the result is the final value of (self._wngrid, self._wngrid_width)
    dict(dialect='list', module=_FB, cls='FluxBinner', func='__init__', lean='fluxbinner_init_none',
         params=dict(wngrid='list', wngrid_width='none'), attrs=_FB_ATTRS, state=['self._wngrid', 'self._wngrid_width'],
         raise_value=_FB_RAISE),
    dict(dialect='list', module=_FB, cls='FluxBinner', func='__init__', lean='fluxbinner_init_scalar',
         params=dict(wngrid='list', wngrid_width='s'), attrs=_FB_ATTRS, state=['self._wngrid', 'self._wngrid_width'],
         raise_value=_FB_RAISE),
    dict(dialect='list', module=_FB, cls='FluxBinner', func='__init__', lean='fluxbinner_init_array',
         params=dict(wngrid='list', wngrid_width='list'), attrs=_FB_ATTRS, state=['self._wngrid', 'self._wngrid_width'],
         raise_value=_FB_RAISE),
    # util.bindown on N-D data (the `np.digitize` path): `original_data` is ONE ROW of a 2-D array (the leading axis is
    # lifted: the code is point-wise in it); np.digitize(…, right=True) is an external
    dict(dialect='list', module='taurex/util/util.py', func='bindown', lean='util_bindown_nd',
         params=dict(original_bin='list', original_data='llist', new_bin='list', last_point='none'), lifted_ndim=2,
         vexternals={'np.digitize(right)': dict(lean='digitize', args=['list', 'list', 'bool'], ret='natlist'),
                     'np.histogram': dict(lean='histogram', args=['list', 'list'], ret=_HIST),
                     'np.histogram(weights)': dict(lean='histogram_weights', args=['list', 'list', 'list'], ret=_HIST)}),
    # FluxBinner.bindown with ONE width for every native bin (`grid_width` a scalar: `hasattr(grid_width, '__len__')` is
    # False, the width broadcasts)
    dict(dialect='list', module=_FB, cls='FluxBinner', func='bindown', lean='fluxbinner_bindown_s',
         params=dict(wngrid='list', spectrum='list', grid_width='s', error='none'), attrs=_FB_ATTRS),
    dict(dialect='list', module=_FB, cls='FluxBinner', func='bindown', lean='fluxbinner_bindown_se',
         params=dict(wngrid='list', spectrum='list', grid_width='s', error='list'), attrs=_FB_ATTRS),
]


# ----------------------------------------------------------------------------------------------- generators
def snap(x, q):
    return np.round(np.asarray(x, float) * q) / q


def gen_native(rng, kind, n):
    """returns (centres ascending, explicit widths or None, dyadic flag)"""
    from taurex.util.util import compute_bin_edges, create_grid_res
    if kind == 'linear':
        c = rng.uniform(200, 5000) + rng.uniform(0.05, 40) * np.arange(n)
        return c, None
    if kind == 'log':
        c = rng.uniform(200, 5000) * rng.uniform(1.0005, 1.6) ** np.arange(n)
        return c, None
    if kind == 'linear-w':
        c = rng.uniform(200, 5000) + rng.uniform(0.05, 40) * np.arange(n)
        return c, compute_bin_edges(c)[-1]
    if kind == 'log-w':
        c = rng.uniform(200, 5000) * rng.uniform(1.0005, 1.6) ** np.arange(n)
        return c, compute_bin_edges(c)[-1]
    if kind in ('constR', 'constR-w'):
        R = rng.uniform(5, 400)
        wl0 = rng.uniform(0.3, 5)
        g = create_grid_res(R, wl0, wl0 * (1 + 1.0 / R) ** (n + 0.5))
        g = g[:max(2, min(len(g), n))]
        wl, wlw = g[::-1, 0], g[::-1, 1]
        c = 10000 / wl
        if kind == 'constR':
            return c, None
        return c, 10000 * wlw / wl ** 2
    if kind == 'gaps':                     # non-overlapping explicit bins, some contiguous, some with gaps
        e = np.cumsum(rng.uniform(0.125, 30, size=2 * n))
        e = snap(e, 8) + 300
        e = np.unique(e)
        while len(e) < 2 * n:
            e = np.append(e, e[-1] + 1 + np.arange(2 * n - len(e)))
        lo, hi = e[0::2].copy(), e[1::2].copy()
        glue = rng.random(n - 1) < 0.35
        lo[1:][glue] = hi[:-1][glue]       # contiguous neighbours
        return (lo + hi) / 2, hi - lo
    if kind == 'overlap-ordered':          # overlapping but ordered explicit bins
        lo = np.cumsum(rng.uniform(0.5, 20, size=n)) + 300
        hi = np.empty(n)
        prev = -np.inf
        for i in range(n):
            prev = max(prev, lo[i]) + rng.uniform(0.5, 25)
            hi[i] = prev
        return (lo + hi) / 2, hi - lo
    if kind == 'nonuniform-mid':           # malformed candidate: arbitrary grid, mid-point widths
        c = np.cumsum(10 ** rng.uniform(-1.5, 1.5, size=n)) + 300
        return c, None
    if kind == 'disordered-w':             # malformed candidate: arbitrary explicit widths
        c = np.cumsum(rng.uniform(0.5, 10, size=n)) + 300
        return c, 10 ** rng.uniform(-1, 1.7, size=n)
    raise ValueError(kind)


NATIVE_KINDS = ['linear', 'log', 'constR', 'linear-w', 'log-w', 'constR-w', 'gaps', 'gaps', 'overlap-ordered',
                'linear', 'gaps', 'log']
MALFORMED_KINDS = ['nonuniform-mid', 'disordered-w']
TARGET_KINDS = ['inside', 'narrow', 'wide', 'straddle-lo', 'straddle-hi', 'outside-lo', 'outside-hi', 'gap',
                'abut', 'cover', 'random']


def native_edges(c, w):
    from taurex.util.util import compute_bin_edges
    if w is None:
        w = compute_bin_edges(c)[-1]
    return c - w / 2, c + w / 2, w


def gen_targets(rng, c, w, m):
    """list of (centre, width, kind)"""
    lo, hi, ww = native_edges(c, w)
    n = len(c)
    L, H = lo.min(), hi.max()
    span = H - L
    out = []
    for j in range(m):
        kind = TARGET_KINDS[int(rng.integers(0, len(TARGET_KINDS)))]
        if kind == 'inside':
            a = rng.uniform(L, H - 0.05 * span)
            b = rng.uniform(a + 1e-3 * span, H)
        elif kind == 'narrow':
            i = int(rng.integers(0, n))
            a = lo[i] + rng.uniform(0.05, 0.45) * ww[i]
            b = a + rng.uniform(0.05, 0.45) * ww[i]
        elif kind == 'wide':
            i = int(rng.integers(0, n))
            k = int(rng.integers(i, n))
            a = lo[i] - rng.uniform(0, 0.5) * ww[i]
            b = hi[k] + rng.uniform(0, 0.5) * ww[k]
        elif kind == 'straddle-lo':
            a = L - rng.uniform(0.01, 0.5) * span
            b = L + rng.uniform(0.01, 0.6) * span
        elif kind == 'straddle-hi':
            a = H - rng.uniform(0.01, 0.6) * span
            b = H + rng.uniform(0.01, 0.5) * span
        elif kind == 'outside-lo':
            b = L - rng.uniform(1e-6, 0.5) * span
            a = b - rng.uniform(0.01, 0.5) * span
        elif kind == 'outside-hi':
            a = H + rng.uniform(1e-6, 0.5) * span
            b = a + rng.uniform(0.01, 0.5) * span
        elif kind == 'gap':
            gaps = [i for i in range(n - 1) if lo[i + 1] - hi[i] > 1e-6 * span]
            if not gaps:
                kind = 'inside'
                a = rng.uniform(L, H - 0.05 * span)
                b = rng.uniform(a + 1e-3 * span, H)
            else:
                i = gaps[int(rng.integers(0, len(gaps)))]
                g = lo[i + 1] - hi[i]
                a = hi[i] + rng.uniform(0.1, 0.4) * g
                b = lo[i + 1] - rng.uniform(0.1, 0.4) * g
        elif kind == 'abut':
            # one edge of the target coincides exactly with an edge of a native bin
            i = int(rng.integers(0, n))
            wd = float(snap(rng.uniform(0.25, 0.4 * span + 0.25), 8))
            side = int(rng.integers(0, 4))
            if side == 0:      # just above the native range
                a, b = H, H + wd
            elif side == 1:    # just below
                a, b = L - wd, L
            elif side == 2:    # starts at an upper edge
                a, b = hi[i], hi[i] + wd
            else:              # ends at a lower edge
                a, b = lo[i] - wd, lo[i]
        elif kind == 'cover':
            a = L - rng.uniform(0, 0.3) * span
            b = H + rng.uniform(0, 0.3) * span
        else:
            t = rng.uniform(L - 0.3 * span, H + 0.3 * span)
            wd = 10 ** rng.uniform(-3, 0.2) * span
            a, b = t - wd / 2, t + wd / 2
        out.append(((a + b) / 2, b - a, kind))
    return out


INT_SETS = [('target',), ('native',), ('spec',), ('target', 'native', 'spec'), ('target', 'spec'), ('native', 'spec')]


def gen_case(rng, k, malformed=False, ints=None, n_fixed=None, nkind=None):
    kinds = MALFORMED_KINDS if malformed else NATIVE_KINDS
    nkind = nkind or kinds[k % len(kinds)]
    n = int(rng.integers(2, 61)) if rng.random() < 0.8 else int(rng.integers(2, 6))
    if n_fixed is not None:
        n = n_fixed
    ints = tuple(ints or ())
    if 'native' in ints:
        # integer-valued native grid: integer start and step; mid-point, contiguous or gapped explicit widths
        step = int(rng.integers(1, 40))
        c = (int(rng.integers(200, 5000)) + step * np.arange(n)).astype(float)
        r0 = rng.random()
        if r0 < 0.4:
            nkind, w = 'linear', None
        elif r0 < 0.7:
            nkind, w = 'linear-w', np.full(n, float(step))
        else:
            nkind, w = 'gaps', step * rng.uniform(0.2, 0.95, size=n)
    else:
        c, w = gen_native(rng, nkind, n)
    n = len(c)
    scalar_native = False
    if w is not None and nkind == 'linear-w' and rng.random() < 0.5:
        # a scalar grid_width is accepted by the code as well
        w = np.full(n, float(w[0]) * rng.uniform(0.3, 1.0))
        scalar_native = True
    m = int(rng.integers(1, 13))
    tg = gen_targets(rng, c, w, m)
    tc = np.array([t[0] for t in tg])
    tw = np.array([t[1] for t in tg])
    tkinds = [t[2] for t in tg]
    if 'target' in ints:
        tc = np.round(tc)           # integer-valued centres; the widths stay fractional floats
        if rng.random() < 0.3:
            tw = tw * rng.uniform(0.05, 0.9) / np.maximum(tw, 1e-9)     # widths below 1
    # distinct target centres (argsort ties are outside the model)
    _, first = np.unique(tc, return_index=True)
    keep = np.sort(first)
    tc, tw, tkinds = tc[keep], tw[keep], [tkinds[i] for i in keep]
    m = len(tc)
    r = rng.random()
    tmode = 'array'
    if r < 0.15 and m >= 2:
        tmode = 'none'
    elif r < 0.3:
        tmode = 'scalar'
    nd = 1 if rng.random() < 0.6 else 2
    nspec = 1 if nd == 1 else int(rng.integers(1, 4))
    style = rng.random()
    if style < 0.07:
        spec = np.full((nspec, n), rng.uniform(-3, 3))
    elif style < 0.5:
        spec = rng.uniform(-1, 1, size=(nspec, n)) * 10 ** rng.uniform(-6, 2)
    else:
        spec = 10 ** rng.uniform(-4, -1) * (1 + 0.3 * rng.standard_normal((nspec, n)))
    if 'spec' in ints:
        spec = rng.integers(-50, 51, size=(nspec, n)).astype(float)
    err = None
    if rng.random() < 0.6:
        err = np.abs(rng.standard_normal((nspec, n))) * 10 ** rng.uniform(-6, 0) + 1e-9
    shuffle_n = rng.random() < 0.6
    shuffle_t = rng.random() < 0.6
    pn = rng.permutation(n) if shuffle_n else np.arange(n)
    pt = rng.permutation(m) if shuffle_t else np.arange(m)
    case = dict(nkind=nkind, tkinds=[tkinds[i] for i in pt], nd=nd, tmode=tmode,
                nc=c[pn], nw=None if w is None else w[pn], scalar_native=scalar_native,
                spec=spec[:, pn] if nd == 2 else spec[0, pn],
                err=None if err is None else (err[:, pn] if nd == 2 else err[0, pn]),
                tc=tc[pt], tw=tw[pt] if tmode == 'array' else (float(tw[0]) if tmode == 'scalar' else None),
                shuffled=[bool(shuffle_n), bool(shuffle_t)], ints=list(ints))
    return case


REUSE_KINDS = ['linear', 'constR', 'log', 'linear-w', 'gaps', 'constR-w', 'log-w', 'overlap-ordered']


def gen_reuse_case(rng, k):
    """one binner, 2-3 different native grids of EQUAL length over the same range, in sequence"""
    n = int(rng.integers(3, 50))
    base = gen_case(rng, k, n_fixed=n, nkind=REUSE_KINDS[k % len(REUSE_KINDS)],
                    ints=INT_SETS[(k // 5) % len(INT_SETS)] if k % 5 == 4 else None)
    n = len(base['nc'])
    order = np.argsort(base['nc'])
    lo0, hi0 = float(np.min(base['nc'])), float(np.max(base['nc']))
    cases = [base]
    for j in range(int(rng.integers(1, 3))):
        kind = REUSE_KINDS[(k + 1 + 3 * j + int(rng.integers(0, 3))) % len(REUSE_KINDS)]
        c, w = None, None
        for attempt in range(5):
            c, w = gen_native(rng, kind, n)
            if len(c) == n:
                break
            kind = 'log' if w is None else 'log-w'
        if len(c) != n:
            continue
        # same range as the first grid, so that widths remembered from it would be plausible but wrong
        f = (hi0 - lo0) / (c[-1] - c[0])
        c = lo0 + (c - c[0]) * f
        w = None if w is None else w * f
        sub = gen_case(rng, k + j + 1, n_fixed=n, nkind='linear')   # spectra / errors / order of a fresh draw
        pn = rng.permutation(n) if sub['shuffled'][0] else np.arange(n)
        nd = sub['nd']
        sub.update(nkind=kind, nc=c[pn], nw=None if w is None else w[pn], scalar_native=False,
                   tc=base['tc'], tw=base['tw'], tmode=base['tmode'], tkinds=base['tkinds'],
                   shuffled=[sub['shuffled'][0], base['shuffled'][1]], ints=[x for x in base['ints'] if x == 'target'])
        sub['via_bin_model'] = bool(w is None and nd == 1 and sub['err'] is None and rng.random() < 0.5)
        cases.append(sub)
    if rng.random() < 0.3:
        cases.append(dict(base))        # and back to the first grid
    return dict(reuse=True, cases=cases)


def eval_reuse(ctx, c):
    from taurex.binning import SimpleBinner, NativeBinner
    cases = c['cases']
    try:
        fb = make_binner(cases[0])
    except Exception as e:
        ctx.violation('flux-raises:init', 'FluxBinner raised %r' % (e,), c)
        return
    for sub in cases:
        eval_flux(ctx, sub, fb=fb)
    # the histogram binner and the native binner, one instance each over the same sequence of native grids
    tc = np.sort(np.asarray(cases[0]['tc'], float))
    if len(tc) >= 2 and np.all(np.diff(tc) > 0):
        sb = SimpleBinner(tc)
        for sub in cases:
            eval_hist(ctx, dict(hist=True, kind='reuse:' + sub['nkind'], nd=sub['nd'], nc=sub['nc'], spec=sub['spec'],
                                nb=tc, shuffled=bool(sub['shuffled'][0])), sb=sb)
    nbin = NativeBinner()
    for sub in cases:
        eval_native(ctx, sub, nbin=nbin)


# ----------------------------------------------------------------------------------------------- evaluation
def as2d(x):
    x = np.asarray(x, float)
    return x.reshape(1, -1) if x.ndim == 1 else x


def oracle(lo, hi, spec2, err2, a, b):
    """independent statement of the property: overlap-weighted mean over all native bins"""
    ov = np.maximum(0.0, np.minimum(b, hi) - np.maximum(lo, a))
    S = float(ov.sum())
    if S <= 0:
        return ov, S, None, None
    val = (ov * spec2).sum(axis=-1) / S
    q = None if err2 is None else np.sqrt((ov * ov * err2 * err2).sum(axis=-1)) / S
    return ov, S, val, q


def tmode_tokens(c):
    if c['tmode'] == 'none':
        return [C.N(0)]
    if c['tmode'] == 'scalar':
        return [C.N(1), C.F(c['tw'])]
    return [C.N(2)]


def typed(c, name, x):
    """array as handed to the real code: int64 where the case asks for an integer-dtype input"""
    x = np.asarray(x, float)
    if name in (c.get('ints') or ()):
        xi = x.astype(np.int64)
        assert np.array_equal(xi, x)
        return xi
    return x


def make_binner(c):
    from taurex.binning import FluxBinner
    tw = c['tw']
    tw = None if tw is None else (float(tw) if c['tmode'] == 'scalar' else np.asarray(tw, float))
    return FluxBinner(typed(c, 'target', c['tc']), tw)


def run_flux(c, fb=None):
    """the real code (on a fresh binner, or on the binner `fb` that has already been used on other grids)"""
    if fb is None:
        fb = make_binner(c)
    nw = c['nw']
    if nw is not None:
        nw = np.asarray(nw, float)
        if c.get('scalar_native'):
            nw = float(nw[0])
    err = None if c['err'] is None else np.asarray(c['err'], float)
    if c.get('via_bin_model') and nw is None and err is None:
        g, b, e, w = fb.bin_model((typed(c, 'native', c['nc']), typed(c, 'spec', c['spec']), None, None))
        return fb, (g, b, e, w)
    out = fb.bindown(typed(c, 'native', c['nc']), typed(c, 'spec', c['spec']), grid_width=nw, error=err)
    return fb, out


def eval_flux(ctx, c, fb=None):
    nc = np.asarray(c['nc'], float)
    nw = None if c['nw'] is None else np.asarray(c['nw'], float)
    spec = np.asarray(c['spec'], float)
    err = None if c['err'] is None else np.asarray(c['err'], float)
    tc = np.asarray(c['tc'], float)
    small = dict(nkind=c['nkind'], tkinds=c['tkinds'], tmode=c['tmode'], nd=c['nd'], n=len(nc), m=len(tc),
                 shuffled=c['shuffled'], has_err=err is not None, explicit=nw is not None)
    full = dict(c)
    try:
        reused = fb is not None
        fb, (g, binned, berr, gw) = run_flux(c, fb)
    except Exception as e:
        ctx.violation('flux-raises:' + c['nkind'], 'FluxBinner raised %r inside the quantified domain' % (e,), full)
        return
    g = np.asarray(g, float)
    gw = np.asarray(gw, float)
    spec2, err2 = as2d(spec), (None if err is None else as2d(err))
    binned2 = as2d(binned)
    berr2 = None if berr is None else as2d(berr)
    scale = float(np.max(np.abs(spec2))) if spec2.size else 1.0
    escale = 0.0 if err2 is None else float(np.max(np.abs(err2)))
    # ---- model
    twl = c['tw'] if c['tmode'] == 'array' else []
    d = ctx.model().call('c05.flux', C.N(0 if nw is None else 1), C.L(nc), C.L([] if nw is None else nw),
                         C.LL(spec2.tolist()), C.LL([] if err2 is None else err2.tolist()), *tmode_tokens(c),
                         C.L(tc), C.L(twl))
    mg, mw = np.array(d.list()), np.array(d.list())
    mb = [np.array(x) for x in d.list(d.list)]
    me = [np.array(x) for x in d.list(d.list)]
    m_ordered = d.bool()
    m_sumov = np.array(d.list())
    m_spec = [np.array(x) for x in d.list(d.list)]
    m_quad = [np.array(x) for x in d.list(d.list)]
    # ---- the guard, evaluated independently on the sorted native bins
    order = np.argsort(nc, kind='stable')
    snc = nc[order]
    from taurex.util.util import compute_bin_edges
    snw = compute_bin_edges(snc)[-1] if nw is None else nw[order]
    lo, hi = snc - snw / 2, snc + snw / 2
    distinct = bool(np.all(np.diff(snc) > 0)) and len(np.unique(tc)) == len(tc)
    ordered = bool(np.all(np.diff(lo) >= 0) and np.all(np.diff(hi) >= 0))
    ctx.check_eq('ordered-bins guard (numpy vs model)', ordered, m_ordered, full)
    ctx.check_close('FluxBinner._wngrid vs targetBins', g, mg, full, rel=0, abs_=0)
    ctx.check_close('FluxBinner._wngrid_width vs targetBins', gw, mw, full, rel=1e-15)
    if ordered:
        # on unordered edges np.searchsorted (a bisection) is not the count the model uses: outside the assumption
        for i in range(spec2.shape[0]):
            ctx.check_close('FluxBinner.bindown spectrum vs fluxBindown', binned2[i], mb[i], full, rel=REL,
                            abs_=1e-12 * scale)
        if err2 is not None:
            for i in range(err2.shape[0]):
                ctx.check_close('FluxBinner.bindown error vs fluxBindownErr', berr2[i], me[i], full, rel=REL,
                                abs_=1e-12 * escale)
    if err2 is None and berr is not None:
        ctx.violation('error-invented', 'a binned error was returned although none was given', full)
    judged = ordered and distinct and bool(np.all(snw > 0)) and bool(np.all(gw > 0))
    torder = np.argsort(tc, kind='stable')
    tkinds_sorted = [c['tkinds'][i] for i in torder]
    nontrivial = bool(spec2.max() > spec2.min())
    nb = '2-5' if len(nc) <= 5 else ('6-20' if len(nc) <= 20 else '21-60')
    ctx.case(key=('flux', c['nkind'], tuple(sorted(set(c['tkinds']))), c['tmode'], nw is not None, c['nd'],
                  err is not None, tuple(c['shuffled']), nb) if (nontrivial and judged) else None,
             sample=dict(small, grid=g[:3], impl=binned2[0][:3], model=mb[0][:3]),
             bucket='native:' + c['nkind'])
    for tk in c['tkinds']:
        ctx.bucket('target:' + tk)
    ctx.bucket('tmode:' + c['tmode'])
    ctx.bucket('ndim:%d' % c['nd'])
    ctx.bucket('error:' + ('yes' if err is not None else 'no'))
    ctx.bucket('shuffled-native:' + str(c['shuffled'][0]))
    ctx.bucket('shuffled-target:' + str(c['shuffled'][1]))
    for nm in (c.get('ints') or ()):
        ctx.bucket('int-dtype:' + nm)
    if reused:
        ctx.bucket('reused-binner:' + ('judged' if judged else 'unjudged'))
        if judged:
            # the same call on a freshly built binner: a binner must not remember earlier native grids
            _, (g0, b0, e0, w0) = run_flux(c)
            if not (C.close(np.asarray(g0, float), g, rel=0) and C.close(np.asarray(w0, float), gw, rel=0)
                    and C.close(as2d(b0), binned2, rel=1e-13, abs_=1e-15 * scale)
                    and (berr is None or C.close(as2d(e0), berr2, rel=1e-13, abs_=1e-15 * escale))):
                ctx.violation('reused-binner-differs:' + ('explicit' if nw is not None else 'midpoint'),
                              'a binner that was used on another native grid before gives a different result than a '
                              'fresh binner on the same input (state kept between calls)', full,
                              dict(reused=binned2, fresh=as2d(b0)))

    sspec2 = spec2[:, order]
    serr2 = None if err2 is None else err2[:, order]
    if not judged:
        # malformed stream: recorded, never judged
        dep = False
        for j in range(len(g)):
            a, b = g[j] - gw[j] / 2, g[j] + gw[j] / 2
            ov, S, val, q = oracle(lo, hi, sspec2, serr2, a, b)
            if val is not None and not C.close(binned2[:, j], val, rel=1e-9, abs_=1e-12 * scale):
                dep = True
        ctx.malformed_outcome('%s:%s' % (c['nkind'] if not ordered else 'nonpositive-or-tied',
                                         'departs-from-overlap-mean' if dep else 'agrees-with-overlap-mean'))
        return

    # ---- the property's predicates on the implementation
    for j in range(len(g)):
        a, b = g[j] - gw[j] / 2, g[j] + gw[j] / 2
        ov, S, val, q = oracle(lo, hi, sspec2, serr2, a, b)
        tk = tkinds_sorted[j]
        v = binned2[:, j]
        if S > 0:
            ctx.bucket('bins:overlapping')
            if not C.close(v, val, rel=REL, abs_=1e-12 * scale):
                ctx.violation('not-overlap-mean:' + tk, 'binned value differs from the overlap-weighted mean of the '
                              'native bins', full, dict(bin=j, a=a, b=b, impl=v, spec=val))
            sel = ov > 0
            mn_, mx_ = sspec2[:, sel].min(axis=1), sspec2[:, sel].max(axis=1)
            tol = 1e-12 * scale
            if np.any(v < mn_ - tol - 1e-10 * np.abs(mn_)) or np.any(v > mx_ + tol + 1e-10 * np.abs(mx_)) \
                    or not np.all(np.isfinite(v)):
                ctx.violation('outside-min-max:' + tk, 'binned value not between the smallest and largest overlapping '
                              'native values', full, dict(bin=j, impl=v, lo=mn_, hi=mx_))
            if not C.close(m_sumov[j], S, rel=1e-9):
                ctx.mismatch('sum of overlaps (model vs oracle)', full, dict(bin=j, model=m_sumov[j], oracle=S))
            for i in range(spec2.shape[0]):
                ctx.check_close('overlapMeanSpec (model) vs FluxBinner', v[i], m_spec[i][j], full, rel=REL,
                                abs_=1e-12 * scale)
            if serr2 is not None:
                ev = berr2[:, j]
                if not C.close(ev, q, rel=REL, abs_=1e-12 * escale):
                    ctx.violation('error-not-quadrature:' + tk, 'binned error differs from sqrt(sum w^2 e^2)/sum w',
                                  full, dict(bin=j, impl=ev, spec=q))
                for i in range(serr2.shape[0]):
                    ctx.check_close('quadErrSpec (model) vs FluxBinner', ev[i], m_quad[i][j], full, rel=REL,
                                    abs_=1e-12 * escale)
        else:
            ctx.bucket('bins:no-overlap')
            touching = bool(np.any((hi == a) | (lo == b)))
            where = 'abutting' if touching else ('outside' if (b < lo.min() or a > hi.max()) else 'gap')
            ctx.bucket('bins:no-overlap:' + where)
            # The property speaks about bins that overlap the native grid; for bins strictly outside the native
            # range the code's documented behaviour (skip, leave 0) is judged.  A zero-overlap bin that is not
            # skipped (its edge coincides exactly with a native edge, or it lies in a gap between native bins) is
            # computed as 0/0 by the code: recorded in the evidence, not judged (the property is silent there).
            if where == 'outside' or (where == 'gap'):
                if not np.all(v == 0.0):
                    ctx.violation('zero-overlap-bin-value:' + where,
                                  'a target bin strictly outside every native bin must come out as 0 (it is %s)'
                                  % ('NaN' if np.any(np.isnan(v)) else 'non-zero'), full,
                                  dict(bin=j, a=a, b=b, impl=v))
            else:
                ctx.malformed_outcome('zero-overlap-bin:abutting:value-' + (
                    'nan' if np.any(np.isnan(v)) else ('zero' if np.all(v == 0) else 'nonzero')))
            if berr2 is not None:
                ev = berr2[:, j]
                if where == 'outside':
                    if not np.all(ev == 0.0):
                        ctx.violation('zero-overlap-bin-error:outside',
                                      'the error of a target bin strictly outside the native range must be 0', full,
                                      dict(bin=j, a=a, b=b, impl=ev))
                else:
                    ctx.malformed_outcome('zero-overlap-bin:%s:error-%s' % (where, (
                        'nan' if np.any(np.isnan(ev)) else ('zero' if np.all(ev == 0) else 'nonzero'))))

    # ---- relational predicates on the implementation (fresh calls to the real code)
    from taurex.binning import FluxBinner
    tw_arg = None if c['tw'] is None else (float(c['tw']) if c['tmode'] == 'scalar' else np.asarray(c['tw'], float))
    nw_arg = nw
    if nw is not None and c.get('scalar_native'):
        nw_arg = float(nw[0])
    ok = np.array([oracle(lo, hi, sspec2, None, g[j] - gw[j] / 2, g[j] + gw[j] / 2)[1] > 0 for j in range(len(g))])
    rng = np.random.Generator(np.random.PCG64((int(abs(float(nc.sum())) * 1000) + 7919 * len(nc) + len(tc)) % (1 << 32)))
    # constant preservation
    k0 = 2.5
    bc = np.asarray(FluxBinner(tc, tw_arg).bindown(nc, np.full(len(nc), k0), grid_width=nw_arg)[1])
    if np.any(ok) and not C.close(bc[ok], np.full(int(ok.sum()), k0), rel=1e-12):
        ctx.violation('constant-not-preserved', 'a constant spectrum does not stay constant', full,
                      dict(impl=bc, overlapping=ok))
    # linearity
    x, y = spec2[0], rng.standard_normal(len(nc)) * scale
    al, be = 1.75, -0.5
    fbn = FluxBinner(tc, tw_arg)
    bx = np.asarray(fbn.bindown(nc, x, grid_width=nw_arg)[1])
    by = np.asarray(fbn.bindown(nc, y, grid_width=nw_arg)[1])
    bxy = np.asarray(fbn.bindown(nc, al * x + be * y, grid_width=nw_arg)[1])
    if np.any(ok) and not C.close(bxy[ok], (al * bx + be * by)[ok], rel=1e-9, abs_=1e-11 * scale):
        ctx.violation('not-linear', 'bin(a*x+b*y) != a*bin(x)+b*bin(y)', full,
                      dict(lhs=bxy, rhs=al * bx + be * by, overlapping=ok))
    # order independence (native and target), bin by bin; explicit widths travel with their points
    pn = rng.permutation(len(nc))
    pt = rng.permutation(len(tc))
    tw_p = tw_arg[pt] if isinstance(tw_arg, np.ndarray) else tw_arg
    nw_p = nw_arg[pn] if isinstance(nw_arg, np.ndarray) else nw_arg
    err_p = None if err is None else err[..., pn]
    gp, bp, ep, wp = FluxBinner(tc[pt], tw_p).bindown(nc[pn], spec[..., pn], grid_width=nw_p, error=err_p)
    same = C.close(np.asarray(gp), g, rel=0) and C.close(np.asarray(wp), gw, rel=1e-15)
    bp2 = as2d(bp)
    for j in range(len(g)):
        if ok[j] and not C.close(bp2[:, j], binned2[:, j], rel=1e-12, abs_=1e-14 * scale):
            same = False
        if ok[j] and err is not None and not C.close(as2d(ep)[:, j], berr2[:, j], rel=1e-12, abs_=1e-14 * escale):
            same = False
    if not same:
        ctx.violation('order-dependent:' + ('explicit' if nw is not None else 'midpoint'),
                      'result depends on the order of the native or target points', full,
                      dict(perm_native=pn, perm_target=pt, first=binned2, second=bp2))
    # Binner.bin_model == bindown(model[0], model[1])
    if nw is None and c['nd'] == 1:
        bm = fbn.bin_model((nc, spec, None, None))
        if not C.close(np.asarray(bm[1]), binned2[0], rel=0) or not C.close(np.asarray(bm[0]), g, rel=0):
            ctx.violation('bin-model-differs', 'Binner.bin_model(model) is not bindown(model[0], model[1])', full)


def gen_hist_case(rng, k):
    n = int(rng.integers(4, 80))
    kind = ['linear', 'log', 'nonuniform'][k % 3]
    if kind == 'linear':
        c = rng.uniform(200, 5000) + rng.uniform(0.05, 40) * np.arange(n)
    elif kind == 'log':
        c = rng.uniform(200, 5000) * rng.uniform(1.001, 1.2) ** np.arange(n)
    else:
        c = np.cumsum(10 ** rng.uniform(-1, 1, size=n)) + 300
    ints = list(INT_SETS[(k // 6) % len(INT_SETS)]) if k % 6 == 5 else []
    if 'native' in ints:
        c = (int(rng.integers(200, 5000)) + int(rng.integers(2, 20)) * np.arange(n)).astype(float)
    m = int(rng.integers(2, 9))
    span = c[-1] - c[0]
    tstyle = rng.random()
    if tstyle < 0.6:       # every bin populated: bins coarser than the native spacing, inside the range
        nb = np.sort(rng.choice(c[1:-1], size=min(m, max(2, (n - 2) // 3)), replace=False)) \
            if n >= 8 else np.array([c[0], c[-1]])
        nb = nb + 1e-3 * span * rng.uniform(-1, 1)
    else:                  # arbitrary bins: may be empty (malformed), may reach outside
        nb = np.sort(rng.uniform(c[0] - 0.2 * span, c[-1] + 0.2 * span, size=m))
    nb = np.unique(nb)
    if len(nb) < 2:
        nb = np.array([c[0], c[-1]])
    nd = 1 if rng.random() < 0.5 else 2
    nspec = 1 if nd == 1 else int(rng.integers(1, 4))
    spec = rng.uniform(-1, 1, size=(nspec, n)) * 10 ** rng.uniform(-6, 2)
    if rng.random() < 0.07:
        spec[...] = 0.37
    pn = rng.permutation(n) if rng.random() < 0.5 else np.arange(n)
    if ints:
        # integer-dtype quota: integer-valued native grid / target grid / spectrum
        if 'target' in ints:
            nb = np.unique(np.round(nb))
            if len(nb) < 2:
                nb = np.array([np.floor(c[0]), np.ceil(c[-1]) + 1.0])
        if 'spec' in ints:
            spec = rng.integers(-50, 51, size=spec.shape).astype(float)
    return dict(hist=True, kind=kind, nd=nd, nc=c[pn], spec=spec[:, pn] if nd == 2 else spec[0, pn], nb=nb,
                shuffled=bool(np.any(pn != np.arange(n))), ints=ints)


def eval_hist(ctx, c, sb=None):
    from taurex.binning import SimpleBinner
    nc = np.asarray(c['nc'], float)
    spec = np.asarray(c['spec'], float)
    nb = np.asarray(c['nb'], float)
    full = dict(c)
    spec2 = as2d(spec)
    scale = float(np.max(np.abs(spec2)))
    increasing = bool(np.all(np.diff(nb) > 0))
    try:
        reused = sb is not None
        if sb is None:
            sb = SimpleBinner(typed(c, 'target', nb))
        g, out, e_, w_ = sb.bindown(typed(c, 'native', nc), typed(c, 'spec', spec))
        if reused:
            ctx.bucket('reused-hist-binner')
            out_f = SimpleBinner(nb).bindown(nc, spec)[1]
            if increasing and not C.close(as2d(out_f), as2d(out), rel=1e-13):
                ctx.violation('reused-hist-binner-differs', 'a SimpleBinner used on another native grid before gives a '
                              'different result than a fresh one', full, dict(reused=out, fresh=out_f))
    except Exception as e:
        if increasing:
            ctx.violation('hist-raises', 'SimpleBinner raised %r on an increasing target grid' % (e,), full)
        else:
            ctx.malformed_outcome('hist-unsorted-target:' + type(e).__name__)
        return
    out2 = as2d(out)
    d = ctx.model().call('c05.hist', C.N(0 if spec.ndim == 1 else 1), C.L(nc), C.LL(spec2.tolist()), C.L(nb))
    mo = [np.array(x) for x in d.list(d.list)]
    # edges as the code forms them
    ed = np.concatenate([[nb[0] - (nb[1] - nb[0]) / 2], (nb[1:] + nb[:-1]) / 2, [nb[-1] + (nb[-1] - nb[-2]) / 2]])
    tie = bool(np.any(np.isin(nc, ed)))
    counts = np.array([np.sum((nc > ed[i]) & (nc < ed[i + 1])) for i in range(len(nb))])
    if not increasing or tie or np.any(counts == 0):
        # outside the quantifier: unsorted grid, a native point exactly on a mid-point, or an empty bin (0/0)
        for i in range(spec2.shape[0]):
            ctx.check_close('util.bindown vs histMean (malformed stream)', out2[i], mo[i], full, rel=REL,
                            abs_=1e-12 * scale)
        ctx.malformed_outcome('hist:' + ('unsorted' if not increasing else ('tie' if tie else
                              ('empty-bin:nan' if np.any(np.isnan(out2)) else 'empty-bin:finite'))))
        ctx.case(bucket='hist:malformed')
        return
    ctx.case(key=('hist', c['kind'], c['nd'], c['shuffled'], len(nb)) if spec2.max() > spec2.min() else None,
             sample=dict(kind=c['kind'], n=len(nc), nb=nb, impl=out2[0][:3], model=mo[0][:3]),
             bucket='hist:' + c['kind'])
    ctx.bucket('hist-ndim:%d' % spec.ndim)
    for nm in (c.get('ints') or ()):
        ctx.bucket('hist-int-dtype:' + nm)
    for i in range(spec2.shape[0]):
        ctx.check_close('util.bindown vs histMean', out2[i], mo[i], full, rel=REL, abs_=1e-12 * scale)
    if not C.close(np.asarray(g), nb, rel=0):
        ctx.violation('hist-grid', 'SimpleBinner does not return its target grid', full)
    for j in range(len(nb)):
        sel = (nc > ed[j]) & (nc < ed[j + 1])
        mean = spec2[:, sel].mean(axis=1)
        if not C.close(out2[:, j], mean, rel=REL, abs_=1e-12 * scale):
            ctx.violation('hist-not-plain-mean', 'histogram binner differs from the plain mean of the native points '
                          'between the bin mid-points', full, dict(bin=j, impl=out2[:, j], spec=mean))


def eval_native(ctx, c, nbin=None):
    from taurex.binning import NativeBinner
    nc = np.asarray(c['nc'], float)
    spec = np.asarray(c['spec'], float)
    err = None if c.get('err') is None else np.asarray(c['err'], float)
    nw = None if c.get('nw') is None else np.asarray(c['nw'], float)
    nbin = nbin or NativeBinner()
    g, s, e, w = nbin.bindown(nc, spec, grid_width=nw, error=err)
    d = ctx.model().call('c05.native', C.L(as2d(spec)[0]))
    ctx.check_close('NativeBinner vs nativeBindown', as2d(s)[0], d.list(), c, rel=0)
    ctx.case(bucket='native-binner')
    okk = np.array_equal(g, nc) and np.array_equal(s, spec) and (e is err or np.array_equal(e, err)) \
        and (w is nw or np.array_equal(w, nw))
    if not okk:
        ctx.violation('native-not-identity', 'NativeBinner.bindown changed its input', c)
    bm = nbin.bin_model((nc, spec, None, None))
    if not (np.array_equal(bm[0], nc) and np.array_equal(bm[1], spec)):
        ctx.violation('native-bin-model-not-identity', 'NativeBinner.bin_model changed the model', c)


def eval_edges(ctx, g, as_int=False):
    from taurex.util.util import compute_bin_edges
    e, w = compute_bin_edges(np.asarray(g, float).astype(np.int64) if as_int else np.asarray(g, float))
    if as_int:
        ctx.bucket('edges-int-dtype')
    d = ctx.model().call('c05.edges', C.L(g))
    ctx.check_close('compute_bin_edges edges', e, d.list(), dict(g=g), rel=1e-15)
    ctx.check_close('compute_bin_edges widths', w, d.list(), dict(g=g), rel=1e-15)
    ctx.bucket('edges')
    g = np.asarray(g, float)
    if np.all(np.diff(g) > 0):
        mid = (g[1:] + g[:-1]) / 2
        if not C.close(e[1:-1], mid, rel=1e-14) or not C.close(e[0], g[0] - (g[1] - g[0]) / 2, rel=1e-14) or \
                not C.close(e[-1], g[-1] + (g[-1] - g[-2]) / 2, rel=1e-14) or len(e) != len(g) + 1:
            ctx.violation('edges-not-midpoints', 'compute_bin_edges does not return the mid-points', dict(g=g),
                          dict(edges=e))


# ----------------------------------------------------------------------------------------------- observation route
OBS_ROUTES = ['array4', 'array3', 'observed-file4', 'taurex-hdf5', 'instrument-file', 'observed-file3']
OBS_ORDERS = ['descending', 'ascending', 'shuffled', 'shuffled']
ROUTE_CODE = {'array3': 0, 'observed-file3': 0, 'array4': 1, 'observed-file4': 1, 'taurex-hdf5': 2, 'instrument-file': 3}
_SCRATCH = [None]


def scratch_dir():
    import tempfile
    if _SCRATCH[0] is None:
        _SCRATCH[0] = tempfile.mkdtemp(prefix='verif_c05_')
    return _SCRATCH[0]


def scratch_close():
    import shutil
    if _SCRATCH[0] is not None:
        shutil.rmtree(_SCRATCH[0], ignore_errors=True)
        _SCRATCH[0] = None


def gen_obs_case(rng, k):
    """a binner whose target grid comes from the ROWS OF A FILE.  The bins are drawn in wavenumber like any other target
    grid (gen_targets: inside / narrower / wider / straddling / outside / in a gap / covering), plus broad photometric
    channels (width / centre 0.1 .. 0.5); they are written as file rows in the route's own units, in descending
    (the layout TauREx writes), ascending or shuffled wavelength order."""
    route = OBS_ROUTES[k % len(OBS_ROUTES)]
    order = OBS_ORDERS[(k // len(OBS_ROUTES)) % len(OBS_ORDERS)]
    base = gen_case(rng, k)
    nc = np.asarray(base['nc'], float)
    nw = None if base['nw'] is None else np.asarray(base['nw'], float)
    o = np.argsort(nc)
    tg = gen_targets(rng, nc[o], None if nw is None else nw[o], int(rng.integers(2, 13)))
    tc = np.array([t[0] for t in tg])
    tw = np.array([t[1] for t in tg])
    tkinds = [t[2] for t in tg]
    lo, hi = float(nc.min()), float(nc.max())
    for j in range(len(tc)):
        if rng.random() < 0.25:        # a broad channel inside the native range
            tc[j] = rng.uniform(lo, hi)
            tw[j] = tc[j] * rng.uniform(0.1, 0.5)
            tkinds[j] = 'broad'
    keep = (tc - tw / 2 > 1.0) & (tw > 0)
    _, first = np.unique(np.round(tc, 9), return_index=True)
    keep[np.setdiff1d(np.arange(len(tc)), first)] = False
    tc, tw, tkinds = tc[keep], tw[keep], [tkinds[i] for i in np.flatnonzero(keep)]
    if len(tc) < 2:
        tc = np.array([lo + 0.3 * (hi - lo), lo + 0.7 * (hi - lo)])
        tw = np.array([0.1, 0.25]) * (hi - lo)
        tkinds = ['inside', 'inside']
    m = len(tc)
    # file order: by wavelength = 10000/wavenumber
    desc_wl = np.argsort(tc, kind='stable')                # ascending wavenumber = descending wavelength
    perm = {'descending': desc_wl, 'ascending': desc_wl[::-1], 'shuffled': rng.permutation(m)}[order]
    if order == 'shuffled' and np.array_equal(perm, desc_wl):
        perm = np.roll(perm, 1)
    tc, tw, tkinds = tc[perm], tw[perm], [tkinds[i] for i in perm]
    value = rng.uniform(0.001, 0.03, size=m)
    noise = 10 ** rng.uniform(-5, -3, size=m)
    if route == 'taurex-hdf5':
        rows = np.column_stack([tc, value, noise, tw])                       # (wn, spectrum, noise, wn width)
    else:
        wl = 10000.0 / tc
        rows = np.column_stack([wl, value, noise, tw * wl * wl / 10000.0])   # (wl, value, error, wl width)
    if route in ('array3', 'observed-file3'):
        rows = rows[:, :3]
    return dict(obs=True, route=route, order=order, rows=rows, tkinds=tkinds, nkind=base['nkind'], nd=base['nd'],
                nc=base['nc'], nw=base['nw'], spec=base['spec'], err=base['err'], scalar_native=False,
                shuffled=[base['shuffled'][0], order != 'descending'])


def declared_bins(route, rows):
    """the wavenumber bins the file rows declare (numpy, independent of the package), ascending in wavenumber"""
    rows = np.asarray(rows, float)
    if route == 'taurex-hdf5':
        c, w = rows[:, 0], rows[:, 3]
    else:
        wl = rows[:, 0]
        if rows.shape[1] >= 4:
            ww = rows[:, 3]
        else:
            s = np.sort(wl)[::-1]
            edges = np.concatenate([[s[0] - (s[1] - s[0]) / 2], (s[:-1] + s[1:]) / 2, [s[-1] + (s[-1] - s[-2]) / 2]])
            wmid = np.abs(np.diff(edges))
            ww = np.empty_like(wl)
            ww[np.argsort(wl)[::-1]] = wmid
        c, w = 10000.0 / wl, 10000.0 * ww / (wl * wl)
    o = np.argsort(c, kind='stable')
    return c[o], w[o]


def obs_binner(c):
    """the real objects: returns (callable native -> (grid, binned, error, widths), extra)"""
    import os
    route, rows = c['route'], np.asarray(c['rows'], float)
    if route in ('array3', 'array4'):
        from taurex.data.spectrum.array import ArraySpectrum
        return ArraySpectrum(rows.copy()).create_binner(), None
    d = scratch_dir()
    if route in ('observed-file3', 'observed-file4'):
        from taurex.data.spectrum.observed import ObservedSpectrum
        fn = os.path.join(d, 'obs.dat')
        np.savetxt(fn, rows)
        return ObservedSpectrum(fn).create_binner(), None
    if route == 'taurex-hdf5':
        import h5py
        from taurex.data.spectrum.taurex import TaurexSpectrum
        fn = os.path.join(d, 'taurex_out.h5')
        with h5py.File(fn, 'w') as f:
            g = f.create_group('Output').create_group('Spectra')
            for nm, col in (('instrument_wngrid', 0), ('instrument_spectrum', 1), ('instrument_noise', 2),
                            ('instrument_wnwidth', 3)):
                g.create_dataset(nm, data=rows[:, col])
        return TaurexSpectrum(fn).create_binner(), None
    from taurex.instruments.instrumentfile import InstrumentFile
    fn = os.path.join(d, 'instrument.dat')
    np.savetxt(fn, rows[:, [0, 2, 3]])                     # wavelength, noise, wavelength width
    inst = InstrumentFile(fn)
    return None, inst


def eval_obs(ctx, c):
    route, order = c['route'], c['order']
    rows = np.asarray(c['rows'], float)
    nc = np.asarray(c['nc'], float)
    nw = None if c['nw'] is None else np.asarray(c['nw'], float)
    spec = np.asarray(c['spec'], float)
    err = None if c['err'] is None else np.asarray(c['err'], float)
    full = dict(c)
    inst_noise = None
    try:
        binner, inst = obs_binner(c)
        if inst is not None:
            # the instrument's public entry point: model_noise(model, model_res) bins the model result
            spec1 = as2d(spec)[0]
            g, binned, inst_noise, gw = inst.model_noise(None, model_res=(nc, spec1, None, None))
            spec, err, nw = spec1, None, None
            berr = None
        else:
            g, binned, berr, gw = binner.bindown(nc, spec, grid_width=nw, error=err)
    except Exception as e:
        ctx.violation('observation-route-raises:' + route, 'building / using the binner of an observation raised %r' % (e,),
                      full)
        return
    g, gw = np.asarray(g, float), np.asarray(gw, float)
    spec2, err2 = as2d(spec), (None if err is None else as2d(err))
    binned2 = as2d(binned)
    berr2 = None if berr is None else as2d(berr)
    scale = float(np.max(np.abs(spec2))) if spec2.size else 1.0
    escale = 0.0 if err2 is None else float(np.max(np.abs(err2)))
    # ---- model: the target bins of the route (ObsTargets.routeTargets), then Binning.fluxBindown on them
    rows4 = np.zeros((len(rows), 4))
    rows4[:, :rows.shape[1]] = rows
    d = ctx.model().call('c05.obs', C.N(ROUTE_CODE[route]), C.LL(rows4.tolist()))
    mg, mw, mnoise = np.array(d.list()), np.array(d.list()), np.array(d.list())
    ctx.check_close('observation route: binner grid vs ObsTargets.routeTargets', g, mg, full, rel=1e-13)
    ctx.check_close('observation route: binner widths vs ObsTargets.routeTargets', gw, mw, full, rel=1e-11)
    if inst_noise is not None:
        ctx.check_close('InstrumentFile.model_noise noise vs ObsTargets.instrumentNoise', np.asarray(inst_noise, float),
                        mnoise, full, rel=0, abs_=0)
    d = ctx.model().call('c05.flux', C.N(0 if nw is None else 1), C.L(nc), C.L([] if nw is None else nw),
                         C.LL(spec2.tolist()), C.LL([] if err2 is None else err2.tolist()), C.N(2), C.L(mg), C.L(mw))
    d.list(), d.list()
    mb = [np.array(x) for x in d.list(d.list)]
    me = [np.array(x) for x in d.list(d.list)]
    m_ordered = d.bool()
    # ---- the guard on the native grid (as in eval_flux) and on the declared bins
    from taurex.util.util import compute_bin_edges
    o = np.argsort(nc, kind='stable')
    snc = nc[o]
    snw = compute_bin_edges(snc)[-1] if nw is None else nw[o]
    lo, hi = snc - snw / 2, snc + snw / 2
    ordered = bool(np.all(np.diff(lo) >= 0) and np.all(np.diff(hi) >= 0))
    ctx.check_eq('ordered-bins guard (numpy vs model)', ordered, m_ordered, full)
    dc, dw = declared_bins(route, rows)
    judged = ordered and bool(np.all(np.diff(snc) > 0)) and bool(np.all(snw > 0)) and bool(np.all(dw > 0)) \
        and bool(np.all(np.diff(dc) > 0))
    if ordered and binned2.shape[1] == len(mg):
        for i in range(spec2.shape[0]):
            ctx.check_close('observation route: bindown spectrum vs fluxBindown on routeTargets', binned2[i], mb[i], full,
                            rel=REL, abs_=1e-12 * scale)
        if err2 is not None and berr2 is not None:
            for i in range(err2.shape[0]):
                ctx.check_close('observation route: bindown error vs fluxBindownErr on routeTargets', berr2[i], me[i], full,
                                rel=REL, abs_=1e-12 * escale)
    nontrivial = bool(spec2.max() > spec2.min())
    unequal = bool(len(dw) > 1 and (dw.max() - dw.min()) > 1e-6 * dw.max())
    ctx.case(key=('obs', route, order, c['nkind'], c['nd'], err is not None, nw is not None) if (nontrivial and judged)
             else None, sample=dict(route=route, order=order, rows=rows[:2], grid=g[:3], impl=binned2[0][:3]),
             bucket='obs-route:' + route)
    ctx.bucket('obs-route:%s:%s-rows' % (route, order))
    ctx.bucket('obs-route:widths-' + ('unequal' if unequal else 'equal'))
    if not judged:
        ctx.malformed_outcome('obs-route:native-grid-outside-guard')
        return
    # ---- the property on the real code: the binner's bins are the bins the file declares, and every bin that overlaps
    # the native grid holds the overlap-weighted mean over THAT bin
    if len(g) != len(dc) or not C.close(g, dc, rel=1e-12) or not C.close(gw, dw, rel=1e-9):
        ctx.violation('observation-bins:' + route, 'the binner created from the file does not hold the bins the rows of the '
                      'file declare (centre with the width of its own row)', full,
                      dict(grid=g, widths=gw, declared_centres=dc, declared_widths=dw))
    sspec2 = spec2[:, o]
    serr2 = None if err2 is None else err2[:, o]
    for j in range(min(len(dc), binned2.shape[1])):
        a, b = dc[j] - dw[j] / 2, dc[j] + dw[j] / 2
        ov, S, val, q = oracle(lo, hi, sspec2, serr2, a, b)
        # the bins are re-derived here from the file (not read back from the binner): an edge that coincides with a native
        # edge up to rounding (overlap, or distance from the native range, below 1e-9 of the bin width) is decided by the
        # last bit of the unit conversion - a tie the property does not resolve: counted, not judged
        tie = 1e-9 * (b - a)
        if 0 < S <= tie or (S == 0 and min(abs(a - hi.max()), abs(b - lo.min())) <= tie):
            ctx.bucket('obs-route:bins:edge-tie(not judged)')
            continue
        if S > 0:
            ctx.bucket('obs-route:bins:overlapping')
            if not C.close(binned2[:, j], val, rel=1e-9, abs_=1e-12 * scale):
                ctx.violation('not-overlap-mean:observation-route:' + route, 'the value binned onto an observation bin differs '
                              'from the overlap-weighted mean of the native bins over the bin the file declares', full,
                              dict(bin=j, a=a, b=b, impl=binned2[:, j], spec=val))
                break
            if serr2 is not None and berr2 is not None and not C.close(berr2[:, j], q, rel=1e-9, abs_=1e-12 * escale):
                ctx.violation('error-not-quadrature:observation-route:' + route, 'binned error differs from '
                              'sqrt(sum w^2 e^2)/sum w over the bin the file declares', full,
                              dict(bin=j, impl=berr2[:, j], spec=q))
                break
        elif b < lo.min() or a > hi.max():
            ctx.bucket('obs-route:bins:outside')
            if not np.all(binned2[:, j] == 0.0):
                ctx.violation('zero-overlap-bin-value:observation-route:' + route, 'an observation bin strictly outside the '
                              'native range must come out as 0', full, dict(bin=j, a=a, b=b, impl=binned2[:, j]))
                break


def obs_malformed(ctx):
    """outside the quantifier: an instrument file without a width column (the code's fallback is rejected), a one-row file"""
    import os
    from taurex.instruments.instrumentfile import InstrumentFile
    fn = os.path.join(scratch_dir(), 'instrument2.dat')
    np.savetxt(fn, np.array([[1.0, 1e-4], [2.0, 1e-4], [3.0, 2e-4]]))
    try:
        InstrumentFile(fn)
        ctx.malformed_outcome('instrument-file-2-columns:accepted')
    except Exception as e:
        ctx.malformed_outcome('instrument-file-2-columns:' + type(e).__name__)
    try:
        from taurex.data.spectrum.array import ArraySpectrum
        ArraySpectrum(np.array([[1.0, 0.01, 1e-4]])).create_binner()
        ctx.malformed_outcome('observation-one-row-3-columns:accepted')
    except Exception as e:
        ctx.malformed_outcome('observation-one-row-3-columns:' + type(e).__name__)


def eval_case(ctx, c):
    if c.get('obs'):
        return eval_obs(ctx, c)
    if c.get('hist'):
        return eval_hist(ctx, c)
    if c.get('edges_only'):
        return eval_edges(ctx, c['g'], bool(c.get('as_int')))
    if c.get('reuse'):
        return eval_reuse(ctx, c)
    eval_flux(ctx, c)
    if c.get('native_too'):
        eval_native(ctx, c)


def run(ctx):
    rng = ctx.rng
    for k in range(ctx.n(200, 3000)):
        n = int(rng.integers(2, 30))
        g = np.cumsum(10 ** rng.uniform(-2, 2, size=n)) + rng.uniform(0, 1000)
        if rng.random() < 0.3:
            g = g[::-1].copy()
        if k % 5 == 4:
            g = np.unique(np.round(g))[::(-1 if g[0] > g[-1] else 1)]
            if len(g) < 2:
                continue
            eval_edges(ctx, g, as_int=True)
        else:
            eval_edges(ctx, g)
    nflux = ctx.n(3300, 50000)
    for k in range(nflux):
        c = gen_case(rng, k, ints=INT_SETS[(k // 6) % len(INT_SETS)] if k % 6 == 5 else None)
        c['native_too'] = (k % 10 == 0)
        eval_case(ctx, c)
    for k in range(ctx.n(500, 8000)):
        eval_case(ctx, gen_reuse_case(rng, k))
    try:
        for k in range(ctx.n(600, 9000)):
            eval_case(ctx, gen_obs_case(rng, k))
        obs_malformed(ctx)
    finally:
        scratch_close()
    for k in range(ctx.n(300, 4000)):
        eval_case(ctx, gen_case(rng, k, malformed=True))
    for k in range(ctx.n(900, 15000)):
        eval_case(ctx, gen_hist_case(rng, k))
    # malformed stream: inputs the code rejects
    from taurex.binning import FluxBinner, SimpleBinner
    for k in range(ctx.n(6, 40)):
        c = gen_case(rng, k)
        which = k % 3
        try:
            if which == 0:      # a single native point without widths
                FluxBinner(np.asarray(c['tc']), np.asarray(np.abs(c['tc']) * 0 + 1.0)).bindown(
                    np.asarray(c['nc'])[:1], np.asarray(as2d(c['spec'])[0][:1]))
                ctx.malformed_outcome('one-native-point-no-width:accepted')
            elif which == 1:    # a single target point without widths
                FluxBinner(np.asarray(c['tc'])[:1])
                ctx.malformed_outcome('one-target-point-no-width:accepted')
            else:               # width array of the wrong length
                FluxBinner(np.asarray(c['tc']), np.ones(len(c['tc']) + 1))
                ctx.malformed_outcome('width-length-mismatch:accepted')
        except Exception as e:
            ctx.malformed_outcome(['one-native-point-no-width', 'one-target-point-no-width',
                                   'width-length-mismatch'][which] + ':' + type(e).__name__)
    try:
        SimpleBinner(np.array([3.0, 1.0, 2.0])).bindown(np.arange(10.0), np.arange(10.0))
        ctx.malformed_outcome('hist-unsorted-target:accepted')
    except Exception as e:
        ctx.malformed_outcome('hist-unsorted-target:' + type(e).__name__)


def search(ctx):
    """failing-input search (called when the audit or the correspondence broke and no predicate has failed yet):
    a further, larger stream of judged cases; every case evaluates all the property's predicates on the real code"""
    for k in range(ctx.n(4000, 20000)):
        eval_case(ctx, gen_case(ctx.rng, k))
        if ctx.violations:
            return
    for k in range(ctx.n(1000, 5000)):
        eval_case(ctx, gen_hist_case(ctx.rng, k))
        if ctx.violations:
            return


def replay(ctx, case):
    if isinstance(case.get('case'), dict):      # a replay file written by ./check wraps the input
        case = case['case']
    try:
        eval_case(ctx, case)
    finally:
        scratch_close()
