"""C14 — every supported opacity / CIA / k-table container loads to the same physical table; the cache serves one
object per molecule, loaded once from the configured path; interpolation-mode changes take effect.

One physical table is generated, REAL files of every format are written from it into a scratch directory, the
real caches are pointed at it and `OpacityCache()[mol].opacity(T,P)`, `CIACache()[pair].cia(T,wn)`,
`KTableCache()[mol].opacity(T,P)` are compared (a) with the Lean decoders + C04 interpolation run by driver_c14 on
the same file contents, (b) with an in-memory reference built from the physical table, (c) pairwise across formats.
Random cache histories are run in lockstep on the real OpacityCache and on `CacheSM.step`."""
import os
import re
import json
import pickle
import shutil
import logging
import tempfile
import contextlib
import numpy as np
from harness import common as C

RULE = ('cross-sections: tables 2-5 T x 2-5 P x 1-6 wn (1e-40..1e-18 m2, some zeros), written as pickle (bar), HDF5 '
        '(units Pa/bar/atm/mbar/kPa/hPa/MPa/Torr/mmHg/Ba, .h5/.hdf5), Exo-Transmit text; file names with isotopologue '
        'prefixes and dotted/underscored suffixes; (T,P) interior / outside / node, and on every loaded object (cross-sections and '
        'k-tables, each container and mode) its four corner nodes at the object\'s own axis values: the tabulated value itself; '
        'both interpolation modes. '
        'CIA: pickle .db and HITRAN .cia (single range; per-temperature disjoint ranges with gaps; negative entries). '
        'k-tables: pickle and HDF5 (1-4 g-points). cache: 8-40 op histories over 2-3 directories (one missing) with '
        'pickle/HDF5/Exo files of 3 molecules + a missing one; k-table cache and CIA cache (get / set path, single or list / '
        'add; per directory and pair: no container / .db / .cia / both / several) histories alike; the histories include '
        'configuration by other routes (a parameter file set up with ParameterParser.read + setup_globals carrying path / '
        'xsec_interpolation / xsec_in_memory) and settings taken back (set_interpolation(None), the path key of GlobalCache set '
        'to None); drift stream (48 histories per quick run, cross-section and k-table cache): a served object switched with its '
        'own set_interpolation_mode, GlobalCache()[\'xsec_interpolation\'] written directly, load_opacity(opacity_path=<another '
        'directory holding other tables and an unreadable file>), with three fixed tails (object switched / global key written, '
        'then set_interpolation of the value already stored, then the lookup; a load from the other directory of the '
        'unreadable molecule, then ordinary lookups) - in lockstep with CacheConf.stepY / stepYK; collision partners (pairOne, pairTwo) of every loaded CIA object. distinct non-trivial = distinct (kind, format/unit, '
        'shape, region / history signature) with a non-constant table')
ASSUMPTIONS = ['pickle / h5py / text I/O return the numbers that were written (containers trusted; files are really '
               'written and really read by the repo loaders)',
               'astropy unit factors to Pa (direct and CDS parser) as tabulated in Loaders.unitDirect/unitCds '
               '(validated against astropy on every run)',
               'np.argsort on pairwise distinct keys = the sorting permutation (Loaders.argsort, merge sort)',
               'np.searchsorted on sorted arrays = countP (shared with C04)',
               'hashwn(start,end) (string concatenation) separates the generated wavenumber ranges',
               'glob order inside one class is irrelevant: a molecule is provided by at most one file per class and '
               'directory (pickle vs Exo-Transmit share a priority and are never both given for one molecule); a k-table '
               'molecule by one file per directory; a CIA pair may have any number of containers in the cia_path (the '
               'model lists a directory in the order glob returns it); the property predicates exclude only pairs touched by a '
               '.cia file whose block headers carry another pair name than its file name (lock-step comparison only)',
               'rounding: model on Float vs numpy doubles compared to 1e-9 relative (grids 1e-12); the +1e-60 of the '
               'Exo-Transmit reader is below the absolute floor']

# ----------------------------------------------------------------------------- source tie (harness/translate_py.py)
# The pure logic of the CIA readers (taurex/cia/hitrancia.py, picklecia.py, util.find_closest_pair, util.math.interp_lin_only),
# regenerated as Lean on every run (TaurexModel/Gen/SrcC14.lean) and proved equal to TaurexModel/Loaders.lean / Interp.lean in
# Props/C14Src.lean.  1-D numpy arrays are lists of numbers, 2-D tables lists of rows, `Tsigma` a list of (T, row) pairs.
# `total_index`: subscripts of lists are totalised (`getD`, default 0 / [] / (0, [])) as in the hand-written model; the callers
# only pass indices produced by `searchsorted` / `find_closest_pair` on the same grid.
_HC = 'taurex/cia/hitrancia.py'
_PC = 'taurex/cia/picklecia.py'
_GA = {'self.Tsigma': ('Tsigma', '[(α, [α])]'), 'self.wn': ('wn', '[α]')}


def _g(func, **kw):
    d = dict(module=_HC, cls='HitranCiaGrid', func=func, lean='Grid_' + func, callname='self.' + func, dialect='py',
             attrs=_GA, params={}, total_index=True)
    d.update(kw)
    return d


_CA = {'self._temperature_grid': ('temperature_grid', '[α]'), 'self._xsec_grid': ('xsec_grid', '[[α]]')}


def _c(mod, cls, pre, func, **kw):
    d = dict(module=mod, cls=cls, func=func, lean=pre + func, callname='self.' + func, dialect='py', attrs=_CA, params={},
             total_index=True)
    d.update(kw)
    return d


def _cia(mod, cls, pre):
    return [
        _c(mod, cls, pre, 'temperatureGrid', property=True),
        _c(mod, cls, pre, 'find_closest_temperature_index', params=dict(temperature='α')),
        _c(mod, cls, pre, 'interp_linear_grid', params=dict(T='α', t_idx_min='nat', t_idx_max='nat')),
        _c(mod, cls, pre, 'compute_cia', params=dict(temperature='α')),
    ]


# The opacity cache (taurex/cache/opacitycache.py) against TaurexModel/CacheSM.lean.  O opacity objects (opaque; `moleculeName`),
# K opacity classes (opaque; `c.discover()` reads the file system and the GlobalCache settings; calling a class MAKES an object
# and changes the world: the constructor-call log / object identities), A the argument pack `discover()` yields for a file,
# P paths, I interpolation modes, W the world.  `GlobalCache()[key]` are declared cells (optional: unset keys read as None).
_OC = 'taurex/cache/opacitycache.py'
_GC_PATH, _GC_INT, _GC_MEM = ("GlobalCache()['xsec_path']", "GlobalCache()['xsec_interpolation']",
                              "GlobalCache()['xsec_in_memory']")
_CTV = {'O': '', 'A': '', 'P': '', 'I': '', 'W': '', 'K': dict(call=('make', ['$A'], '$O'), lean='construct')}
_CAT = {'self.opacity_dict': ('opacity_dict', '{str: $O}'), _GC_PATH: ('xsec_path', '?$P'), _GC_INT: ('xsec_interp', '?$I'),
        _GC_MEM: ('xsec_mem', '?bool'), 'KTableCache().opacity_dict': ('ktable_dict', '{str: $O}'),
        'KTableCache()._opacity_path': ('ktable_opacity_path', '?$P'), "GlobalCache()['ktable_path']": ('ktable_path', '?$P')}
_CLOG = r'^self\.log\.(debug|info|warning|error|critical)\('


def _oc(func, **kw):
    d = dict(module=_OC, cls='OpacityCache', func=func, lean='OpacityCache_' + func.strip('_'), callname='self.' + func,
             dialect='py', tvars=_CTV, attrs=_CAT, params={}, world=('w', 'W'), ignore_calls=_CLOG,
             obj_attrs={'O': {'moleculeName': dict(lean='moleculeName', ty='str')}},
             obj_methods={'K': {'discover': dict(lean='discover', args=[], ret='[(str, $A)]', world='read',
                                                 reads=[_GC_PATH, _GC_INT, _GC_MEM])}},
             externals={'os.path.isdir()': dict(lean='isdir', args=['$P'], ret='bool', world='read')})
    d.update(kw)
    return d


_CACHE_SPECS = [
    dict(module='taurex/cache/ktablecache.py', cls='KTableCache', func='clear_cache', lean='KTableCache_clear_cache',
         callname='KTableCache.clear_cache', dialect='py', tvars=_CTV, params={},
         attrs={'self.opacity_dict': ('ktable_dict', '{str: $O}'), 'self._opacity_path': ('ktable_opacity_path', '?$P'),
                "GlobalCache()['ktable_path']": ('ktable_path', '?$P')},
         state=['self.opacity_dict', 'self._opacity_path']),
    _oc('clear_cache', state=['self.opacity_dict']),
    _oc('set_interpolation', params=dict(interpolation_mode='$I'),
        state=[_GC_INT, 'self.opacity_dict', 'KTableCache().opacity_dict', 'KTableCache()._opacity_path'],
        calls={'KTableCache().clear_cache': 'KTableCache.clear_cache'}),
    _oc('set_memory_mode', params=dict(in_memory='bool'), state=[_GC_MEM, 'self.opacity_dict']),
    _oc('set_opacity_path', params=dict(opacity_path='$P'), state=[_GC_PATH]),
    _oc('add_opacity', params=dict(opacity='$O', molecule_filter='?[str]'), state=['self.opacity_dict']),
    _oc('load_opacity_from_path', params=dict(path='?$P', molecule_filter='[str]'), state=['self.opacity_dict'],
        writes_world=True,
        # `cf.opacityKlasses` sorted by priority: the list of classes in visiting order is a parameter
        expr_externals={'sorted(cf.opacityKlasses, key=lambda x: x.priority())': dict(lean='klass_list', ty='[$K]')},
        # set-up of the class factory; normalisation of the argument pack before `c(*args)` (a non-sequence is passed as the
        # single argument): the constructor is a function of what discover() yielded either way
        ignore_stmts=[r'cf = ClassFactory\(\)', r'if not isinstance\(args, \(list, tuple\)\):\s+args = \[args\]']),
    _oc('load_opacity', params=dict(opacities='unit', opacity_path='unit', molecule_filter='[str]'),
        state=['self.opacity_dict'], writes_world=True),
    _oc('__getitem__', params=dict(key='str'), state=['self.opacity_dict'], writes_world=True),
]

# The k-table cache (taurex/cache/ktablecache.py) against the k-table variant of TaurexModel/CacheSM.lean (`stepK`): same
# reading as above with dict = KTableCache().opacity_dict, path = GlobalCache()['ktable_path'] (what the k-table classes'
# `discover()` read; `self._opacity_path` is handed to load_opacity_from_path, which does not use it).  `c.discover()` may
# raise here (the loop catches NotImplementedError and goes on with the next class).
_KC = 'taurex/cache/ktablecache.py'
_GC_KPATH = "GlobalCache()['ktable_path']"
_KAT = {'self.opacity_dict': ('opacity_dict', '{str: $O}'), 'self._opacity_path': ('opacity_path_attr', '?$P'),
        _GC_KPATH: ('ktable_path', '?$P'), _GC_INT: ('xsec_interp', '?$I')}


def _kc(func, **kw):
    d = dict(module=_KC, cls='KTableCache', func=func, lean='KTableCache_' + func.strip('_'), callname='KTableCache.' + func,
             dialect='py', tvars=_CTV, attrs=_KAT, params={}, world=('w', 'W'), ignore_calls=_CLOG,
             obj_attrs={'O': {'moleculeName': dict(lean='moleculeName', ty='str')}},
             obj_methods={'K': {'discover': dict(lean='klass_discover', args=[], ret='[(str, $A)]', world='read', raises=True,
                                                 reads=[_GC_KPATH, _GC_INT])}},
             externals={'os.path.isdir()': dict(lean='isdir', args=['$P'], ret='bool', world='read')},
             calls={'self.add_opacity': 'KTableCache.add_opacity', 'self.load_opacity': 'KTableCache.load_opacity',
                    'self.load_opacity_from_path': 'KTableCache.load_opacity_from_path'})
    d.update(kw)
    return d


_KCACHE_SPECS = [
    _kc('set_ktable_path', params=dict(opacity_path='$P'), state=[_GC_KPATH]),
    _kc('add_opacity', params=dict(opacity='$O', molecule_filter='?[str]'), state=['self.opacity_dict']),
    _kc('load_opacity_from_path', params=dict(path='?$P', molecule_filter='[str]'), state=['self.opacity_dict'],
        writes_world=True,
        expr_externals={'sorted(cf.ktableKlasses, key=lambda x: x.priority())': dict(lean='klass_list', ty='[$K]')},
        ignore_stmts=[r'cf = ClassFactory\(\)', r'if not isinstance\(args, \(list, tuple\)\):\s+args = \[args\]']),
    _kc('load_opacity', params=dict(opacities='unit', opacity_path='unit', molecule_filter='[str]'),
        state=['self.opacity_dict'], writes_world=True),
    _kc('__getitem__', params=dict(key='str'), state=['self.opacity_dict'], writes_world=True),
]

# The CIA cache (taurex/cache/ciaacache.py) against `CiaSM` of TaurexModel/CacheSM.lean.  C the CIA objects (opaque; `pairName`),
# P what `_cia_path` holds (a directory or a list of directories: `isinstance(·, str)`, `isinstance(·, (list,))` and the
# iteration over it are function parameters), G a glob pattern, KP / KH the classes PickleCIA / HitranCIA
# (calling one MAKES an object and changes the world), F the file names `glob` returns (`Path(f).stem` is a parameter).
_CC = 'taurex/cache/ciaacache.py'
_CCTV = {'C': '', 'P': dict(iter=('path_items', '$P')), 'G': '', 'F': '', 'W': '',
         'KP': dict(call=('make', ['$F', 'str'], '$C'), lean='construct_pickle'),
         'KH': dict(call=('make', ['$F'], '$C'), lean='construct_hitran')}
_CCAT = {'self.cia_dict': ('cia_dict', '{str: $C}'), 'self._cia_path': ('cia_path_attr', '?$P'),
         # the classes the function imports
         'PickleCIA': ('PickleCIA_cls', '$KP'), 'HitranCIA': ('HitranCIA_cls', '$KH')}


def _cc(func, lean=None, **kw):
    d = dict(module=_CC, cls='CIACache', func=func, lean=lean or 'CIACache_' + func.strip('_'),
             callname='CIACache.' + (lean or func), dialect='py', tvars=_CCTV, attrs=_CCAT, params={}, world=('w', 'W'),
             ignore_calls=_CLOG, total_index=True, obj_attrs={'C': {'pairName': dict(lean='pairName', ty='str')}},
             externals={'os.path.join()': dict(lean='path_join', args=['$P', 'str'], ret='$G'),
                        'glob()': dict(lean='glob', args=['$G'], ret='[$F]', world='read')},
             pattern_externals=[dict(rx=r"Path\((?P<a0>\w+)\)\.stem", lean='path_stem', args=['$F'], ret='str'),
                                dict(rx=r"isinstance\((?P<a0>\w+), str\)", lean='is_str', args=['$P'], ret='bool'),
                                dict(rx=r"isinstance\((?P<a0>\w+), \(list,\)\)", lean='is_list', args=['$P'], ret='bool')])
    d.update(kw)
    return d


_CIACACHE_SPECS = [
    _cc('set_cia_path', params=dict(cia_path='$P'), state=['self._cia_path']),
    # add_cia(cia) as load_cia_from_path and a user call it (no filter), and add_cia(cia, pair_filter=[...])
    _cc('add_cia', params=dict(cia='$C', pair_filter='unit'), state=['self.cia_dict']),
    _cc('add_cia', lean='CIACache_add_cia_filtered', params=dict(cia='$C', pair_filter='[str]'), state=['self.cia_dict']),
    _cc('load_cia_from_path', params=dict(path='$P', pair_filter='?[str]'), state=['self.cia_dict'], writes_world=True,
        calls={'self.add_cia': 'CIACache.add_cia'}),
    _cc('load_cia', params=dict(cia_xsec='unit', cia_path='unit', pair_filter='?[str]'), state=['self.cia_dict'],
        writes_world=True,
        calls={'self.load_cia_from_path': 'CIACache.load_cia_from_path'}),
    _cc('__getitem__', params=dict(key='str'), state=['self.cia_dict'], writes_world=True,
        calls={'self.load_cia': 'CIACache.load_cia'}),
]

# The assignments of the file readers that turn container contents into the loaded table (unit conversions, axes): the I/O
# before `start_at` fills the declared cells `self._spec_dict[...]` and is not translated; neither is what follows `stop_at`
# (resolution, molecule name, min/max bookkeeping).
_T3, _T4 = '[[[α]]]', '[[[[α]]]]'


def _cell(k, ty, pre='f_'):
    return {"self._spec_dict['%s']" % k: (pre + k, ty)}


def _loader(mod, cls, func, lean, cells, state, start, stop, **kw):
    attrs = {}
    for c in cells:
        attrs.update(c)
    attrs.update({k: (k.replace('self._', ''), t) for k, t in state})
    d = dict(module=mod, cls=cls, func=func, lean=lean, dialect='py', params=dict(filename='skip'), attrs=attrs,
             state=[k for k, _ in state], start_at=start, stop_at=stop)
    d.update(kw)
    return d


_XS = [('self._wavenumber_grid', '[α]'), ('self._temperature_grid', '[α]'), ('self._pressure_grid', '[α]'),
       ('self._xsec_grid', _T3)]
_KS = [('self._wavenumber_grid', '[α]'), ('self._ngauss', 'nat'), ('self._temperature_grid', '[α]'),
       ('self._pressure_grid', '[α]'), ('self._xsec_grid', _T4), ('self._weights', '[α]')]
_UNIT_EXT = [dict(rx=r"u\.Unit\((?P<a0>\w+)\)\.to\(u\.Pa\)", lean='unit_to_pa', args=['str'], ret='α', raises=True),
             dict(rx=r"u\.Unit\((?P<a0>\w+), format='cds'\)\.to\(u\.Pa\)", lean='unit_to_pa_cds', args=['str'], ret='α',
                  raises=True)]
_UNITS_CELL = {"self._spec_dict['p'].attrs['units']": ('f_p_units', 'str')}
_LOADER_SPECS = [
    _loader('taurex/opacity/pickleopacity.py', 'PickleOpacity', '_load_pickle_file', 'PickleOpacity_load',
            [_cell('wno', '[α]'), _cell('t', '[α]'), _cell('p', '[α]'), _cell('xsecarr', _T3)], _XS,
            r"self\._wavenumber_grid = self\._spec_dict\['wno'\]", r"self\._xsec_grid = allocate_as_shared\(.*\)",
            pattern_externals=[dict(rx=r"allocate_as_shared\((?P<a0>.+), logger=self\)", lean='allocate_as_shared',
                                    args=[_T3], ret=_T3)]),
    _loader('taurex/opacity/hdf5opacity.py', 'HDF5Opacity', '_load_hdf_file', 'HDF5Opacity_load',
            [_cell('bin_edges', '[α]'), _cell('t', '[α]'), _cell('p', '[α]'), _cell('xsecarr', _T3), _UNITS_CELL,
             {'self.in_memory': ('in_memory', 'bool')}], _XS,
            r"self\._wavenumber_grid = self\._spec_dict\['bin_edges'\]\[:\]", r"if self\.in_memory:\s+self\._xsec_grid = .*",
            pattern_externals=_UNIT_EXT + [dict(rx=r"allocate_as_shared\((?P<a0>.+), logger=self\)",
                                                lean='allocate_as_shared', args=[_T3], ret=_T3)]),
    _loader('taurex/opacity/ktables/picklektable.py', 'PickleKTable', '_load_pickle_file', 'PickleKTable_load',
            [_cell('bin_centers', '[α]'), _cell('ngauss', 'nat'), _cell('t', '[α]'), _cell('p', '[α]'), _cell('kcoeff', _T4),
             _cell('weights', '[α]')], _KS,
            r"self\._wavenumber_grid = self\._spec_dict\['bin_centers'\]", r"self\._weights = self\._spec_dict\['weights'\]"),
    _loader('taurex/opacity/ktables/hdfktable.py', 'HDF5KTable', '_load_pickle_file', 'HDF5KTable_load',
            [_cell('bin_centers', '[α]'), _cell('ngauss', 'nat'), _cell('t', '[α]'), _cell('p', '[α]'), _cell('kcoeff', _T4),
             _cell('weights', '[α]'), _UNITS_CELL, {'self.in_memory': ('in_memory', 'bool')}], _KS,
            r"self\._wavenumber_grid = self\._spec_dict\['bin_centers'\]\[\.\.\.\]\.astype\(np\.float64\)",
            r"self\._weights = self\._spec_dict\['weights'\].*", pattern_externals=_UNIT_EXT),
    _loader('taurex/cia/picklecia.py', 'PickleCIA', '_load_pickle_file', 'PickleCIA_load',
            [_cell('wno', '[α]'), _cell('t', '[α]'), _cell('xsecarr', '[[α]]')],
            [('self._wavenumber_grid', '[α]'), ('self._temperature_grid', '[α]'), ('self._xsec_grid', '[[α]]')],
            r"self\._wavenumber_grid = self\._spec_dict\['wno'\]", r"self\._xsec_grid = self\._spec_dict\['xsecarr'\]"),
]

# HitranCIA: the grid objects of `_wn_dict` are records (wn, Tsigma) of the class HitranCiaGrid translated above
_HREC = {'Grid': dict(fields=[('wn', '[α]'), ('Tsigma', '[(α, [α])]')],
                      methods={'sortTempSigma': 'self.sortTempSigma', 'fill_temperature': 'self.fill_temperature'})}
_HAT = {'self._wn_dict': ('wn_dict', '{str: rec:Grid}'), 'self._wavenumber_grid': ('wavenumber_grid', '[α]'),
        'self._temperature_grid': ('temperature_grid', '[α]'), 'self._xsec_grid': ('xsec_grid', '[[α]]')}
_HITRAN_SPECS = [
    dict(module=_HC, cls='HitranCIA', func='fill_gaps', lean='HitranCIA_fill_gaps', callname='HitranCIA.fill_gaps', dialect='py', records=_HREC, attrs=_HAT,
         params=dict(temperature='[α]'), state=['self._wn_dict'], total_index=True),
    dict(module=_HC, cls='HitranCIA', func='compute_final_grid', lean='HitranCIA_compute_final_grid',
         callname='HitranCIA.compute_final_grid', dialect='py',
         records=_HREC, attrs=_HAT, params={}, state=['self._wavenumber_grid', 'self._xsec_grid'], total_index=True,
         externals={'np.argsort()': dict(lean='np_argsort', args=['[α]'], ret='[nat]')}),
    # the end of load_hitran_file, after the reading loop has filled `temp_list` and `_wn_dict`
    dict(module=_HC, cls='HitranCIA', func='load_hitran_file', lean='HitranCIA_load_tail', dialect='py', records=_HREC,
         attrs=_HAT, params=dict(filename='skip'), free_locals={'temp_list': '[α]'}, start_at=r'temp_list\.sort\(\)',
         state=['self._temperature_grid', 'self._wn_dict', 'self._wavenumber_grid', 'self._xsec_grid'], total_index=True,
         externals={'np.argsort()': dict(lean='np_argsort', args=['[α]'], ret='[nat]')},
         calls={'self.fill_gaps': 'HitranCIA.fill_gaps', 'self.compute_final_grid': 'HitranCIA.compute_final_grid'}),
]

# The Exo-Transmit text reader after `lines = f.readlines()`: `lines` (the text lines) is a parameter, so are `float`-parsing a
# line (`np.array([float(l) for l in X.split()])`: `parse_floats`), `np.empty` (an array of that shape with unspecified
# content) and `argsort`.  Block splitting, counters, the stores into the 3-D table, the re-ordering along the wavenumber
# axis and the unit factors are translated.
_EX = 'taurex/opacity/exotransmit.py'
_EXA = {'self._temperature_grid': ('temperature_grid', '[α]'), 'self._pressure_grid': ('pressure_grid', '[α]'),
        'self._wavenumber_grid': ('wavenumber_grid', '[α]'), 'self._xsec_grid': ('xsec_grid', _T3),
        'self._min_pressure': ('min_pressure', 'α'), 'self._max_pressure': ('max_pressure', 'α'),
        'self._min_temperature': ('min_temperature', 'α'), 'self._max_temperature': ('max_temperature', 'α')}
_EXO_PARSE = [dict(rx=r"np\.array\(\[float\(l\) for l in (?P<a0>[\w\[\]]+)\.split\(\)\]\)", lean='parse_floats', args=['str'],
                   ret='[α]'),
              dict(rx=r"(?P<a0>\w+)\.argsort\(\)", lean='np_argsort', args=['[α]'], ret='[nat]')]


def _exo_prop(name, cell):
    return dict(module=_EX, cls='ExoTransmitOpacity', func=name, lean='ExoTransmit_' + name, callname='self.' + name,
                dialect='py', attrs={cell: _EXA[cell]}, params={}, property=True)


_EXO_SPECS = [
    _exo_prop('wavenumberGrid', 'self._wavenumber_grid'),
    _exo_prop('temperatureGrid', 'self._temperature_grid'),
    _exo_prop('pressureGrid', 'self._pressure_grid'),
    dict(module=_EX, cls='ExoTransmitOpacity', func='_load_exo_transmit', lean='ExoTransmit_load', dialect='py', attrs=_EXA,
         params=dict(filename='skip'), free_locals={'lines': '[str]'}, total_index=True,
         start_at=r"self\._temperature_grid = np\.array\(.*\)",
         state=['self._temperature_grid', 'self._pressure_grid', 'self._wavenumber_grid', 'self._xsec_grid',
                'self._min_pressure', 'self._max_pressure', 'self._min_temperature', 'self._max_temperature'],
         pattern_externals=_EXO_PARSE,
         externals={'np.empty(shape=)': dict(lean='np_empty3', args=['(nat, nat, nat)'], ret=_T3)}),
]

# The whole of HitranCIA.load_hitran_file, reading loop included: the open file is the list of its lines (`streams`; the
# declared expression `open(filename, 'r')`), `f.readline()` takes the next one ('' at the end); `line.split()`, `float`, `int`
# on the tokens and `hashwn` are function parameters, `HitranCiaGrid(a, b)` a parameter that makes a grid object; the grid object
# looked up in `_wn_dict` IS the dict's element (`element_views`).  `while True` is `Py.whileE fuel` (one pass per block).
_HTOK = [dict(rx=r"(?P<a0>\w+)\.split\(\)", lean='split_ws', args=['str'], ret='[str]'),
         dict(rx=r"HitranCiaGrid\((?P<a0>\w+), (?P<a1>\w+)\)", lean='new_grid', args=['α', 'α'], ret='rec:Grid')]
_HEXT = {'float()': dict(lean='to_float', args=['str'], ret='α'), 'int()': dict(lean='to_int', args=['str'], ret='nat'),
         'hashwn()': dict(lean='hashwn', args=['α', 'α'], ret='str'),
         'np.argsort()': dict(lean='np_argsort', args=['[α]'], ret='[nat]')}
_HAT2 = dict(_HAT, **{'self._pair_name': ('pair_name', 'str')})
_HREC2 = {'Grid': dict(fields=[('wn', '[α]'), ('Tsigma', '[(α, [α])]')],
                       methods={'sortTempSigma': 'self.sortTempSigma', 'fill_temperature': 'self.fill_temperature',
                                'add_temperature': 'self.add_temperature'})}
_HREAD_SPECS = [
    dict(module=_HC, cls='HitranCIA', func='read_header', lean='HitranCIA_read_header', callname='HitranCIA.read_header',
         dialect='py', attrs=_HAT2, params=dict(f='[str]'), mutates=['f'], streams=['f'], state=['self._pair_name'],
         total_index=True, externals=_HEXT, pattern_externals=_HTOK),
    dict(module=_HC, cls='HitranCIA', func='load_hitran_file', lean='HitranCIA_load_hitran_file', dialect='py', records=_HREC2,
         attrs=_HAT2, params=dict(filename='skip'), streams=['f'], element_views=True, total_index=True,
         expr_externals={"open(filename, 'r')": dict(lean='file_lines', ty='[str]')},
         state=['self._pair_name', 'self._temperature_grid', 'self._wn_dict', 'self._wavenumber_grid', 'self._xsec_grid'],
         externals=_HEXT, pattern_externals=_HTOK,
         calls={'self.read_header': 'HitranCIA.read_header', 'self.fill_gaps': 'HitranCIA.fill_gaps',
                'self.compute_final_grid': 'HitranCIA.compute_final_grid'}),
]

# Molecule names: which part of the file name (or of the stored name) becomes `moleculeName`, against TaurexModel/Sanitize.lean.
# `pathlib.Path(x).stem` and `sanitize_molecule_string` (a regular expression) are function parameters.
_NM = {'self._molecule_name': ('molecule_name', 'str')}
_STEM = dict(rx=r"pathlib\.Path\((?P<a0>\w+)\)\.stem", lean='path_stem', args=['str'], ret='str')
_SAN = {'sanitize_molecule_string()': dict(lean='sanitize', args=['str'], ret='str')}
_SETNAME = r"self\._molecule_name = sanitize_molecule_string\(.*\)"
_DISC = dict(free_locals={'files': '[str]'}, start_at=r"discovery = \[\]", params=dict(cls='skip'), total_index=True,
             attrs={"GlobalCache()['xsec_interpolation']": ('xsec_interp', '?str')}, externals=_SAN, pattern_externals=[_STEM])


def _names(mod, cls, pre):
    return [
        dict(module=mod, cls=cls, func='moleculeName', lean=pre + 'moleculeName', callname='self.moleculeName', dialect='py',
             attrs=_NM, params={}, property=True),
        dict(module=mod, cls=cls, func='clean_molecule_name', lean=pre + 'clean_molecule_name', dialect='py', attrs=_NM,
             params={}, state=['self._molecule_name'], total_index=True),
    ]


_PO, _EX, _PK, _HK = ('taurex/opacity/pickleopacity.py', 'taurex/opacity/exotransmit.py',
                      'taurex/opacity/ktables/picklektable.py', 'taurex/opacity/ktables/hdfktable.py')
_NAME_SPECS = _names(_PO, 'PickleOpacity', 'PickleOpacity_') + [
    dict(module=_PO, cls='PickleOpacity', func='_load_pickle_file', lean='PickleOpacity_name', dialect='py', attrs=_NM,
         params=dict(filename='str'), state=['self._molecule_name'], total_index=True, externals=_SAN,
         pattern_externals=[_STEM], start_at=r"splits = pathlib\.Path\(filename\)\.stem\.split\('\.'\)",
         stop_at=r"self\._molecule_name = mol_name"),
    dict(module=_PO, cls='PickleOpacity', func='discover', lean='PickleOpacity_discover', dialect='py', **_DISC),
    dict(module=_EX, cls='ExoTransmitOpacity', func='__init__', lean='ExoTransmit_name', dialect='py', attrs=_NM,
         params=dict(filename='str', interpolation_mode='skip'), state=['self._molecule_name'], externals=_SAN,
         pattern_externals=[_STEM], start_at=_SETNAME, stop_at=_SETNAME),
    dict(module=_EX, cls='ExoTransmitOpacity', func='discover', lean='ExoTransmit_discover', dialect='py', **_DISC),
] + _names(_HK, 'HDF5KTable', 'HDF5KTable_') + [
    dict(module=_HK, cls='HDF5KTable', func='__init__', lean='HDF5KTable_name', dialect='py', attrs=_NM,
         params=dict(filename='str', interpolation_mode='skip', in_memory='skip'), state=['self._molecule_name'],
         # (the assignment is written twice, before and after super().__init__: the second one is what remains)
         total_index=True, externals=_SAN, pattern_externals=[_STEM], start_at=(_SETNAME, -1), stop_at=_SETNAME),
    dict(module=_HK, cls='HDF5KTable', func='discover', lean='HDF5KTable_discover', dialect='py', **_DISC),
] + _names(_PK, 'PickleKTable', 'PickleKTable_') + [
    dict(module=_PK, cls='PickleKTable', func='_load_pickle_file', lean='PickleKTable_name', dialect='py',
         attrs=dict(_NM, **{"self._spec_dict['name']": ('f_name', 'str')}), params=dict(filename='skip'),
         state=['self._molecule_name'], start_at=r"self\._molecule_name = self\._spec_dict\['name'\]",
         stop_at=r"self\._molecule_name = self\._spec_dict\['name'\]"),
    dict(module=_PK, cls='PickleKTable', func='discover', lean='PickleKTable_discover', dialect='py', **_DISC),
]

SRC_SPECS = [
    dict(module='taurex/util/math.py', func='interp_lin_only', lean='interp_lin_only',
         params=dict(x11='elem', x12='elem', P='s', Pmin='s', Pmax='s')),
    dict(module='taurex/util/util.py', func='find_closest_pair', lean='find_closest_pair', callname='find_closest_pair',
         dialect='py', params=dict(arr='[α]', value='α')),
    _g('add_temperature', params=dict(T='α', sigma='[α]'), state=['self.Tsigma']),
    _g('temperature', property=True),
    _g('sigma', property=True),
    _g('find_closest_temperature_index', params=dict(temperature='α')),
    _g('interp_linear_grid', params=dict(T='α', t_idx_min='nat', t_idx_max='nat')),
    _g('sortTempSigma', state=['self.Tsigma']),
    _g('fill_temperature', params=dict(temperatures='[α]'), state=['self.Tsigma']),
] + _cia(_PC, 'PickleCIA', 'PickleCIA_') + _cia(_HC, 'HitranCIA', 'HitranCIA_') + _CACHE_SPECS + _LOADER_SPECS + _HITRAN_SPECS + _NAME_SPECS + _KCACHE_SPECS + _CIACACHE_SPECS + _EXO_SPECS + _HREAD_SPECS

UNITS = {'Pa': 1.0, 'bar': 1e5, 'atm': 101325.0, 'mbar': 100.0, 'kPa': 1000.0, 'hPa': 100.0, 'MPa': 1e6,
         'Torr': 101325.0 / 760.0, 'mmHg': 133.322387415, 'Ba': 0.1}
MOLS = {'H2O': '1H2-16O', 'CH4': '12C-1H4', 'CO2': '12C-16O2', 'NH3': '14N-1H3', 'HCN': '1H-12C-14N',
        'TiO': '48Ti-16O', 'Na': '23Na', 'C2H2': '12C2-1H2', 'He': '4He', 'CO': '12C-16O'}
MODES = ['linear', 'exp']


# ----------------------------------------------------------------------------------------- environment
@contextlib.contextmanager
def scratch_env():
    """scratch directory + saved/restored global state of the taurex caches"""
    from taurex.cache import OpacityCache, CIACache, GlobalCache
    from taurex.cache.ktablecache import KTableCache
    from taurex.log.logger import root_logger
    gc = GlobalCache()
    saved_gc = dict(gc.variable_dict)
    oc, cc, kc = OpacityCache(), CIACache(), KTableCache()
    saved = (oc.opacity_dict, cc.cia_dict, cc._cia_path, kc.opacity_dict, kc._opacity_path, root_logger.level)
    root_logger.setLevel(logging.CRITICAL + 10)
    d = tempfile.mkdtemp(prefix='verif_c14_')
    try:
        yield d
    finally:
        gc.variable_dict = saved_gc
        oc.opacity_dict, cc.cia_dict, cc._cia_path, kc.opacity_dict, kc._opacity_path = saved[:5]
        root_logger.setLevel(saved[5])
        shutil.rmtree(d, ignore_errors=True)


def fresh_dir(root, name):
    p = os.path.join(root, name)
    if os.path.isdir(p):
        shutil.rmtree(p)
    os.makedirs(p)
    return p


# ----------------------------------------------------------------------------------------- writers (= enc*)
def enc_pickle(tab):
    return dict(wno=np.array(tab['wn']), t=np.array(tab['t']), p=np.array(tab['p']) / 1e5, xsecarr=np.array(tab['x']))


def write_pickle(path, tab):
    with open(path, 'wb') as f:
        pickle.dump(enc_pickle(tab), f)


def enc_hdf(tab, unit):
    return dict(bin_edges=np.array(tab['wn']), t=np.array(tab['t']), p=np.array(tab['p']) / UNITS[unit],
                xsecarr=np.array(tab['x']))


def write_hdf(path, tab, unit, mol):
    import h5py
    e = enc_hdf(tab, unit)
    with h5py.File(path, 'w') as f:
        f.create_dataset('bin_edges', data=e['bin_edges'])
        f.create_dataset('t', data=e['t'])
        ds = f.create_dataset('p', data=e['p'])
        ds.attrs['units'] = unit
        f.create_dataset('xsecarr', data=e['xsecarr'])
        f.create_dataset('mol_name', data=mol)


def enc_exo(tab, order=None):
    """trow, prow, body (list of lines, each a list of numbers): rows `P(bar) xsec(T)..` in m2; the wavelength blocks
    in the standard order (wavelengths ascending = wavenumber index descending) or in the given order of indices"""
    wn, t, p, x = (np.array(tab[k], float) for k in ('wn', 't', 'p', 'x'))
    body = []
    for k in (range(len(wn) - 1, -1, -1) if order is None else order):
        body.append([float((10000 * 1e-6) / wn[k])])
        for i in range(len(p)):
            body.append([float(p[i] / 1e5)] + [float(x[i, j, k] / 10000) for j in range(len(t))])
    return [float(v) for v in t], [float(v / 1e5) for v in p], body


def write_exo(path, tab, body_override=None, tail='', order=None):
    trow, prow, body = enc_exo(tab, order)
    if body_override is not None:
        body = body_override
    with open(path, 'w') as f:
        f.write(' '.join(repr(v) for v in trow) + '\n')
        f.write(' '.join(repr(v) for v in prow) + '\n')
        for ln in body:
            f.write(' '.join(repr(v) for v in ln) + '\n')
        f.write(tail)
    return trow, prow, body


def write_cia_pickle(path, ctab):
    with open(path, 'wb') as f:
        pickle.dump(dict(wno=np.array(ctab['wn']), t=np.array(ctab['t']), xsecarr=np.array(ctab['x'])), f)


def write_hitran(path, pair, blocks):
    """blocks: list of dict(wn0, wn1, T, mx, pts=[(wn, sigma_file)])"""
    with open(path, 'w') as f:
        for b in blocks:
            f.write('%s %r %r %d %r %r -.999 generated\n' % (pair, b['wn0'], b['wn1'], len(b['pts']), b['T'], b['mx']))
            for w, s in b['pts']:
                f.write('%r %r\n' % (w, s))


def enc_hitran_single(ctab):
    wn = [float(v) for v in ctab['wn']]
    out = []
    for T, row in zip(ctab['t'], ctab['x']):
        row = [float(v) for v in row]
        out.append(dict(wn0=wn[0], wn1=wn[-1], T=float(T), mx=float(max(row)),
                        pts=[(w, float(s / 1e-10)) for w, s in zip(wn, row)]))
    return out


def write_kpickle(path, ktab, name):
    with open(path, 'wb') as f:
        pickle.dump(dict(bin_centers=np.array(ktab['wn']), ngauss=len(ktab['weights']), t=np.array(ktab['t']),
                         p=np.array(ktab['p']) / 1e5, kcoeff=np.array(ktab['k']),
                         weights=np.array(ktab['weights']), name=name), f)


def write_khdf(path, ktab, unit):
    import h5py
    with h5py.File(path, 'w') as f:
        f.create_dataset('bin_centers', data=np.array(ktab['wn']))
        f.create_dataset('ngauss', data=len(ktab['weights']))
        f.create_dataset('t', data=np.array(ktab['t']))
        ds = f.create_dataset('p', data=np.array(ktab['p']) / UNITS[unit])
        ds.attrs['units'] = unit
        f.create_dataset('kcoeff', data=np.array(ktab['k']))
        f.create_dataset('weights', data=np.array(ktab['weights']))


# ----------------------------------------------------------------------------------------- references
def mem_opacity(tab, mode, weights=None):
    """in-memory reference built from the physical table (the repo's own interpolation on the SI table)"""
    from taurex.opacity.interpolateopacity import InterpolatingOpacity
    from taurex.opacity.ktables.ktable import KTable
    tg, pg, wn = (np.array(tab[k], float) for k in ('t', 'p', 'wn'))
    x = np.array(tab['x'] if weights is None else tab['k'], float)
    if weights is None:
        class MemOpacity(InterpolatingOpacity):
            def __init__(self):
                super().__init__('MemOpacity', interpolation_mode=mode)
            moleculeName = 'REF'
            xsecGrid = property(lambda self: x)
            wavenumberGrid = property(lambda self: wn)
            temperatureGrid = property(lambda self: tg)
            pressureGrid = property(lambda self: pg)
        return MemOpacity()
    w = np.array(weights, float)

    class MemK(KTable, InterpolatingOpacity):
        def __init__(self):
            InterpolatingOpacity.__init__(self, 'MemK', interpolation_mode=mode)
        moleculeName = 'REF'
        xsecGrid = property(lambda self: x)
        wavenumberGrid = property(lambda self: wn)
        temperatureGrid = property(lambda self: tg)
        pressureGrid = property(lambda self: pg)
        weights = property(lambda self: w)
    return MemK()


def numpy_bilinear(tab, T, P):
    """independent evaluation (linear mode, strictly interior points only) in m2"""
    tg, pg, x = np.array(tab['t'], float), np.log10(np.array(tab['p'], float)), np.array(tab['x'], float)
    lp = np.log10(P)
    j = int(np.searchsorted(tg, T, side='right')) - 1
    i = int(np.searchsorted(pg, lp, side='right')) - 1
    a = (T - tg[j]) / (tg[j + 1] - tg[j])
    b = (lp - pg[i]) / (pg[i + 1] - pg[i])
    return ((1 - a) * (1 - b) * x[i, j] + a * (1 - b) * x[i, j + 1] + (1 - a) * b * x[i + 1, j]
            + a * b * x[i + 1, j + 1]) / 1e4


def cia_reference(ctab, T, wngrid):
    """independent evaluation of CIA.cia(T, wngrid) from the physical table [T][wn]"""
    tg, x, wn = np.array(ctab['t'], float), np.array(ctab['x'], float), np.array(ctab['wn'], float)
    if T >= tg[-1]:
        row = x[-1]
    elif T <= tg[0]:
        row = x[0]
    else:
        j = int(np.searchsorted(tg, T, side='right')) - 1
        a = (T - tg[j]) / (tg[j + 1] - tg[j])
        row = (1 - a) * x[j] + a * x[j + 1]
    return row if wngrid is None else np.interp(wngrid, wn, row)


# ----------------------------------------------------------------------------------------- generators
def gen_axes(rng, nT, nP, nwn):
    t = np.sort(rng.choice(np.arange(60, 3000, 11.0), size=nT, replace=False)) + float(rng.integers(0, 4)) * 0.25
    p = 10 ** np.sort(rng.choice(np.linspace(-2, 7, 46), size=nP, replace=False))
    wn = np.sort(rng.choice(np.arange(50, 30000, 7.0), size=nwn, replace=False)) + float(rng.integers(0, 8)) * 0.125
    return t, p, wn


def gen_points(rng, t, p, n):
    """(T, P, region)"""
    out = []
    lp = np.log10(p)
    regions = ['interior', 'node', 'Tlo', 'Thi', 'Plo', 'Phi', 'TloPhi', 'ThiPlo', 'TloPlo', 'ThiPhi']
    for _ in range(n):
        r = regions[int(rng.integers(0, len(regions)))] if rng.random() < 0.6 else 'interior'
        i = int(rng.integers(0, len(t) - 1))
        T = t[i] + rng.uniform(0.05, 0.95) * (t[i + 1] - t[i])
        i = int(rng.integers(0, len(p) - 1))
        LP = lp[i] + rng.uniform(0.05, 0.95) * (lp[i + 1] - lp[i])
        if 'Tlo' in r:
            T = t[0] * rng.uniform(0.3, 0.99)
        if 'Thi' in r:
            T = t[-1] * rng.uniform(1.0, 2.0)
        if 'Plo' in r:
            LP = lp[0] - rng.uniform(0.01, 2)
        if 'Phi' in r:
            LP = lp[-1] + rng.uniform(0, 2)
        P = 10 ** LP
        if r == 'node':
            T = t[int(rng.integers(0, len(t)))]
            P = p[int(rng.integers(0, len(p)))]
        out.append((float(T), float(P), r))
    return out


def decorate(rng, mol, fmt):
    """a file name of format `fmt` whose sanitised molecule name is `mol`"""
    base = MOLS[mol] if rng.random() < 0.5 else mol
    if fmt == 'pickle':
        suf = ['', '.R100', '.xsec.TauREx', '.0.3-50mu.R15000'][int(rng.integers(0, 4))]
        return base + suf + '.pickle'
    if fmt == 'exo':
        pre = ['opac', 'opac', 'xsec', 'abcd'][int(rng.integers(0, 4))]
        return pre + base + '.dat'
    if fmt in ('hdf', 'khdf'):
        suf = ['', '__POKAZATEL__R15000_0.3-50mu.xsec.TauREx', '_v2', '.R100'][int(rng.integers(0, 4))]
        if fmt == 'hdf':      # the name is stored inside; the file name is free
            base = ['any', base, 'x_y.z'][int(rng.integers(0, 3))]
        elif suf == '.R100':
            suf = '_R100.ktable'
        return base + suf + ('.h5' if rng.random() < 0.5 else '.hdf5')
    if fmt == 'kpickle':
        suf = ['', '.R100', '.ktable.TauREx'][int(rng.integers(0, 3))]
        return base + suf + '.pickle'
    raise ValueError(fmt)


def gen_xsec_case(rng, k):
    nT, nP, nwn = int(rng.integers(2, 6)), int(rng.integers(2, 6)), int(rng.integers(1, 7))
    t, p, wn = gen_axes(rng, nT, nP, nwn)
    e = rng.uniform(-36, -16)       # cm2
    x = 10 ** (e + rng.uniform(-2, 2, size=(nP, nT, nwn)))
    zeros = rng.random() < 0.25
    if zeros:
        x[rng.random(x.shape) < 0.2] = 0.0
    if rng.random() < 0.04:
        x[...] = x.flat[0]
    mols = [str(m) for m in rng.choice(list(MOLS), size=3, replace=False)]
    unit = list(UNITS)[k % len(UNITS)]
    # Exo-Transmit wavelength blocks: standard (ascending wavelength), reversed, or a random permutation
    eo = k % 4
    exo_order = None if eo in (0, 2) else (list(range(nwn)) if eo == 1 else [int(v) for v in rng.permutation(nwn)])
    return dict(kind='xsec', wn=wn, t=t, p=p, x=x, unit=unit, exo_order=exo_order,
                files=dict(pickle=[decorate(rng, mols[0], 'pickle'), mols[0]],
                           hdf=[decorate(rng, mols[1], 'hdf'), mols[1]],
                           exo=[decorate(rng, mols[2], 'exo'), mols[2]]),
                pts=gen_points(rng, t, p, 3))


def gen_ktab_case(rng, k):
    nT, nP, nwn, ng = int(rng.integers(2, 5)), int(rng.integers(2, 5)), int(rng.integers(1, 5)), int(rng.integers(1, 5))
    t, p, wn = gen_axes(rng, nT, nP, nwn)
    e = rng.uniform(-36, -16)
    kk = 10 ** (e + rng.uniform(-2, 2, size=(nP, nT, nwn, ng)))
    kk = np.sort(kk, axis=3)
    w = rng.random(ng) + 0.05
    w = w / w.sum()
    mols = [str(m) for m in rng.choice(list(MOLS), size=2, replace=False)]
    unit = list(UNITS)[k % len(UNITS)]
    return dict(kind='ktab', wn=wn, t=t, p=p, k=kk, weights=w, unit=unit,
                files=dict(kpickle=[decorate(rng, mols[0], 'kpickle'), mols[0]],
                           khdf=[decorate(rng, mols[1], 'khdf'), mols[1]]),
                pts=gen_points(rng, t, p, 2))


def gen_cia_case(rng, k):
    """physical content = per range: wavenumbers, the temperatures it is tabulated at, values [T][wn] (m5);
    variant 0: one range (pickle form has the same table); otherwise 2-3 disjoint ranges with temperature gaps"""
    nT = int(rng.integers(2, 6))
    t = np.sort(rng.choice(np.arange(40, 3000, 13.0), size=nT, replace=False))
    variant = k % 3
    nr = 1 if variant == 0 else int(rng.integers(2, 4))
    allwn = np.sort(rng.choice(np.arange(10, 20000, 3.0), size=int(rng.integers(2 * nr, 4 * nr + 1)), replace=False))
    cuts = np.sort(rng.choice(np.arange(1, len(allwn)), size=nr - 1, replace=False)) if nr > 1 else []
    segs = np.split(allwn, cuts)
    ranges = []
    covered = set()
    for s in segs:
        if nr == 1:
            idx = list(range(nT))
        else:
            m = int(rng.integers(1, nT + 1))
            idx = sorted(rng.choice(nT, size=m, replace=False).tolist())
        covered |= set(idx)
        vals = 10 ** (rng.uniform(-50, -40) + rng.uniform(-1, 1, size=(len(idx), len(s))))
        ranges.append(dict(wn=s, tidx=idx, vals=vals))
    for j in range(nT):                 # every master temperature is tabulated somewhere
        if j not in covered:
            r = ranges[int(rng.integers(0, nr))]
            r['tidx'] = sorted(r['tidx'] + [j])
            r['vals'] = 10 ** (rng.uniform(-50, -40) + rng.uniform(-1, 1, size=(len(r['tidx']), len(r['wn']))))
    neg = rng.random() < 0.3
    order = 'T' if rng.random() < 0.6 else 'shuffled'
    pair = ['H2-H2', 'H2-He', 'N2-N2', 'CO2-CO2'][int(rng.integers(0, 4))]
    suffix = ['', '_2011', '_norm_2018'][int(rng.integers(0, 3))]
    Ts = [float(t[0] * 0.5), float(t[-1] * 1.5), float(t[int(rng.integers(0, nT))])]
    i = int(rng.integers(0, nT - 1))
    Ts.append(float(t[i] + rng.uniform(0.1, 0.9) * (t[i + 1] - t[i])))
    allneg = None
    if nr > 1 and nT >= 3 and rng.random() < 0.5:
        r0 = ranges[0]
        if not any(b - a > 1 for a, b in zip(r0['tidx'], r0['tidx'][1:])):
            r0['tidx'] = [0, nT - 1]                     # force a temperature gap in the first range ...
            r0['vals'] = 10 ** (rng.uniform(-50, -40) + rng.uniform(-1, 1, size=(2, len(r0['wn']))))
            last = ranges[-1]                            # ... and let the last range cover what is left
            have = set(i for r in ranges for i in r['tidx'])
            last['tidx'] = sorted(set(last['tidx']) | (set(range(nT)) - have))
            last['vals'] = 10 ** (rng.uniform(-50, -40) + rng.uniform(-1, 1, size=(len(last['tidx']), len(last['wn']))))
        a = [i for i, (u, v) in enumerate(zip(r0['tidx'], r0['tidx'][1:])) if v - u > 1][0]
        allneg = [0, a]
    return dict(kind='cia', t=t, ranges=ranges, neg=neg, order=order, pair=pair, suffix=suffix, Ts=Ts, allneg=allneg,
                perm=rng.permutation(64).tolist(), negmask=rng.random(64).tolist())


# ----------------------------------------------------------------------------------------- model calls
def dec_xtab(d):
    wn, t, p = d.list(), d.list(), d.list()
    x = d.list(lambda: d.list(lambda: d.list()))
    return wn, t, p, x


def model_xsec(ctx, fmt, content, mode, T, P):
    m = ctx.model()
    tail = (C.N(MODES.index(mode)), C.F(T), C.F(P))
    if fmt == 'pickle':
        d = m.call('c14.dec_pickle', C.L(content['wno']), C.L(content['t']), C.L(content['p']),
                   C.LLL(content['xsecarr'].tolist()), *tail)
    elif fmt == 'hdf':
        d = m.call('c14.dec_hdf', C.S(content['unit']), C.L(content['bin_edges']), C.L(content['t']),
                   C.L(content['p']), C.LLL(content['xsecarr'].tolist()), *tail)
        if d.nat() == 0:
            return None
    else:
        d = m.call('c14.dec_exo', C.F(1e-60), C.L(content['trow']), C.L(content['prow']), C.LL(content['body']), *tail)
    wn, t, p, x = dec_xtab(d)
    return dict(wn=wn, t=t, p=p, x=x, op=d.list())


def own_corner_nodes(nP, nT):
    """(pressure index, temperature index, name) of the four corner nodes of a table"""
    return [(0, 0, 'Tmin-Pmin'), (0, nT - 1, 'Tmax-Pmin'), (nP - 1, 0, 'Tmin-Pmax'), (nP - 1, nT - 1, 'Tmax-Pmax')]


def flat(a):
    return np.asarray(a, float).ravel()


# ----------------------------------------------------------------------------------------- xsec cases
def canon(c):
    c = dict(c)
    for k in ('wn', 't', 'p', 'x', 'k', 'weights'):
        if k in c:
            c[k] = np.asarray(c[k], float)
    return c


def eval_xsec(ctx, c):
    from taurex.cache import OpacityCache, GlobalCache
    from taurex.util.util import sanitize_molecule_string
    c = canon(c)
    tab = dict(wn=c['wn'], t=c['t'], p=c['p'], x=c['x'])
    small = dict(kind='xsec', shape=list(c['x'].shape), unit=c['unit'], files=c['files'])
    full = dict(C.jsonable(c))
    positive = bool(np.all(c['x'] > 0))
    scale = float(c['x'].max()) / 1e4
    floor = 1e-13 * scale + 1e-55
    nontrivial = bool(c['x'].max() > c['x'].min())
    results = {}
    with scratch_env() as root:
        oc = OpacityCache()
        for fmt in ('pickle', 'hdf', 'exo'):
            fname, mol = c['files'][fmt]
            d = fresh_dir(root, fmt)
            path = os.path.join(d, fname)
            if fmt == 'pickle':
                write_pickle(path, tab)
                content = enc_pickle(tab)
            elif fmt == 'hdf':
                write_hdf(path, tab, c['unit'], mol)
                content = dict(enc_hdf(tab, c['unit']), unit=c['unit'])
            else:
                exo_order = c.get('exo_order')
                trow, prow, body = write_exo(path, tab, order=exo_order)
                content = dict(trow=trow, prow=prow, body=body)
            # names: model vs discover() vs object
            if fmt != 'hdf':
                dn = ctx.model().call('c14.names', C.N(0 if fmt == 'pickle' else 1), C.S(fname), C.S(''))
                m_disc, m_obj = dn.str(), dn.str()
                ctx.check_eq('discName(%s) vs expected molecule' % fmt, mol, m_disc, dict(small, fname=fname))
                ctx.check_eq('objName(%s) vs expected molecule' % fmt, mol, m_obj, dict(small, fname=fname))
            GlobalCache()['xsec_path'] = None
            oc.clear_cache()
            oc.set_opacity_path(d)
            key = '%s:%s' % (fmt, c['unit'] if fmt == 'hdf' else '-')
            if fmt == 'exo':
                eo = c.get('exo_order')
                key = 'exo:' + ('standard' if eo is None else ('ascending-wn' if eo == sorted(eo) else 'permuted'))
            for mode in MODES:
                if mode == 'exp' and not positive:
                    continue
                oc.set_interpolation(mode)
                try:
                    listed = oc.find_list_of_molecules()
                    o = oc[mol]
                except Exception as e:
                    vkey = {'exo': 'exo-name-not-sanitised', 'hdf': 'hdf5-xsec-unit-cds-fallback:' + c['unit']}.get(
                        fmt, 'pickle-not-served')
                    ctx.violation(vkey, 'a valid %s file %r of molecule %s in xsec_path is not served: %r'
                                  % (fmt, fname, mol, e), full, dict(fmt=fmt, fname=fname, mode=mode))
                    break
                if mol not in listed or o.moleculeName != mol or o.moleculeName != sanitize_molecule_string(mol):
                    ctx.violation('name:' + fmt, 'object not identified by its sanitised molecule name', full,
                                  dict(fname=fname, expected=mol, got=o.moleculeName, listed=sorted(listed)))
                if o is not oc[mol]:
                    ctx.violation('served-different-object:' + fmt, 'two consecutive gets return different objects',
                                  full, dict(fname=fname))
                if o._interp_mode != mode:
                    ctx.violation('interp-stale:' + fmt, 'object served after set_interpolation has the old mode',
                                  full, dict(mode=mode, got=o._interp_mode))
                grids = (flat(o.wavenumberGrid), flat(o.temperatureGrid), flat(o.pressureGrid),
                         np.asarray(o.xsecGrid[...], float))
                # ---- property predicates on the implementation: the loaded state is the physical table
                for nm, got, want, ab in (('wavenumberGrid', grids[0], c['wn'], 0.0), ('temperatureGrid', grids[1], c['t'], 0.0),
                                          ('pressureGrid(Pa)', grids[2], c['p'], 0.0),
                                          ('xsecGrid[P,T,wn]', grids[3].ravel(), c['x'].ravel(), 1e-55)):
                    if got.shape != np.asarray(want).shape or not C.close(got, want, rel=1e-12, abs_=ab):
                        ctx.violation('table:%s:%s' % (fmt, nm.split('(')[0].split('[')[0]),
                                      '%s loaded from the %s file differs from the physical table' % (nm, fmt), full,
                                      dict(got=got[:8], want=np.asarray(want).ravel()[:8]))
                ref = mem_opacity(tab, mode)
                for (T, P, region) in c['pts']:
                    out = flat(o.opacity(T, P))
                    want = flat(ref.opacity(T, P))
                    results[(fmt, mode, T, P)] = out
                    if not C.close(out, want, rel=1e-9, abs_=floor):
                        ctx.violation('opacity:%s' % fmt, 'opacity(T,P) of the %s file differs from the in-memory table'
                                      % fmt, full, dict(T=T, P=P, mode=mode, got=out, want=want))
                    if mode == 'linear' and region == 'interior':
                        nb = numpy_bilinear(tab, T, P)
                        if not C.close(out, nb, rel=1e-9, abs_=floor):
                            ctx.violation('opacity-numpy:%s' % fmt, 'opacity(T,P) differs from the independent bilinear '
                                          'evaluation of the SI table', full, dict(T=T, P=P, got=out, want=nb))
                    # ---- correspondence with the Lean decoder + C04 interpolation
                    md = model_xsec(ctx, fmt, content, mode, T, P)
                    ctx.case(key=(('xsec', key, c['x'].shape, region, mode) if nontrivial else None),
                             sample=dict(small, fmt=fmt, mode=mode, T=T, P=P, impl=out[:3], model=md and md['op'][:3]),
                             bucket='xsec:' + key)
                    ctx.bucket('region:' + region)
                    if md is None:
                        ctx.mismatch('decHdf refuses a unit the reader accepts', small, dict(unit=c['unit']))
                        continue
                    cs = dict(small, fmt=fmt, T=T, P=P, mode=mode)
                    ctx.check_close('wavenumberGrid vs dec*(%s).wn' % fmt, grids[0], md['wn'], cs, rel=1e-12)
                    ctx.check_close('temperatureGrid vs dec*(%s).t' % fmt, grids[1], md['t'], cs, rel=1e-12)
                    ctx.check_close('pressureGrid vs dec*(%s).p' % fmt, grids[2], md['p'], cs, rel=1e-12)
                    ctx.check_close('xsecGrid vs dec*(%s).x' % fmt, grids[3].ravel(), flat(md['x']), cs, rel=1e-12,
                                    abs_=1e-70)
                    ctx.check_close('opacity(T,P) vs XTab.opacity(dec*(%s))' % fmt, out, md['op'], cs, rel=1e-9,
                                    abs_=floor)
                # ---- quota: the four corner nodes of the table, at the loaded object's OWN axis values (the pressure a
                # container hands back after its unit conversion, bit for bit): the tabulated cross-section itself
                if grids[3].shape == c['x'].shape:
                    for (i, j, cn) in own_corner_nodes(len(grids[2]), len(grids[1])):
                        T, P = float(grids[1][j]), float(grids[2][i])
                        out = flat(o.opacity(T, P))
                        want = c['x'][i, j] / 1e4
                        if out.shape != want.shape or not C.close(out, want, rel=1e-9, abs_=floor):
                            ctx.violation('node-value:%s' % fmt, 'opacity(T,P) at a tabulated (T,P) node of the %s file is '
                                          'not the tabulated cross-section in SI units' % fmt, full,
                                          dict(T=T, P=P, mode=mode, node=cn, got=out, want=want))
                        md = model_xsec(ctx, fmt, content, mode, T, P)
                        ctx.case(key=(('xsec', key, c['x'].shape, 'own-node:' + cn, mode) if nontrivial else None),
                                 sample=dict(small, fmt=fmt, mode=mode, T=T, P=P, impl=out[:3]), bucket='xsec:' + key)
                        ctx.bucket('region:own-node:' + cn)
                        if md is not None:
                            ctx.check_close('opacity(T,P) at an own node vs XTab.opacity(dec*(%s))' % fmt, out, md['op'],
                                            dict(small, fmt=fmt, T=T, P=P, mode=mode, node=cn), rel=1e-9, abs_=floor)
                o = None
            # ---- the encoders are the harness's writers
            if fmt == 'pickle':
                d2 = ctx.model().call('c14.enc_pickle', C.L(c['wn']), C.L(c['t']), C.L(c['p']), C.LLL(c['x'].tolist()))
                got = (d2.list(), d2.list(), d2.list(), flat(d2.list(lambda: d2.list(lambda: d2.list()))))
                ctx.check_close('written pickle p(bar) vs encPickle', content['p'], got[2], small, rel=1e-13)
                ctx.check_close('written pickle xsecarr vs encPickle', content['xsecarr'].ravel(), got[3], small, rel=1e-13)
            elif fmt == 'hdf':
                d2 = ctx.model().call('c14.enc_hdf', C.S(c['unit']), C.L(c['wn']), C.L(c['t']), C.L(c['p']),
                                      C.LLL(c['x'].tolist()))
                got = (d2.list(), d2.list(), d2.list())
                ctx.check_close('written hdf5 p vs encHdf', content['p'], got[2], small, rel=1e-13)
            elif c.get('exo_order') is None:
                d2 = ctx.model().call('c14.enc_exo', C.L(c['wn']), C.L(c['t']), C.L(c['p']), C.LLL(c['x'].tolist()))
                got = (d2.list(), d2.list(), d2.list(lambda: d2.list()))
                ctx.check_close('written Exo-Transmit pressure row vs encExo', content['prow'], got[1], small, rel=1e-13)
                ctx.check_eq('written Exo-Transmit line structure vs encExo', [len(b) for b in content['body']],
                             [len(b) for b in got[2]], small)
                ctx.check_close('written Exo-Transmit numbers vs encExo', [v for b in content['body'] for v in b],
                                [v for b in got[2] for v in b], small, rel=1e-13)
        # ---- pairwise format equality
        for mode in MODES:
            for (T, P, region) in c['pts']:
                vals = [(f, results.get((f, mode, T, P))) for f in ('pickle', 'hdf', 'exo')]
                vals = [(f, v) for f, v in vals if v is not None]
                for (fa, va), (fb, vb) in zip(vals, vals[1:]):
                    if not C.close(va, vb, rel=1e-9, abs_=floor):
                        ctx.violation('formats-differ:%s-%s' % (fa, fb), 'the same table gives different opacity(T,P) '
                                      'when loaded from %s and from %s' % (fa, fb), full,
                                      dict(T=T, P=P, mode=mode, a=va, b=vb))


# ----------------------------------------------------------------------------------------- k-tables
def eval_ktab(ctx, c):
    from taurex.cache import GlobalCache, OpacityCache
    from taurex.cache.ktablecache import KTableCache
    c = canon(c)
    tab = dict(wn=c['wn'], t=c['t'], p=c['p'], k=c['k'], weights=c['weights'])
    small = dict(kind='ktab', shape=list(c['k'].shape), unit=c['unit'], files=c['files'])
    full = dict(C.jsonable(c))
    scale = float(c['k'].max()) / 1e4
    floor = 1e-13 * scale
    results = {}
    with scratch_env() as root:
        kc = KTableCache()
        for fmt in ('kpickle', 'khdf'):
            fname, mol = c['files'][fmt]
            d = fresh_dir(root, fmt)
            path = os.path.join(d, fname)
            if fmt == 'kpickle':
                write_kpickle(path, tab, mol)
            else:
                write_khdf(path, tab, c['unit'])
            unit = 'bar' if fmt == 'kpickle' else c['unit']
            pfile = c['p'] / UNITS[unit]
            dn = ctx.model().call('c14.names', C.N(3 if fmt == 'kpickle' else 2), C.S(fname), C.S(mol))
            m_disc, m_obj = dn.str(), dn.str()
            ctx.check_eq('discName(%s) vs expected molecule' % fmt, mol, m_disc, dict(small, fname=fname))
            ctx.check_eq('objName(%s) vs expected molecule' % fmt, mol, m_obj, dict(small, fname=fname))
            GlobalCache()['ktable_path'] = d
            kc.clear_cache()
            for mode in MODES:
                GlobalCache()['xsec_interpolation'] = mode
                kc.clear_cache()
                try:
                    listed = kc.find_list_of_molecules()
                    o = kc[mol]
                except Exception as e:
                    ctx.violation('ktable-not-served:' + fmt, 'a valid %s file %r of molecule %s in ktable_path is not '
                                  'served: %r' % (fmt, fname, mol, e), full, dict(fname=fname, unit=unit))
                    break
                if mol not in listed or o.moleculeName != mol:
                    ctx.violation('name:' + fmt, 'k-table not identified by its sanitised molecule name', full,
                                  dict(fname=fname, expected=mol, got=o.moleculeName))
                if o is not kc[mol]:
                    ctx.violation('served-different-object:' + fmt, 'two consecutive gets return different objects',
                                  full, dict(fname=fname))
                if o._interp_mode != mode:
                    ctx.violation('interp-stale:' + fmt, 'k-table loaded after the mode change has the old mode', full,
                                  dict(mode=mode, got=o._interp_mode))
                grids = (flat(o.wavenumberGrid), flat(o.temperatureGrid), flat(o.pressureGrid),
                         np.asarray(o.xsecGrid[...], float), flat(o.weights))
                for nm, got, want in (('wavenumberGrid', grids[0], c['wn']), ('temperatureGrid', grids[1], c['t']),
                                      ('pressureGrid', grids[2], c['p']), ('kcoeff', grids[3].ravel(), c['k'].ravel()),
                                      ('weights', grids[4], c['weights'])):
                    if got.shape != np.asarray(want).shape or not C.close(got, want, rel=1e-12):
                        ctx.violation('table:%s:%s' % (fmt, nm), '%s loaded from the %s file differs from the physical '
                                      'table' % (nm, fmt), full, dict(got=got[:8], want=np.asarray(want).ravel()[:8]))
                ref = mem_opacity(tab, mode, weights=c['weights'])
                for (T, P, region) in c['pts']:
                    out = np.asarray(o.opacity(T, P), float)
                    want = np.asarray(ref.opacity(T, P), float)
                    results[(fmt, mode, T, P)] = out
                    if out.shape != (len(c['wn']), len(c['weights'])):
                        ctx.violation('ktable-shape:' + fmt, 'opacity(T,P) is not [wn][g]', full, dict(shape=out.shape))
                    if not C.close(out.ravel(), want.ravel(), rel=1e-9, abs_=floor):
                        ctx.violation('opacity:' + fmt, 'opacity(T,P) of the %s file differs from the in-memory k-table'
                                      % fmt, full, dict(T=T, P=P, mode=mode, got=out.ravel()[:6], want=want.ravel()[:6]))
                    args = (C.L(c['wn']), C.L(c['t']), C.L(pfile), C.L([C.LLL(a) for a in c['k'].tolist()], enc=str),
                            C.L(c['weights']), C.N(MODES.index(mode)), C.F(T), C.F(P))
                    if fmt == 'kpickle':
                        dm = ctx.model().call('c14.dec_kpickle', *args)
                    else:
                        dm = ctx.model().call('c14.dec_khdf', C.S(unit), *args)
                        if dm.nat() == 0:
                            ctx.mismatch('decHdfK refuses a unit the reader accepts', small, dict(unit=unit))
                            continue
                    wn, tt, pp = dm.list(), dm.list(), dm.list()
                    kk = dm.list(lambda: dm.list(lambda: dm.list(lambda: dm.list())))
                    ww = dm.list()
                    op = dm.list(lambda: dm.list())
                    cs = dict(small, fmt=fmt, T=T, P=P, mode=mode)
                    ctx.case(key=('ktab', fmt, unit, c['k'].shape, region, mode),
                             sample=dict(cs, impl=out.ravel()[:3], model=flat(op)[:3]), bucket='ktab:%s:%s' % (fmt, unit))
                    ctx.check_close('k pressureGrid vs dec*(%s).p' % fmt, grids[2], pp, cs, rel=1e-12)
                    ctx.check_close('k xsecGrid vs dec*(%s).k' % fmt, grids[3].ravel(), flat(kk), cs, rel=1e-12)
                    ctx.check_close('k axes vs dec*(%s)' % fmt, np.concatenate([grids[0], grids[1], grids[4]]),
                                    wn + tt + ww, cs, rel=1e-12)
                    ctx.check_close('KTable.opacity(T,P) vs KTab.opacity(dec*(%s))' % fmt, out.ravel(), flat(op), cs,
                                    rel=1e-9, abs_=floor)
                # ---- quota: the corner nodes at the loaded k-table's own axis values: the tabulated coefficients
                if grids[3].shape == c['k'].shape:
                    for (i, j, cn) in own_corner_nodes(len(grids[2]), len(grids[1])):
                        T, P = float(grids[1][j]), float(grids[2][i])
                        out = np.asarray(o.opacity(T, P), float)
                        want = c['k'][i, j] / 1e4
                        ctx.case(key=('ktab', fmt, unit, c['k'].shape, 'own-node:' + cn, mode),
                                 sample=dict(small, fmt=fmt, T=T, P=P, mode=mode), bucket='ktab:%s:%s' % (fmt, unit))
                        ctx.bucket('region:own-node:' + cn)
                        if out.shape != want.shape or not C.close(out.ravel(), want.ravel(), rel=1e-9, abs_=floor):
                            ctx.violation('node-value:' + fmt, 'opacity(T,P) at a tabulated (T,P) node of the %s file is not '
                                          'the tabulated k-coefficients in SI units' % fmt, full,
                                          dict(T=T, P=P, mode=mode, node=cn, got=out.ravel()[:6], want=want.ravel()[:6]))
                # ---- history predicate: a mode change through OpacityCache must reach k-tables served afterwards
                if mode == 'linear':
                    OpacityCache().set_interpolation('exp')
                    o2 = kc[mol]
                    if o2._interp_mode != 'exp':
                        ctx.violation('ktable-interp-stale', 'after OpacityCache().set_interpolation the k-table cache '
                                      'still serves the object with the old interpolation mode', full,
                                      dict(fmt=fmt, served_mode=o2._interp_mode, configured='exp'))
                    GlobalCache()['xsec_interpolation'] = mode
                o = None
        for mode in MODES:
            for (T, P, region) in c['pts']:
                a, b = results.get(('kpickle', mode, T, P)), results.get(('khdf', mode, T, P))
                if a is not None and b is not None and not C.close(a.ravel(), b.ravel(), rel=1e-9, abs_=floor):
                    ctx.violation('formats-differ:kpickle-khdf', 'the same k-table gives different opacity(T,P) from '
                                  'pickle and from HDF5', full, dict(T=T, P=P, mode=mode, a=a.ravel()[:6], b=b.ravel()[:6]))


# ----------------------------------------------------------------------------------------- CIA
def cia_blocks(c):
    """HITRAN blocks (file order) of the generated content"""
    t = np.asarray(c['t'], float)
    blocks = []
    n = 0
    for r in c['ranges']:
        wn = [float(v) for v in np.asarray(r['wn'], float)]
        for a, j in enumerate(r['tidx']):
            row = np.asarray(r['vals'], float)[a]
            pts = []
            for w, s in zip(wn, row):
                v = float(s / 1e-10)
                if c['neg'] and c['negmask'][n % 64] < 0.15:
                    v = -v
                n += 1
                pts.append((w, v))
            blocks.append(dict(wn0=wn[0], wn1=wn[-1], T=float(t[j]), mx=float(row.max() / 1e-10), pts=pts))
    if c.get('allneg') is not None and blocks:          # quota: the block below a temperature gap is negative
        ri, a = c['allneg']                              # throughout (all clipped), so the gap is interpolated from it
        wn0 = float(np.asarray(c['ranges'][ri]['wn'], float)[0])
        Tneg = float(t[c['ranges'][ri]['tidx'][a]])
        for b in blocks:
            if b['wn0'] == wn0 and b['T'] == Tneg:
                b['pts'] = [(w, -abs(v)) for w, v in b['pts']]
    if c['order'] == 'T':
        blocks.sort(key=lambda b: b['T'])
    else:
        perm = [i for i in c['perm'] if i < len(blocks)]
        blocks = [blocks[i] for i in perm] + blocks[64:]
    return blocks


def cia_unified(c, blocks, documented=True):
    """the physical table the file stands for: union wavenumber grid; per range the tabulated (clipped) values,
    linear in T inside the range's temperature span, zero outside it (documented behaviour of fill_temperature)"""
    t = np.asarray(c['t'], float)
    cols = []
    wns = []
    for r in c['ranges']:
        wn = np.asarray(r['wn'], float)
        rows = {}
        for b in blocks:
            if b['wn0'] == wn[0] and b['wn1'] == wn[-1]:
                rows[b['T']] = np.array([max(s * 1e-10, 0.0) for _, s in b['pts']])
        ts = np.array(sorted(rows))
        tabv = np.array([rows[v] for v in ts])
        sub = np.zeros((len(t), len(wn)))
        for j, T in enumerate(t):
            if T in rows:
                sub[j] = rows[T]
            elif T < ts[0] or T > ts[-1]:
                sub[j] = 0.0
            else:
                i = int(np.searchsorted(ts, T, side='right')) - 1
                a = (T - ts[i]) / (ts[i + 1] - ts[i])
                sub[j] = (1 - a) * tabv[i] + a * tabv[i + 1]
        cols.append(sub)
        wns.append(wn)
    wn = np.concatenate(wns)
    x = np.concatenate(cols, axis=1)
    o = np.argsort(wn)
    return dict(wn=wn[o], t=t, x=x[:, o])


def eval_cia(ctx, c):
    from taurex.cache import CIACache
    c = dict(c)
    c['t'] = np.asarray(c['t'], float)
    full = dict(C.jsonable(c))
    blocks = cia_blocks(c)
    uni = cia_unified(c, blocks)
    nr = len(c['ranges'])
    # a block whose values are all negative is clipped to Python ints (input class of a known numpy-dtype pitfall)
    allneg = any(all(sv < 0 for _, sv in b['pts']) for b in blocks)

    def ckey(k):
        return 'hitran-all-negative-block' if (allneg and nr > 1) else k
    small = dict(kind='cia', nT=len(c['t']), nranges=nr, nwn=len(uni['wn']), neg=c['neg'], order=c['order'])
    pair = c['pair']
    wngrid = np.sort(np.concatenate([uni['wn'], uni['wn'][:-1] + np.diff(uni['wn']) * 0.37,
                                     [uni['wn'][0] - 1.0, uni['wn'][-1] + 5.0]]))
    scale = float(uni['x'].max())
    floor = 1e-13 * scale
    out = {}
    with scratch_env() as root:
        cc = CIACache()
        for fmt in ('db', 'cia'):
            d = fresh_dir(root, fmt)
            fname = pair + c['suffix'] + '.' + fmt
            if fmt == 'db':
                write_cia_pickle(os.path.join(d, fname), uni)
            else:
                write_hitran(os.path.join(d, fname), pair, blocks)
            dn = ctx.model().call('c14.names', C.N(4), C.S(fname), C.S(''))
            ctx.check_eq('pair name of %s vs discName' % fmt, pair, dn.str(), dict(small, fname=fname))
            cc.cia_dict = {}
            cc.set_cia_path(d)
            try:
                o = cc[pair]
            except Exception as e:
                ctx.violation('cia-not-served:' + fmt, 'a valid %s file %r in cia_path is not served: %r' % (fmt, fname, e),
                              full, dict(fname=fname))
                continue
            if o.pairName != pair:
                ctx.violation('name:' + fmt, 'CIA object not identified by its pair name', full,
                              dict(expected=pair, got=o.pairName))
            if o is not cc[pair]:
                ctx.violation('served-different-object:' + fmt, 'two consecutive gets return different objects', full)
            # the collision partners the loaded object reports (what CIAContribution weights the table with): the two halves
            # of the pair name, whichever container the table came from (Sanitize.pairOne/pairTwo; Props/C14.lean: cia_partners)
            dp = ctx.model().call('c14.partners', C.S(pair))
            partners = (str(o.pairOne), str(o.pairTwo))
            ctx.bucket('cia:partners:' + fmt)
            ctx.check_eq('CIA pairOne/pairTwo of the loaded %s object vs Sanitize.pairOne/pairTwo' % fmt, partners,
                         (dp.str(), dp.str()), dict(small, fmt=fmt, pair=pair))
            if partners != (pair.split('-')[0], pair.split('-')[-1]):
                ctx.violation('partners:' + fmt, 'the table loaded from the %s container of %s is attributed to the collision '
                              'partners %r' % (fmt, pair, partners), full,
                              dict(fmt=fmt, pairName=o.pairName, pairOne=partners[0], pairTwo=partners[1]))
            grids = (flat(o.wavenumberGrid), flat(o.temperatureGrid), np.asarray(o._xsec_grid, float))
            bad = None
            for nm, got, want in (('wavenumberGrid', grids[0], uni['wn']), ('temperatureGrid', grids[1], uni['t']),
                                  ('xsec[T,wn]', grids[2].ravel(), uni['x'].ravel())):
                if got.shape != np.asarray(want).shape or not C.close(got, want, rel=1e-12, abs_=1e-80):
                    bad = (nm, got, want)
                    break
            if bad:
                key = 'table:%s:%s' % (fmt, bad[0].split('[')[0])
                if fmt == 'cia' and nr > 1 and bad[0].startswith('xsec') and below_range_ramp(c, grids[2], uni):
                    key = 'hitran-gap-fill-below-range'
                elif fmt == 'cia':
                    key = ckey(key)
                ctx.violation(key, '%s loaded from the %s file differs from the (documented) physical table' % (bad[0], fmt),
                              full, dict(got=bad[1][:12], want=np.asarray(bad[2]).ravel()[:12]))
            if np.any(grids[2] < 0):
                ctx.violation('cia-negative:' + fmt, 'negative CIA cross-section in the loaded table', full)
            if fmt == 'cia':
                # the documented unified table as the Lean specification defines it (Loaders.hitranUnified, proved equal
                # to the reader's model decHitran by Props/C14.lean:hitran_unified): the Python oracle above must be it,
                # and so must the table the real reader built
                toks = [str(len(blocks))]
                for b in blocks:
                    toks += [C.F(b['wn0']), C.F(b['wn1']), C.F(b['T']), C.F(b['mx']), str(len(b['pts']))]
                    for w, s in b['pts']:
                        toks += [C.F(w), C.F(s)]
                du = ctx.model().call('c14.hitran_unified', *toks)
                uwn, ut = du.list(), du.list()
                ux = du.list(lambda: du.list())
                cs = dict(small, fmt=fmt)
                ctx.check_close('documented unified table (oracle) vs hitranUnified.wn', uni['wn'], uwn, cs, rel=1e-12)
                ctx.check_close('documented unified table (oracle) vs hitranUnified.t', uni['t'], ut, cs, rel=1e-12)
                ctx.check_close('documented unified table (oracle) vs hitranUnified.x', uni['x'].ravel(), flat(ux), cs,
                                rel=1e-10, abs_=1e-80)
                if not bad:
                    ctx.check_close('HITRAN table loaded by the reader vs hitranUnified.x', grids[2].ravel(), flat(ux), cs,
                                    rel=1e-10, abs_=1e-80)
            # ---- correspondence: decoder and compute_cia
            for T in c['Ts']:
                native = flat(o.cia(T))
                interp = flat(o.cia(T, wngrid))
                out[(fmt, T)] = (native, interp)
                if fmt == 'db':
                    dm = ctx.model().call('c14.dec_cia_pickle', C.L(uni['wn']), C.L(uni['t']), C.LL(uni['x'].tolist()), C.F(T))
                else:
                    toks = [str(len(blocks))]
                    for b in blocks:
                        toks += [C.F(b['wn0']), C.F(b['wn1']), C.F(b['T']), C.F(b['mx']), str(len(b['pts']))]
                        for w, s in b['pts']:
                            toks += [C.F(w), C.F(s)]
                    dm = ctx.model().call('c14.dec_hitran', *toks, C.F(T))
                wn, tt = dm.list(), dm.list()
                xx = dm.list(lambda: dm.list())
                cia = dm.list()
                cs = dict(small, fmt=fmt, T=T)
                region = 'lo' if T < c['t'][0] else ('hi' if T > c['t'][-1] else ('node' if T in c['t'] else 'in'))
                ctx.case(key=('cia', fmt, nr, len(c['t']), c['neg'], region), sample=dict(cs, impl=native[:3], model=cia[:3]),
                         bucket='cia:%s:%s' % (fmt, 'single' if nr == 1 else 'multi'))
                ctx.check_close('CIA wavenumberGrid vs dec*(%s).wn' % fmt, grids[0], wn, cs, rel=1e-12)
                ctx.check_close('CIA temperatureGrid vs dec*(%s).t' % fmt, grids[1], tt, cs, rel=1e-12)
                ctx.check_close('CIA table vs dec*(%s).x' % fmt, grids[2].ravel(), flat(xx), cs, rel=1e-10, abs_=1e-80)
                ctx.check_close('compute_cia(T) vs ciaCompute(dec*(%s))' % fmt, native, cia, cs, rel=1e-9, abs_=floor)
                # predicate: against the independent evaluation of the documented physical table
                if not bad:
                    for nm, got, want in (('cia(T)', native, cia_reference(uni, T, None)),
                                          ('cia(T,wngrid)', interp, cia_reference(uni, T, wngrid))):
                        if not C.close(got, want, rel=1e-9, abs_=floor):
                            ctx.violation(ckey('cia-value:' + fmt) if fmt == 'cia' else 'cia-value:' + fmt, '%s from the %s file differs from the independent evaluation '
                                          'of the physical table' % (nm, fmt), full, dict(T=T, got=got[:8], want=want[:8]))
            o = None
        for T in c['Ts']:
            a, b = out.get(('db', T)), out.get(('cia', T))
            if a is not None and b is not None:
                for i, nm in ((0, 'cia(T)'), (1, 'cia(T,wngrid)')):
                    if not C.close(a[i], b[i], rel=1e-9, abs_=floor):
                        ctx.violation(ckey('formats-differ:db-cia'), '%s differs between the pickle and the HITRAN form of the same '
                                      'table' % nm, full, dict(T=T, a=a[i][:8], b=b[i][:8]))
        # single range: the encoder is the writer
        if nr == 1:
            d2 = ctx.model().call('c14.enc_hitran', C.L(uni['wn']), C.L(uni['t']), C.LL(uni['x'].tolist()))
            mb = d2.list(lambda: (d2.flt(), d2.flt(), d2.flt(), d2.flt(), d2.list(lambda: (d2.flt(), d2.flt()))))
            if not c['neg']:
                hb = sorted(blocks, key=lambda b: b['T'])
                ctx.check_close('written HITRAN numbers vs encHitran',
                                [v for b in hb for v in [b['wn0'], b['wn1'], b['T']] + [q for pt in b['pts'] for q in pt]],
                                [v for b in mb for v in [b[0], b[1], b[2]] + [q for pt in b[4] for q in pt]], small,
                                rel=1e-12)


def below_range_ramp(c, got, uni):
    """does the disagreement sit exactly at master temperatures below a range's own span (second or later one)?"""
    t = np.asarray(c['t'], float)
    diff = ~np.isclose(got, uni['x'], rtol=1e-10, atol=1e-80)
    rows = set(np.where(diff.any(axis=1))[0].tolist())
    allowed = set()
    for r in c['ranges']:
        lo = min(r['tidx'])
        allowed |= set(range(1, lo))
    return bool(rows) and rows <= allowed


# ----------------------------------------------------------------------------------------- cache histories
class Recorder:
    """counts constructor calls made to load a molecule (harness-side wrapper; discover() probes are not loads)"""

    def __init__(self):
        self.log = []
        self.in_discover = 0

    def __enter__(self):
        from taurex.opacity import PickleOpacity, HDF5Opacity, ExoTransmitOpacity
        from taurex.opacity.ktables.picklektable import PickleKTable
        from taurex.opacity.ktables.hdfktable import HDF5KTable
        self.saved = []
        rec = self
        for cls in (PickleOpacity, HDF5Opacity, ExoTransmitOpacity, PickleKTable, HDF5KTable):
            orig = cls.__init__

            def wrapped(self_, filename, *a, _orig=orig, **k):
                if not rec.in_discover:
                    rec.log.append(filename)
                return _orig(self_, filename, *a, **k)
            self.saved.append((cls, '__init__', orig))
            cls.__init__ = wrapped
        origd = HDF5Opacity.__dict__['discover']

        def disc(cls_):
            rec.in_discover += 1
            try:
                return origd.__func__(cls_)
            finally:
                rec.in_discover -= 1
        self.saved.append((HDF5Opacity, 'discover', origd))
        HDF5Opacity.discover = classmethod(disc)
        return self

    def __exit__(self, *a):
        for cls, name, orig in self.saved:
            setattr(cls, name, orig)


CACHE_MOLS = ['H2O', 'CH4', 'CO2']


def small_table(seed):
    rng = np.random.Generator(np.random.PCG64(seed))
    t = np.array([300.0, 800.0, 1500.0])
    p = np.array([1e1, 1e3, 1e6])
    wn = np.array([500.0, 900.0])
    x = 10 ** rng.uniform(-24, -20, size=(3, 3, 2))
    return dict(wn=wn, t=t, p=p, x=x)


def small_ktable(seed):
    rng = np.random.Generator(np.random.PCG64(seed))
    t = np.array([300.0, 800.0, 1500.0])
    p = np.array([1e1, 1e3, 1e6])
    wn = np.array([500.0, 900.0])
    kk = np.sort(10 ** rng.uniform(-24, -20, size=(3, 3, 2, 2)), axis=3)
    return dict(wn=wn, t=t, p=p, k=kk, weights=np.array([0.4, 0.6]))


def gen_kcache_case(rng, k):
    """k-table cache history: one k-table file (pickle or HDF5) per molecule and directory"""
    ndirs = int(rng.integers(2, 4))
    fs = []
    seed = 0
    for di in range(ndirs):
        if di == ndirs - 1 and rng.random() < 0.4:
            fs.append(dict(exists=False, files=[]))
            continue
        files = []
        for mol in CACHE_MOLS:
            if rng.random() < 0.2:
                continue
            seed += 1
            f = 'kpickle' if rng.random() < 0.5 else 'khdf'
            files.append((f, decorate(rng, mol, f), mol, 1000 * k + seed))
        fs.append(dict(exists=True, files=files))
    ops = [['setPath', int(rng.integers(0, ndirs))]] if rng.random() < 0.8 else []
    for _ in range(int(rng.integers(6, 30))):
        r = rng.random()
        if r < 0.5:
            ops.append(['get', CACHE_MOLS[int(rng.integers(0, 3))] if rng.random() < 0.9 else 'XX'])
        elif r < 0.6:
            ops.append(['setPath', int(rng.integers(0, ndirs + (1 if rng.random() < 0.1 else 0)))])
        elif r < 0.7:
            ops.append(['setInterp', int(rng.integers(0, 2))])
        elif r < 0.78:
            ops.append(['clear'])
        elif r < 0.86:
            ops.append(['add', CACHE_MOLS[int(rng.integers(0, 3))] if rng.random() < 0.8 else 'XX', int(rng.integers(0, 2))])
        else:
            ops.append(gen_conf_op(rng, ndirs, mem=False))
    return dict(kind='kcache', fs=fs, ops=ops)


def gen_conf_op(rng, ndirs, mem=True):
    """a configuration event that reaches the caches by another route than their own setters, or takes a setting back:
    ['unsetInterp'] (set_interpolation(None)), ['unsetPath'] (the path key of GlobalCache set to None), ['parfile', p, k, mem]
    (a parameter file with the [Global] keys path / xsec_interpolation / xsec_in_memory, each optional, set up by
    ParameterParser.read + setup_globals; the memory key, whose setter clears the cache by itself, only in a quarter)"""
    r = rng.random()
    if r < 0.25:
        return ['unsetInterp']
    if r < 0.45:
        return ['unsetPath']
    pth = None if rng.random() < 0.25 else int(rng.integers(0, ndirs + (1 if rng.random() < 0.08 else 0)))
    k = None if rng.random() < 0.2 else int(rng.integers(0, 2))
    m = bool(rng.random() < 0.5) if (mem and rng.random() < 0.25) else None
    return ['parfile', pth, k, m]


def gen_cache_case(rng, k):
    """file system: list of dirs; dir = dict(exists, files=[(fmt, fname, mol, tableseed)]) in visiting order"""
    ndirs = int(rng.integers(2, 4))
    fs = []
    seed = 0
    for di in range(ndirs):
        if di == ndirs - 1 and rng.random() < 0.5:
            fs.append(dict(exists=False, files=[]))
            continue
        h5, hdf5, others = [], [], []
        for mol in CACHE_MOLS:
            r = rng.random()
            if r < 0.15:
                continue
            fmts = []
            if r < 0.45:
                fmts = ['pickle']
            elif r < 0.65:
                fmts = ['exo']
            elif r < 0.8:
                fmts = ['hdf']
            elif r < 0.9:
                fmts = ['hdf', 'pickle' if rng.random() < 0.5 else 'exo']
            else:
                fmts = ['hdf', 'hdf']
            exts = ['.h5', '.hdf5']
            for n, f in enumerate(fmts):
                seed += 1
                if f == 'hdf':
                    ext = exts[n] if fmts.count('hdf') == 2 else exts[int(rng.integers(0, 2))]
                    fname = '%s_d%d_%d%s' % (mol, di, n, ext)
                    (h5 if ext == '.h5' else hdf5).append(('hdf', fname, mol, 1000 * k + seed))
                else:
                    fname = decorate(rng, mol, f)
                    others.append((f, fname, mol, 1000 * k + seed))
        fs.append(dict(exists=True, files=h5 + hdf5 + others))
    nops = int(rng.integers(8, 41))
    ops = [['setPath', int(rng.integers(0, ndirs))]] if rng.random() < 0.8 else []
    for _ in range(nops):
        r = rng.random()
        if r < 0.5:
            m = CACHE_MOLS[int(rng.integers(0, 3))] if rng.random() < 0.9 else 'XX'
            ops.append(['get', m])
        elif r < 0.6:
            ops.append(['setPath', int(rng.integers(0, ndirs + (1 if rng.random() < 0.1 else 0)))])
        elif r < 0.68:
            ops.append(['setInterp', int(rng.integers(0, 2))])
        elif r < 0.72:
            ops.append(['setMem', bool(rng.random() < 0.5)])
        elif r < 0.79:
            ops.append(['clear'])
        elif r < 0.87:
            ops.append(['add', CACHE_MOLS[int(rng.integers(0, 3))] if rng.random() < 0.8 else 'XX', int(rng.integers(0, 2))])
        else:
            ops.append(gen_conf_op(rng, ndirs))
    return dict(kind='cache', fs=fs, ops=ops)


DRIFT_SCENARIOS = ['object-switched', 'global-written', 'load-other-fails']


def gen_drift_case(rng, k):
    """histories in which the loaded objects and the global interpolation setting drift apart, and loads that name another
    directory: a cache / k-table-cache history with 1-4 events inserted at random places -
      ['objMode', m, k]    the object now cached for m switched with its own public set_interpolation_mode(k);
      ['gcInterp', k|None] GlobalCache()['xsec_interpolation'] written directly (as any code holding GlobalCache can);
      ['loadOther', p, m]  load_opacity(opacity_path=<directory p>, molecule_filter=[m]); p = len(fs) names the case's `other`
                           directory: other tables of the molecules and one truncated (unreadable) file, of molecule `bad`
    - and one of three fixed tails (quota, every run): the served object switched away from the global mode / the global key
    written behind the cache's back, then set_interpolation of the value ALREADY stored, then the molecule asked for again;
    a load of `bad` from the other directory (whatever that call does or raises), then ordinary lookups"""
    isk = (k // 3) % 2 == 1
    c = gen_kcache_case(rng, k) if isk else gen_cache_case(rng, k)
    fs, ops = c['fs'], c['ops']
    nd = len(fs)
    full_dirs = [i for i, d in enumerate(fs) if d['exists'] and d['files']]
    if not full_dirs:
        fs[0] = dict(exists=True, files=[('kpickle' if isk else 'pickle', 'H2O.pickle', 'H2O', 1000 * k + 77),
                                         ('kpickle' if isk else 'pickle', 'CO2.pickle', 'CO2', 1000 * k + 78)])
        full_dirs = [0]
    d0 = full_dirs[int(rng.integers(0, len(full_dirs)))]
    mols = sorted({f[2] for f in fs[d0]['files']})
    m = mols[int(rng.integers(0, len(mols)))]
    bad = CACHE_MOLS[int(rng.integers(0, 3))]
    c['other'] = dict(bad=bad, seeds={mm: 1000 * k + 900 + i for i, mm in enumerate(CACHE_MOLS) if mm != bad})
    for _ in range(int(rng.integers(1, 5))):
        r = rng.random()
        mm = CACHE_MOLS[int(rng.integers(0, 3))]
        if r < 0.4:
            ev = ['objMode', mm, int(rng.integers(0, 2))]
        elif r < 0.7:
            ev = ['gcInterp', None if rng.random() < 0.15 else int(rng.integers(0, 2))]
        else:
            ev = ['loadOther', int(rng.integers(0, nd + 1)), mm]
        ops.insert(int(rng.integers(1, len(ops) + 1)), ev)
    a = int(rng.integers(0, 2))
    scen = DRIFT_SCENARIOS[k % 3]
    if scen == 'object-switched':
        tail = [['setPath', d0], ['setInterp', a], ['get', m], ['objMode', m, 1 - a], ['get', m], ['setInterp', a], ['get', m]]
    elif scen == 'global-written':
        tail = [['setPath', d0], ['setInterp', a], ['get', m], ['gcInterp', 1 - a], ['get', m], ['setInterp', 1 - a], ['get', m]]
    else:
        tail = [['setPath', d0], ['clear'], ['loadOther', nd, bad]] + [['get', mm] for mm in CACHE_MOLS]
    c['ops'] = ops + tail
    c['drift'] = scen
    return c


PLUG_OPS = ('plugNew', 'plugAdd', 'plugClear', 'plugGet')
PLUG_SCENARIOS = ['private-add-then-global-get', 'private-clear-after-global-get', 'private-get-then-global-get',
                  'private-created-before-global-history']


def gen_plugin_case(rng, k):
    """histories of the global cache interleaved with the history of a SECOND cache object - an instance of a subclass of
    the cache class, as a plugin keeping its own cache would define, created after the global one exists:
      ['plugNew']          the subclass instantiated (again)
      ['plugAdd', m, k]    a hand-made opacity of molecule m registered in the private cache
      ['plugClear']        the private cache cleared
      ['plugGet', m]       m requested from the private cache (whatever that returns or raises)
    The operations on the private cache are no part of the global cache's history: the model (CacheSM.step / stepK) is run
    on the global cache's own operations only, and what the global cache serves is judged against that.  Four fixed tails
    (quota, every run): a private registration / a private clear / a private lookup of molecule m between two global
    lookups of m; the private cache created and filled before the global history starts."""
    isk = (k // 4) % 2 == 1
    c = gen_kcache_case(rng, k) if isk else gen_cache_case(rng, k)
    fs, ops = c['fs'], c['ops']
    full_dirs = [i for i, d in enumerate(fs) if d['exists'] and d['files']]
    if not full_dirs:
        fs[0] = dict(exists=True, files=[('kpickle' if isk else 'pickle', 'H2O.pickle', 'H2O', 1000 * k + 77),
                                         ('kpickle' if isk else 'pickle', 'CO2.pickle', 'CO2', 1000 * k + 78)])
        full_dirs = [0]
    d0 = full_dirs[int(rng.integers(0, len(full_dirs)))]
    mols = sorted({f[2] for f in fs[d0]['files']})
    m = mols[int(rng.integers(0, len(mols)))]
    for _ in range(int(rng.integers(2, 9))):
        r = rng.random()
        mm = CACHE_MOLS[int(rng.integers(0, 3))]
        if r < 0.4:
            ev = ['plugAdd', mm, int(rng.integers(0, 2))]
        elif r < 0.6:
            ev = ['plugClear']
        elif r < 0.9:
            ev = ['plugGet', mm]
        else:
            ev = ['plugNew']
        ops.insert(int(rng.integers(0, len(ops) + 1)), ev)
    a = int(rng.integers(0, 2))
    scen = PLUG_SCENARIOS[k % 4]
    if scen == 'private-add-then-global-get':
        tail = [['setPath', d0], ['clear'], ['plugClear'], ['plugAdd', m, a], ['get', m], ['get', m], ['plugGet', m]]
    elif scen == 'private-clear-after-global-get':
        tail = [['setPath', d0], ['get', m], ['plugClear'], ['get', m], ['plugAdd', m, a], ['get', m]]
    elif scen == 'private-get-then-global-get':
        tail = [['setPath', d0], ['clear'], ['plugClear'], ['plugGet', m], ['get', m], ['plugClear'], ['get', m]]
    else:
        ops[:0] = [['plugNew'], ['plugAdd', m, a]]
        tail = [['setPath', d0], ['get', m], ['get', m]]
    c['ops'] = ops + tail
    c['plugin'] = scen
    return c


def eval_cache(ctx, c):
    from taurex.cache import OpacityCache, GlobalCache
    from taurex.cache.ktablecache import KTableCache
    full = C.jsonable(c)
    fs, ops = c['fs'], [list(o) for o in c['ops']]
    FMT = {'hdf': 0, 'pickle': 1, 'exo': 2, 'kpickle': 3, 'khdf': 4}
    isk = c['kind'] == 'kcache'
    tag = 'kcache' if isk else 'cache'
    pathkey = 'ktable_path' if isk else 'xsec_path'
    missing_msg = 'Opacity could not be loaded'
    vk = 'ktable-' if isk else ''
    with scratch_env() as root, Recorder() as rec:
        # ---- build the real file system and the model's description of it
        file_ids = {}
        tables = {}
        dirs = []
        toks = [str(len(fs))]
        fid = 0
        for di, d in enumerate(fs):
            p = os.path.join(root, 'dir%d' % di)
            dirs.append(p)
            toks += ['1' if d['exists'] else '0', str(len(d['files']))]
            if d['exists']:
                os.makedirs(p)
            for (fmt, fname, mol, seed) in d['files']:
                tab = small_ktable(seed) if isk else small_table(seed)
                path = os.path.join(p, fname)
                if fmt == 'pickle':
                    write_pickle(path, tab)
                elif fmt == 'exo':
                    write_exo(path, tab)
                elif fmt == 'kpickle':
                    write_kpickle(path, tab, mol)
                elif fmt == 'khdf':
                    write_khdf(path, tab, 'bar')
                else:
                    write_hdf(path, tab, 'bar', mol)
                file_ids[path] = fid
                tables[fid] = tab
                toks += [str(FMT[fmt]), str(fid), C.S(mol), C.S(mol)]
                fid += 1
        dirs.append(os.path.join(root, 'never_created'))
        other_dir = None
        if c.get('other'):
            # a directory the configured path never names: other tables of the molecules and one unreadable file
            other_dir = os.path.join(root, 'other_dir')
            os.makedirs(other_dir)
            for mol, seed in sorted(c['other']['seeds'].items()):
                tab = small_ktable(int(seed)) if isk else small_table(int(seed))
                path = os.path.join(other_dir, mol + '.pickle')
                (write_kpickle(path, tab, mol) if isk else write_pickle(path, tab))
                file_ids[path] = fid
                tables[fid] = tab
                fid += 1
            with open(os.path.join(other_dir, c['other']['bad'] + '.pickle'), 'wb') as fh:
                fh.write(b'\x80\x04\x95\x10')
            file_ids[os.path.join(other_dir, c['other']['bad'] + '.pickle')] = fid      # (a constructor call on it is logged)
        # (operations on a plugin's private cache are no part of the global cache's history: the model runs without them)
        gops = [o for o in ops if o[0] not in PLUG_OPS]
        toks.append(str(len(gops)))
        def opt(v):
            return ['0'] if v is None else ['1', str(int(v))]
        for o in gops:
            code = ['get', 'setPath', 'setInterp', 'setMem', 'clear', 'add', 'unsetInterp', 'unsetPath', 'parfile',
                    'objMode', 'gcInterp', 'loadOther'].index(o[0])
            toks.append(str(code))
            if o[0] in ('get',):
                toks.append(C.S(o[1]))
            elif o[0] == 'setPath' or o[0] == 'setInterp':
                toks.append(str(int(o[1])))
            elif o[0] == 'setMem':
                toks.append('1' if o[1] else '0')
            elif o[0] == 'add':
                toks += [C.S(o[1]), str(int(o[2]))]
            elif o[0] == 'parfile':
                toks += opt(o[1]) + opt(o[2]) + opt(o[3])
            elif o[0] == 'objMode':
                toks += [C.S(o[1]), str(int(o[2]))]
            elif o[0] == 'gcInterp':
                toks += opt(o[1])
            elif o[0] == 'loadOther':
                toks += [str(int(o[1])), C.S(o[2])]
        # CacheConf.stepYK / stepY over stepXK / stepX (the cache's own operations: CacheSM.stepK / CacheSM.step)
        dm = ctx.model().call('c14.kcache' if isk else 'c14.cache', *toks)

        def rd_step():
            code = dm.nat()
            r = dict(code=code)
            if code == 0:
                r.update(id=dm.nat(), mol=dm.str(), mode=dm.nat(), inmem=dm.nat(), src=dm.opt(dm.nat))
            r['nlog'] = dm.nat()
            r['keys'] = dm.list(dm.str)
            return r
        msteps = dm.list(rd_step)
        mlog = dm.list(lambda: (dm.str(), dm.nat()))
        # ---- the real history
        gc = GlobalCache()
        for key in ('xsec_path', 'ktable_path', 'xsec_interpolation', 'xsec_in_memory'):
            gc.variable_dict.pop(key, None)
        OpacityCache().clear_cache()
        KTableCache().clear_cache()
        oc = KTableCache() if isk else OpacityCache()
        ids_impl, ids_model = {}, {}
        keep = []                       # keep served objects alive so that id() stays unique
        segment = {}                    # since the last clearing op: molecule -> object served
        seg_loads = {}                  # since the last clearing op: molecule -> constructor calls
        cur_interp = None
        interp_known = True             # False after the global key was written directly, until a mode takes a cache route
        switched = set()                # id() of objects switched with their own set_interpolation_mode
        cur_path = None
        rlog = []
        sig = []
        hand = set()                    # id() of objects registered by hand in the GLOBAL cache (add_opacity)
        plug_cls = None                 # the plugin's cache class: a subclass of the cache class
        plug_objs = {}                  # id() of objects registered in / served by the private cache -> molecule
        plug_since = {}                 # molecule -> last private-cache op naming it (or a private clear) since its last global get
        mit = iter(msteps)
        for n, o in enumerate(ops):
            before = len(rec.log)
            if o[0] in PLUG_OPS:
                # ---- the second cache object; nothing it does is an operation of the global cache
                if plug_cls is None:
                    plug_cls = type('Plugin' + type(oc).__name__, (type(oc),), {})
                pc = plug_cls()
                if o[0] == 'plugAdd':
                    mo = (mem_opacity(small_ktable(11), MODES[o[2]], weights=[0.4, 0.6]) if isk
                          else mem_opacity(small_table(11), MODES[o[2]]))
                    type(mo).moleculeName = o[1]
                    keep.append(mo)
                    plug_objs[id(mo)] = o[1]
                    pc.add_opacity(mo)
                    plug_since[o[1]] = 'plugAdd'
                elif o[0] == 'plugClear':
                    pc.clear_cache()
                    for mm in CACHE_MOLS:
                        plug_since[mm] = 'plugClear'
                elif o[0] == 'plugGet':
                    try:
                        po = pc[o[1]]
                        keep.append(po)
                        plug_objs.setdefault(id(po), o[1])
                        ctx.bucket(tag + ':plugin-cache:plugGet:served')
                    except Exception as e:
                        ctx.bucket(tag + ':plugin-cache:plugGet:raised:' + type(e).__name__)
                    plug_since[o[1]] = 'plugGet'
                del rec.log[before:]    # (files the private cache constructs are its own loads, not the global cache's)
                ctx.bucket(tag + ':plugin-cache:op:' + o[0])
                sig.append('P' + o[0][4])
                continue
            ms = next(mit)
            r = dict(code=2)
            if o[0] == 'get':
                try:
                    obj = oc[o[1]]
                    keep.append(obj)
                    src = file_ids.get(getattr(obj, '_filename', None))
                    inm = getattr(obj, 'in_memory', None) if src is not None and not isk else None
                    r = dict(code=0, id=ids_impl.setdefault(id(obj), len(ids_impl)), mol=obj.moleculeName,
                             mode=MODES.index(obj._interp_mode), inmem=0 if inm is None else (2 if inm else 1), src=src)
                except Exception as e:
                    obj = None
                    r = dict(code=1)
                    if str(e) != missing_msg:
                        # the scan itself raised (e.g. an unreadable file where the cache should not be looking): judged
                        # below as a present molecule that is not served; the model says what the step should have been
                        r = dict(code=4, raised=repr(e)[:120])
            elif o[0] == 'objMode':
                if o[1] in oc.opacity_dict:
                    ob = oc[o[1]]
                    ob.set_interpolation_mode(MODES[o[2]])
                    switched.add(id(ob))
                    ctx.bucket(tag + ':drift:object-mode-switched')
            elif o[0] == 'gcInterp':
                GlobalCache()['xsec_interpolation'] = None if o[1] is None else MODES[o[1]]
                interp_known = False
                if oc.opacity_dict:
                    ctx.bucket(tag + ':drift:global-key-written:dict-nonempty')
            elif o[0] == 'loadOther':
                target = other_dir if (o[1] >= len(fs) and other_dir) else dirs[min(o[1], len(dirs) - 1)]
                try:
                    oc.load_opacity(opacity_path=target, molecule_filter=[o[2]])
                    ctx.bucket(tag + ':load-other:returned')
                except Exception as e:
                    ctx.bucket(tag + ':load-other:raised:' + type(e).__name__)
            elif o[0] == 'setPath':
                try:
                    cur_path = dirs[o[1]] if o[1] < len(dirs) else dirs[-1]
                    (oc.set_ktable_path if isk else oc.set_opacity_path)(cur_path)
                except NotADirectoryError:
                    r = dict(code=3)
            elif o[0] == 'setInterp':
                if interp_known and cur_interp == o[1] and oc.opacity_dict:
                    ctx.bucket(tag + ':set_interpolation:value-already-stored:dict-nonempty')
                OpacityCache().set_interpolation(MODES[o[1]])
                cur_interp = o[1]
                interp_known = True
            elif o[0] == 'unsetInterp':
                # the setting taken back to "not configured" (documented default: linear)
                if oc.opacity_dict:
                    ctx.bucket(tag + ':mode-change:unset:dict-nonempty')
                OpacityCache().set_interpolation(None)
                cur_interp = None
                interp_known = True
            elif o[0] == 'unsetPath':
                GlobalCache()[pathkey] = None
                cur_path = None
            elif o[0] == 'parfile':
                # the same settings arriving through a parameter file (ParameterParser.read + setup_globals)
                from taurex.parameter import ParameterParser
                lines = ['[Global]']
                if o[1] is not None:
                    lines.append('%s = %s' % (pathkey, dirs[o[1]] if o[1] < len(dirs) else dirs[-1]))
                if o[2] is not None:
                    lines.append('xsec_interpolation = %s' % MODES[o[2]])
                if o[3] is not None:
                    lines.append('xsec_in_memory = %s' % bool(o[3]))
                pf = os.path.join(root, 'setup_%d.par' % n)
                with open(pf, 'w') as fh:
                    fh.write('\n'.join(lines) + '\n')
                if o[2] is not None and oc.opacity_dict and o[3] is None:
                    ctx.bucket(tag + ':mode-change:parfile:dict-nonempty')
                pp = ParameterParser()
                pp.read(pf)
                if o[1] is not None:
                    cur_path = dirs[o[1]] if o[1] < len(dirs) else dirs[-1]
                try:
                    pp.setup_globals()
                    if o[2] is not None:
                        cur_interp = o[2]
                        interp_known = True
                except NotADirectoryError:
                    r = dict(code=3)
            elif o[0] == 'setMem':
                OpacityCache().set_memory_mode(bool(o[1]))
            elif o[0] == 'clear':
                oc.clear_cache()
            elif o[0] == 'add':
                mo = (mem_opacity(small_ktable(7), MODES[o[2]], weights=[0.4, 0.6]) if isk
                      else mem_opacity(small_table(7), MODES[o[2]]))
                type(mo).moleculeName = o[1]
                keep.append(mo)
                hand.add(id(mo))
                oc.add_opacity(mo)
            new_loads = rec.log[before:]
            for fn in new_loads:
                rlog.append((o[2] if o[0] == 'loadOther' else o[1], file_ids[fn]))
            # (constructor calls of an explicit load_opacity are the user's, not a request of the cache: logged and compared
            # with the model, not counted as loads of a lookup)
            r['nlog'] = len(rlog)
            r['keys'] = list(oc.opacity_dict.keys())
            if ms['code'] == 0:
                ms = dict(ms, id=ids_model.setdefault(ms['id'], len(ids_model)))
            if o[0] == 'setPath' and o[1] >= len(fs):
                pass
            cs = dict(kind=tag, step=n, op=o, nops=len(ops))
            ctx.check_eq('KTableCache history step vs CacheSM.stepK' if isk else 'OpacityCache history step vs CacheSM.step', r, ms,
                         dict(cs, fs=fs, ops=ops[:n + 1]))
            sig.append(o[0][0] + str(r['code']))
            # ---- the property's own predicates on the implementation
            if o[0] in ('setInterp', 'setMem', 'clear', 'unsetInterp') or \
                    (o[0] == 'parfile' and r['code'] == 2 and (o[2] is not None or (o[3] is not None and not isk))):
                segment, seg_loads = {}, {}
            ctx.bucket(tag + ':op:' + o[0])
            if o[0] == 'get':
                seg_loads[o[1]] = seg_loads.get(o[1], 0) + len(new_loads)
                if seg_loads[o[1]] > 1:
                    ctx.violation(vk + 'loaded-more-than-once', 'a molecule was constructed more than once between two cache '
                                  'clears', full, dict(step=n, mol=o[1], files=new_loads))
                if o[1] in plug_since:
                    ctx.bucket(tag + ':plugin-cache:global-get-after-' + plug_since.pop(o[1]) + '-of-same-molecule')
                if obj is not None and getattr(obj, '_filename', None) not in file_ids and id(obj) not in hand:
                    # served by the global cache, yet neither loaded from a file of this case nor registered in it by hand
                    ctx.violation(vk + 'served-object-not-loaded-from-path', 'the cache served an object that it neither '
                                  'loaded from the configured ' + pathkey + ' nor was given with its own add_opacity'
                                  + (' (the object belongs to another cache object, a subclass instance)'
                                     if id(obj) in plug_objs else ''), full,
                                  dict(step=n, mol=o[1], served=type(obj).__name__, of_private_cache=id(obj) in plug_objs))
                elif obj is not None and id(obj) in plug_objs and id(obj) not in hand:
                    # a file object the private cache loaded for itself (never given to the global cache)
                    ctx.violation(vk + 'served-object-of-another-cache', 'the cache served the object another cache object '
                                  '(a subclass instance) had loaded for itself', full, dict(step=n, mol=o[1]))
                if obj is not None:
                    if o[1] in segment and segment[o[1]] is not obj:
                        ctx.violation(vk + 'served-different-object', 'the cache served two different objects for one '
                                      'molecule without a clear in between', full, dict(step=n, mol=o[1]))
                    segment[o[1]] = obj
                    if obj.moleculeName != o[1]:
                        ctx.violation(vk + 'served-wrong-molecule', 'object served under a different molecule name', full,
                                      dict(step=n, asked=o[1], got=obj.moleculeName))
                    fn = getattr(obj, '_filename', None)
                    if fn in file_ids and (not interp_known or id(obj) in switched):
                        # the user switched this object / wrote the global key directly after the last mode change made
                        # through the cache: nothing is stated about its mode until a mode takes a cache route again
                        ctx.bucket(tag + ':unjudged-mode(object switched or global key written directly)')
                    elif fn in file_ids:
                        want = MODES[cur_interp] if cur_interp is not None else 'linear'
                        if obj._interp_mode != want:
                            ctx.violation(vk + 'interp-stale', 'an opacity served after set_interpolation(%r) has mode %r'
                                          % (want, obj._interp_mode), full, dict(step=n, mol=o[1]))
                        T, P = 640.0, 3.3e4
                        got = flat(obj.opacity(T, P))
                        rt = tables[file_ids[fn]]
                        ref = flat(mem_opacity(rt, want, weights=rt.get('weights')).opacity(T, P))
                        if not C.close(got, ref, rel=1e-9, abs_=1e-45):
                            ctx.violation(vk + 'interp-not-effective', 'opacity(T,P) of the served object is not the %s '
                                          'interpolation of its table' % want, full, dict(step=n, mol=o[1], got=got, want=ref))
                    if fn in file_ids:
                        if new_loads and os.path.dirname(fn) != cur_path:
                            ctx.violation(vk + 'loaded-from-wrong-path', 'molecule loaded from a directory that is not the '
                                          'configured ' + pathkey, full, dict(step=n, file=fn, path=cur_path))
                else:
                    present = cur_path is not None and os.path.isdir(cur_path) and any(
                        m == o[1] for d_, dd in zip(dirs, fs) if d_ == cur_path for (_, _, m, _) in dd['files'])
                    if present:
                        ctx.violation(vk + 'present-not-served', 'a molecule with a valid file in the configured path could '
                                      'not be loaded', full, dict(step=n, mol=o[1]))
        ctx.check_eq('constructor-call log vs CacheSM log', rlog, mlog, dict(kind=tag, fs=fs, ops=ops))
        ctx.case(key=(tag, ''.join(sig)[:60]), sample=dict(kind=tag, ops=ops[:10], trace=sig[:10]),
                 bucket=tag + ':history')
        ctx.bucket(tag + ':ops', len(ops))
        if c.get('drift'):
            ctx.bucket(tag + ':drift-history:' + c['drift'])
        if c.get('plugin'):
            ctx.bucket(tag + ':plugin-history:' + c['plugin'])
        keep = None


# ----------------------------------------------------------------------------------------- CIA cache histories
CIA_PAIRS = ['H2-H2', 'H2-He', 'N2-N2']


def small_ctable(seed):
    rng = np.random.Generator(np.random.PCG64(seed))
    return dict(wn=np.array([20.0, 40.0, 90.0]), t=np.array([200.0, 300.0, 500.0]),
                x=10 ** rng.uniform(-46, -43, size=(3, 3)))


class CiaRecorder:
    """records the constructor calls of the two CIA classes (file name, in call order)"""

    def __init__(self):
        self.log = []

    def __enter__(self):
        from taurex.cia import PickleCIA, HitranCIA
        self.saved = []
        rec = self
        for cls in (PickleCIA, HitranCIA):
            orig = cls.__init__

            def wrapped(self_, filename, *a, _orig=orig, **k):
                rec.log.append(filename)
                return _orig(self_, filename, *a, **k)
            self.saved.append((cls, orig))
            cls.__init__ = wrapped
        return self

    def __exit__(self, *a):
        for cls, orig in self.saved:
            cls.__init__ = orig


def gen_ciacache_case(rng, k):
    """file system: list of dirs; dir = dict(exists, files=[(fmt, fname, pair read off the name, pair the object reports,
    tableseed)]).  Per directory and pair (quota): no container / `.db` only / `.cia` only / BOTH a `.db` and a `.cia` /
    several containers (two of one format, with or without one of the other).  A `.cia` file may carry another pair name in
    its block headers than in its file name (inconsistent; rare).  The order inside a directory is fixed at run time by the
    order `glob` returns (eval_ciacache)."""
    ndirs = int(rng.integers(2, 4))
    fs = []
    seed = 0
    sufs = ['', '_2011', '_norm_2018']
    for di in range(ndirs):
        if di == ndirs - 1 and rng.random() < 0.3:
            fs.append(dict(exists=False, files=[]))
            continue
        files = []
        for pair in CIA_PAIRS:
            r = rng.random()
            if r < 0.2:
                fmts = []
            elif r < 0.42:
                fmts = ['db']
            elif r < 0.62:
                fmts = ['cia']
            elif r < 0.87:
                fmts = ['db', 'cia']
            else:
                fmts = [['db', 'db'], ['cia', 'cia'], ['db', 'db', 'cia'], ['db', 'cia', 'cia']][int(rng.integers(0, 4))]
            perm = [int(v) for v in rng.permutation(3)]
            used = {'db': 0, 'cia': 0}
            for fmt in fmts:
                seed += 1
                suffix = sufs[perm[used[fmt]]] if len(fmts) > 1 else sufs[int(rng.integers(0, 3))]
                used[fmt] += 1
                inner = pair
                if fmt == 'cia' and rng.random() < 0.05:
                    inner = CIA_PAIRS[int(rng.integers(0, 3))]
                files.append((fmt, pair + suffix + '.' + fmt, pair, inner, 1000 * k + seed))
        fs.append(dict(exists=True, files=files))

    def path():
        if rng.random() < 0.65:
            return ['single', int(rng.integers(0, ndirs))]
        return ['many', [int(v) for v in rng.permutation(ndirs)[:int(rng.integers(0, ndirs + 1))]]]
    ops = [['setPath', path()]] if rng.random() < 0.85 else []
    for _ in range(int(rng.integers(6, 26))):
        r = rng.random()
        if r < 0.64:
            ops.append(['get', CIA_PAIRS[int(rng.integers(0, 3))] if rng.random() < 0.9 else 'XX-YY'])
        elif r < 0.87:
            ops.append(['setPath', path()])
        else:
            ops.append(['add', CIA_PAIRS[int(rng.integers(0, 3))] if rng.random() < 0.8 else 'XX-YY'])
    return dict(kind='ciacache', fs=fs, ops=ops)


def gen_ciaplugin_case(rng, k):
    """a CIA cache history interleaved with operations on a second cache object - an instance of a subclass of CIACache
    created after the global one exists: ['plugNew'], ['plugAdd', pair] (a hand-made CIA object registered in the private
    cache), ['plugGet', pair].  They are no part of the global cache's history (the model runs without them).  Fixed tail
    (every case): a private registration, then a private lookup, of a pair of the configured path right before the global
    cache is asked for it for the first time."""
    c = gen_ciacache_case(rng, k)
    fs, ops = c['fs'], c['ops']
    for _ in range(int(rng.integers(1, 6))):
        r = rng.random()
        pr = CIA_PAIRS[int(rng.integers(0, 3))]
        ev = ['plugAdd', pr] if r < 0.5 else (['plugGet', pr] if r < 0.9 else ['plugNew'])
        ops.insert(int(rng.integers(0, len(ops) + 1)), ev)
    full_dirs = [i for i, d in enumerate(fs) if d['exists'] and d['files']]
    if full_dirs:
        d0 = full_dirs[int(rng.integers(0, len(full_dirs)))]
        asked = {o[1] for o in ops if o[0] in ('get', 'add')}
        pairs = sorted({f[2] for f in fs[d0]['files']} - asked) or sorted({f[2] for f in fs[d0]['files']})
        pr = pairs[int(rng.integers(0, len(pairs)))]
        ops += [['setPath', ['single', d0]], ['plugAdd', pr], ['plugGet', pr], ['get', pr], ['get', pr]]
    c['plugin'] = 'private-add-then-global-get'
    return c


def eval_ciacache(ctx, c):
    """a history on the real CIACache in lock-step with `CiaSM.step` (driver op c14.ciacache)"""
    from taurex.cache import CIACache
    from taurex.cia import CIA
    full = C.jsonable(c)
    fs, ops = c['fs'], [list(o) for o in c['ops']]
    MISSING, DUP = 'cia could notn be loaded', 'cia for molecule %s already exists'
    with scratch_env() as root, CiaRecorder() as rec:
        from glob import glob as _glob
        file_ids, tables, dirs = {}, {}, []
        toks = [str(len(fs))]
        fid = 0
        scan = []                       # per directory: its files in the order load_cia_from_path visits them
        for di, d in enumerate(fs):
            p = os.path.join(root, 'cdir%d' % di)
            dirs.append(p)
            if d['exists']:
                os.makedirs(p)
            byname = {}
            for (fmt, fname, pair, inner, seed) in d['files']:
                tab = small_ctable(seed)
                path = os.path.join(p, fname)
                if fmt == 'db':
                    write_cia_pickle(path, tab)
                else:
                    write_hitran(path, inner, enc_hitran_single(tab))
                byname[path] = (fmt, fname, pair, inner, seed, tab)
            # the model lists a directory in the order the two glob calls of the reader return its files
            order = (_glob(os.path.join(p, '*.db')) + _glob(os.path.join(p, '*.cia'))) if d['exists'] else []
            if sorted(order) != sorted(byname):
                raise C.InfraError('glob does not return the files written: %r' % (order,))
            toks.append(str(len(order)))
            lst = []
            for path in order:
                fmt, fname, pair, inner, seed, tab = byname[path]
                file_ids[path] = fid
                tables[fid] = tab
                toks += ['0' if fmt == 'db' else '1', str(fid), C.S(pair), C.S(inner)]
                lst.append((path, pair, inner))
                fid += 1
            scan.append(lst)
        # (operations on a plugin's private cache are no part of the global cache's history: the model runs without them)
        gops = [o for o in ops if o[0] not in PLUG_OPS]
        toks.append(str(len(gops)))
        for o in gops:
            if o[0] == 'get':
                toks += ['0', C.S(o[1])]
            elif o[0] == 'setPath':
                toks += (['1', '0', str(int(o[1][1]))] if o[1][0] == 'single'
                         else ['1', '1', str(len(o[1][1]))] + [str(int(v)) for v in o[1][1]])
            else:
                toks += ['2', C.S(o[1])]
        dm = ctx.model().call('c14.ciacache', *toks)

        def rd_step():
            code = dm.nat()
            r = dict(code=code)
            if code == 0:
                r.update(id=dm.nat(), pair=dm.str(), src=dm.opt(dm.nat))
            r['nlog'] = dm.nat()
            r['keys'] = dm.list(dm.str)
            return r
        msteps = dm.list(rd_step)
        mlog = dm.list(lambda: (dm.str(), dm.nat()))
        # ---- the real history
        cc = CIACache()
        cc.cia_dict = {}
        cc._cia_path = None
        ids_impl, ids_model = {}, {}
        keep = []
        served = {}                     # pair -> object served (there is no clearing operation)
        loads = {}                      # pair -> constructor calls
        added = set()                   # pairs a user object was cached for
        cur = []                        # the directories of the configured path
        rlog = []
        sig = []
        plug_cls = None                 # the plugin's cache class: a subclass of CIACache
        plug_objs = set()               # id() of objects registered in / served by the private cache
        plug_since = {}
        mit = iter(msteps)
        for n, o in enumerate(ops):
            before = len(rec.log)
            if o[0] in PLUG_OPS:
                # ---- the second cache object; nothing it does is an operation of the global cache
                if plug_cls is None:
                    plug_cls = type('PluginCIACache', (CIACache,), {})
                pc = plug_cls()
                if o[0] == 'plugAdd':
                    class PlugCIA(CIA):
                        def __init__(self, pair):
                            super().__init__('PlugCIA', pair)
                    mo = PlugCIA(o[1])
                    keep.append(mo)
                    plug_objs.add(id(mo))
                    try:
                        pc.add_cia(mo)
                    except Exception as e:
                        if str(e) != DUP:
                            raise
                    plug_since[o[1]] = 'plugAdd'
                elif o[0] == 'plugGet':
                    try:
                        po = pc[o[1]]
                        keep.append(po)
                        plug_objs.add(id(po))
                        ctx.bucket('ciacache:plugin-cache:plugGet:served')
                    except Exception as e:
                        ctx.bucket('ciacache:plugin-cache:plugGet:raised')
                    plug_since[o[1]] = 'plugGet'
                del rec.log[before:]    # (files the private cache constructs are its own loads, not the global cache's)
                ctx.bucket('ciacache:plugin-cache:op:' + o[0])
                sig.append('P' + o[0][4])
                continue
            ms = next(mit)
            r = dict(code=2)
            obj = None
            if o[0] == 'get':
                if o[1] in plug_since:
                    ctx.bucket('ciacache:plugin-cache:global-get-after-' + plug_since.pop(o[1]) + '-of-same-pair')
                try:
                    obj = cc[o[1]]
                    keep.append(obj)
                    r = dict(code=0, id=ids_impl.setdefault(id(obj), len(ids_impl)), pair=obj.pairName,
                             src=file_ids.get(getattr(obj, '_filename', None)))
                except Exception as e:
                    if str(e) == MISSING:
                        r = dict(code=1)
                    elif str(e) == DUP:
                        r = dict(code=3)
                    else:
                        raise
            elif o[0] == 'setPath':
                cur = [dirs[o[1][1]]] if o[1][0] == 'single' else [dirs[i] for i in o[1][1]]
                cc.set_cia_path(cur[0] if o[1][0] == 'single' else list(cur))
            else:
                class MemCIA(CIA):
                    def __init__(self, pair):
                        super().__init__('MemCIA', pair)
                mo = MemCIA(o[1])
                keep.append(mo)
                try:
                    cc.add_cia(mo)
                except Exception as e:
                    if str(e) != DUP:
                        raise
                    r = dict(code=3)
            new_loads = rec.log[before:]
            for fn in new_loads:
                rlog.append((o[1], file_ids[fn]))
            r['nlog'] = len(rlog)
            r['keys'] = list(cc.cia_dict.keys())
            if ms['code'] == 0:
                ms = dict(ms, id=ids_model.setdefault(ms['id'], len(ids_model)))
            ctx.check_eq('CIACache history step vs CiaSM.step', r, ms,
                         dict(kind='ciacache', step=n, op=o, nops=len(ops), fs=fs, ops=ops[:n + 1]))
            sig.append(o[0][0] + str(r['code']))
            # ---- the property's own predicates on the implementation, for every pair none of whose containers (anywhere in
            #      the file system) is an inconsistent `.cia` file — however MANY containers the pair has in the path:
            #      the first request is served, from the first container in scan order (path order, `.db` before `.cia`, glob
            #      order), with one constructor call; nothing raises; later requests get the same object
            if o[0] == 'add' and r['code'] == 2:
                added.add(o[1])
            if o[0] == 'get':
                loads[o[1]] = loads.get(o[1], 0) + len(new_loads)
                clean = all(pr == inn for lst in scan for (_, pr, inn) in lst if o[1] in (pr, inn))
                first = next((pth for d_ in cur for di_, dd_ in enumerate(dirs[:len(fs)]) if dd_ == d_
                              for (pth, pr, _) in scan[di_] if pr == o[1]), None)
                if obj is not None and id(obj) in plug_objs:
                    ctx.violation('cia-served-object-of-another-cache', 'the CIA cache served an object that another cache '
                                  'object (a subclass instance) was given or had loaded for itself', full,
                                  dict(step=n, pair=o[1], served=type(obj).__name__))
                if obj is not None:
                    if o[1] in served and served[o[1]] is not obj:
                        ctx.violation('cia-served-different-object', 'the CIA cache served two different objects for one pair',
                                      full, dict(step=n, pair=o[1]))
                    if obj.pairName != o[1]:
                        ctx.violation('cia-served-wrong-pair', 'CIA object served under a different pair name', full,
                                      dict(step=n, asked=o[1], got=obj.pairName))
                    elif (obj.pairOne, obj.pairTwo) != (o[1].split('-')[0], o[1].split('-')[-1]):
                        ctx.violation('cia-cache-partners', 'the object served for a pair reports other collision partners '
                                      'than the halves of its pair name', full,
                                      dict(step=n, pair=o[1], pairOne=obj.pairOne, pairTwo=obj.pairTwo))
                    fn = getattr(obj, '_filename', None)
                    if fn in file_ids:
                        T = 260.0
                        got = flat(obj.cia(T))
                        ref = flat(cia_reference(tables[file_ids[fn]], T, None))
                        if not C.close(got, ref, rel=1e-9, abs_=1e-60):
                            ctx.violation('cia-cache-value', 'cia(T) of the served object is not that of its file', full,
                                          dict(step=n, pair=o[1], got=got, want=ref))
                        if new_loads and os.path.dirname(fn) not in cur:
                            ctx.violation('cia-loaded-from-wrong-path', 'pair loaded from a directory that is not in the '
                                          'configured cia_path', full, dict(step=n, file=fn, path=cur))
                if clean:
                    if r['code'] == 3:
                        ctx.violation('cia-get-raises-duplicate', 'a request raised the duplicate exception of add_cia '
                                      '(several containers of one pair in the path?)', full,
                                      dict(step=n, pair=o[1], files=new_loads))
                    if o[1] not in served and o[1] not in added:
                        if first is not None and obj is None:
                            ctx.violation('cia-present-not-served', 'a pair with a valid container in the configured path '
                                          'could not be loaded', full, dict(step=n, pair=o[1], code=r['code']))
                        if first is not None and obj is not None and getattr(obj, '_filename', None) != first:
                            ctx.violation('cia-not-first-container', 'the pair was not served from the first container in '
                                          'scan order (.db before .cia)', full,
                                          dict(step=n, pair=o[1], served=getattr(obj, '_filename', None), first=first))
                        if first is None and obj is not None:
                            ctx.violation('cia-served-without-container', 'a pair without a container in the path was '
                                          'served', full, dict(step=n, pair=o[1]))
                    if loads[o[1]] > 1:
                        ctx.violation('cia-loaded-more-than-once', 'a pair was constructed more than once', full,
                                      dict(step=n, pair=o[1], files=new_loads))
                if obj is not None:
                    served[o[1]] = obj
                ncont = sum(1 for d_ in cur for di_, dd_ in enumerate(dirs[:len(fs)]) if dd_ == d_
                            for (_, pr, _) in scan[di_] if pr == o[1])
                ctx.bucket('ciacache:get:containers=%s' % (ncont if ncont < 3 else '3+'))
        ctx.check_eq('CIA constructor-call log vs CiaSM log', rlog, mlog, dict(kind='ciacache', fs=fs, ops=ops))
        ctx.case(key=('ciacache', ''.join(sig)[:60]), sample=dict(kind='ciacache', ops=ops[:10], trace=sig[:10]),
                 bucket='ciacache:history')
        ctx.bucket('ciacache:ops', len(ops))
        if c.get('plugin'):
            ctx.bucket('ciacache:plugin-history:' + c['plugin'])
        keep = None


# ----------------------------------------------------------------------------------------- names / units
NAME_PIECES = ['H', 'h', '2', '16', 'O', 'He', 'Ti', '-', '_', '.', '__', 'C', 'x', '1', 'Na', 'R100', 'opac', 'TauREx', 'é',
               '+', 'Z', 'z9']


def eval_names(ctx, n):
    from taurex.util.util import sanitize_molecule_string
    import pathlib
    rng = ctx.rng
    fixed = [('1H2-16O', 'H2O'), ('H2O', 'H2O'), ('12C-16O2', 'CO2'), ('48Ti-16O', 'TiO'), ('', ''), ('h2o', ''),
             ('HeH+', 'HeH'), ('Na2', 'Na2'), ('NaCl', 'NaCl'), ('aBcD12e3', 'BcD12')]
    for s, want in fixed:
        got = sanitize_molecule_string(s)
        dm = ctx.model().call('c14.sanitize', C.S(s)).str()
        ctx.case(key=('name', s), bucket='names:fixed')
        ctx.check_eq('sanitize_molecule_string vs Sanitize.sanitize', got, dm, dict(s=s))
        if got != want:
            ctx.violation('sanitize-example', 'documented sanitising example fails', dict(kind='name', s=s), dict(got=got, want=want))
    for _ in range(n):
        s = ''.join(NAME_PIECES[int(i)] for i in rng.integers(0, len(NAME_PIECES), size=int(rng.integers(0, 8))))
        got = sanitize_molecule_string(s)
        dm = ctx.model().call('c14.sanitize', C.S(s)).str()
        ctx.case(key=('name', got), sample=dict(s=s, impl=got, model=dm), bucket='names:random')
        ctx.check_eq('sanitize_molecule_string vs Sanitize.sanitize', got, dm, dict(s=s))
        if sanitize_molecule_string(got) != got:
            ctx.violation('sanitize-not-idempotent', 'sanitising twice changes the name', dict(kind='name', s=s))
        if not re.fullmatch('[A-Za-z0-9]*', got):
            ctx.violation('sanitize-not-alnum', 'sanitised name has other characters', dict(kind='name', s=s))
        if s and '/' not in s and s not in ('.', '..'):
            st = pathlib.Path('/x/' + s).stem if s.strip('.') else None
            if st is not None:
                ms = ctx.model().call('c14.stem', C.S(s)).str()
                ctx.check_eq('pathlib stem vs Sanitize.stem', st, ms, dict(s=s))


def validate_units(ctx):
    import astropy.units as u
    for name, f in list(UNITS.items()) + [('furlong', None), ('K', None)]:
        try:
            try:
                got = float(u.Unit(name).to(u.Pa))
            except Exception:
                got = float(u.Unit(name, format='cds').to(u.Pa))
        except Exception:
            got = None
        dm = ctx.model().call('c14.unit', '1', C.S(name)).opt()
        ctx.bucket('units')
        if (got is None) != (dm is None) or (got is not None and not C.close(got, dm, rel=1e-12)):
            ctx.mismatch('astropy unit factor vs Loaders.unitFactor', dict(unit=name), dict(impl=got, model=dm))
        if f is not None and (got is None or not C.close(got, f, rel=1e-12)):
            ctx.mismatch('astropy unit factor vs harness table', dict(unit=name), dict(impl=got, table=f))


# ----------------------------------------------------------------------------------------- malformed stream
def malformed(ctx, n):
    from taurex.cache import OpacityCache, CIACache, GlobalCache
    rng = ctx.rng
    for k in range(n):
        kind = ['exo-trailing-blank', 'hdf-unknown-unit', 'pickle-missing-key', 'no-path', 'hitran-overlap',
                'kpickle-name-mismatch', 'ktable-two-files-one-molecule'][k % 7]
        try:
            with scratch_env() as root:
                oc = OpacityCache()
                oc.clear_cache()
                c = canon(gen_xsec_case(rng, k))
                tab = dict(wn=c['wn'], t=c['t'], p=c['p'], x=c['x'])
                if kind == 'exo-trailing-blank':
                    write_exo(os.path.join(root, 'opacH2O.dat'), tab, tail='\n')
                    oc.set_opacity_path(root)
                    oc['H2O']
                elif kind == 'hdf-unknown-unit':
                    UNITS['furlong'] = 1.0
                    try:
                        write_hdf(os.path.join(root, 'a.h5'), tab, 'furlong', 'H2O')
                    finally:
                        del UNITS['furlong']
                    oc.set_opacity_path(root)
                    oc['H2O']
                elif kind == 'pickle-missing-key':
                    with open(os.path.join(root, 'H2O.pickle'), 'wb') as f:
                        pickle.dump(dict(wno=c['wn'], t=c['t']), f)
                    oc.set_opacity_path(root)
                    oc['H2O']
                elif kind == 'no-path':
                    GlobalCache().variable_dict.pop('xsec_path', None)
                    oc['H2O']
                elif kind == 'hitran-overlap':
                    cc = CIACache()
                    cc.cia_dict = {}
                    blocks = [dict(wn0=10.0, wn1=30.0, T=200.0, mx=1.0, pts=[(10.0, 1.0), (20.0, 2.0), (30.0, 3.0)]),
                              dict(wn0=20.0, wn1=40.0, T=300.0, mx=1.0, pts=[(20.0, 1.0), (30.0, 2.0), (40.0, 3.0)])]
                    write_hitran(os.path.join(root, 'H2-H2.cia'), 'H2-H2', blocks)
                    cc.set_cia_path(root)
                    cc['H2-H2'].cia(250.0)
                elif kind == 'ktable-two-files-one-molecule':
                    # outside the domain (two k-table files of one molecule): both are constructed by one request
                    # (CacheSM.stepK; example below Props/C14.lean: ktable_same_machine)
                    from taurex.cache.ktablecache import KTableCache
                    write_kpickle(os.path.join(root, 'H2O.pickle'), small_ktable(k), 'H2O')
                    write_khdf(os.path.join(root, 'H2O_x.h5'), small_ktable(k + 1), 'bar')
                    GlobalCache()['ktable_path'] = root
                    KTableCache().clear_cache()
                    with Recorder() as rec:
                        KTableCache()['H2O']
                    ctx.malformed_outcome(kind + ':constructor-calls=%d' % len(rec.log))
                    continue
                else:
                    from taurex.cache.ktablecache import KTableCache
                    kt = canon(gen_ktab_case(rng, k))
                    write_kpickle(os.path.join(root, 'H2O.pickle'), kt, 'CH4')
                    GlobalCache()['ktable_path'] = root
                    KTableCache().clear_cache()
                    KTableCache()['H2O']
            ctx.malformed_outcome(kind + ':accepted')
        except Exception as e:
            ctx.malformed_outcome(kind + ':' + type(e).__name__)


# ----------------------------------------------------------------------------------------- entry points
EVAL = dict(xsec=eval_xsec, ktab=eval_ktab, cia=eval_cia, cache=eval_cache, kcache=eval_cache, ciacache=eval_ciacache)


def run(ctx):
    validate_units(ctx)
    eval_names(ctx, ctx.n(150, 3000))
    for k in range(ctx.n(60, 1200)):
        eval_xsec(ctx, gen_xsec_case(ctx.rng, k))
    for k in range(ctx.n(60, 1500)):
        eval_cia(ctx, gen_cia_case(ctx.rng, k))
    for k in range(ctx.n(40, 800)):
        eval_ktab(ctx, gen_ktab_case(ctx.rng, k))
    for k in range(ctx.n(100, 2500)):
        eval_cache(ctx, gen_cache_case(ctx.rng, k))
    for k in range(ctx.n(50, 1200)):
        eval_cache(ctx, gen_kcache_case(ctx.rng, k))
    for k in range(ctx.n(50, 1200)):
        eval_ciacache(ctx, gen_ciacache_case(ctx.rng, k))
    malformed(ctx, ctx.n(12, 60))
    # (round-7 stream after the older ones, whose draws stay as they were) objects / global setting drifted apart, loads
    # naming another directory
    for k in range(ctx.n(48, 900)):
        eval_cache(ctx, gen_drift_case(ctx.rng, k))
    # (round-8 stream, after the older ones) the global cache's history interleaved with that of a plugin's private cache
    for k in range(ctx.n(40, 800)):
        eval_cache(ctx, gen_plugin_case(ctx.rng, k))
    for k in range(ctx.n(24, 500)):
        eval_ciacache(ctx, gen_ciaplugin_case(ctx.rng, k))


def replay(ctx, case):
    case = case.get('case', case)
    kind = case.get('kind')
    if kind == 'name':
        from taurex.util.util import sanitize_molecule_string
        s = case['s']
        got = sanitize_molecule_string(s)
        ctx.case(key=('name', s), bucket='names:replay')
        ctx.check_eq('sanitize_molecule_string vs Sanitize.sanitize', got, ctx.model().call('c14.sanitize', C.S(s)).str(),
                     dict(s=s))
        if sanitize_molecule_string(got) != got:
            ctx.violation('sanitize-not-idempotent', 'sanitising twice changes the name', dict(kind='name', s=s))
        return
    if kind == 'cia':
        case = dict(case)
        case['ranges'] = [dict(wn=np.asarray(r['wn'], float), tidx=[int(i) for i in r['tidx']],
                               vals=np.asarray(r['vals'], float)) for r in case['ranges']]
    if kind == 'xsec' or kind == 'ktab':
        case = dict(case)
        case['pts'] = [tuple(p) for p in case['pts']]
    EVAL[kind](ctx, case)
