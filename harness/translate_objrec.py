"""Nested dict records and dict-filling loops for harness/translate.py — `FnObjRec(FnObj)`, the translator class of specs with
`dialect='objrec'`.  Everything of `dialect='obj'` (harness/translate_obj.py, read its docstring) is translated exactly as
there (the same text); in addition:

  * NESTED RECORDS.  A dict local with string keys (a record, see translate_obj.py) may hold sub-dicts: `R['a'] = {}` opens the
    sub-dict `a`, `R['a']['k'] = e` stores a leaf into it (any depth; the sub-dict must have been opened by the function, a
    leaf / sub-dict is stored once, only at the top level of the function).  The record is FLAT in Lean: one component per
    leaf, named by its path (`a/k`), in the order of the path keys; the generated `<lean>_keys` lists the paths.  Keys in
    `dict_skip` (a key or a whole path) are left out.  A dict display may contain `{}` values (opened sub-dicts).  Leaves may
    also be 2-D arrays ('list2') and index arrays ('natlist').  A sub-dict that is still empty at the end is refused.
  * `return R` for the record named by `result=`: the value of the function is the record.
  * DICT-FILLING LOOPS.  `loops={'<text of the iterable>': '<callname>'}`: the loop `for i, x in enumerate(X)` (X a list of
    abstract objects, kind 'objlist:T') whose ONE ITERATION is the translated function registered under <callname> (a spec
    with `loop_body=` of the same function and the same loop — checked) and whose last statement stores the iteration's record
    under the loop key, `R[…]['k'][x] = <record>`, into a sub-dict that is still empty: the sub-dict is the list of its
    (key, value) stores in iteration order, `List.map (fun it => (it.1, <iteration> it.2 <free variables>)) (List.zipIdx X)`
    (a dict is determined by the sequence of its stores).  The free variables of the iteration are the variables of the same
    names at the kinds the iteration declares; none of them may be assigned in the loop body (the iterations are
    independent); everything the body assigns is unavailable after the loop.
  * `l.argmax()`-like methods of a list with a natural-number value: `nat_methods={'argmax': 'argmax'}` — a function parameter
    `argmax : List α → Nat` whose documented behaviour the tie theorem supplies.
  * `loop_target='<text of the loop target>'` selects the loop for `loop_body=` when its iterable text is not unique.
  * WHOLE FUNCTIONS AROUND A FOREIGN SEGMENT (the store functions of the MultiNest / PolyChord wrappers):
      - `ignore_stmts=[regex, …]`: top-level statements whose text matches are left out — statements about values the
        translation takes as inputs (the sampler's own statistics dictionary); the spec documents each;
      - `segment=dict(start=<text of the first statement>, stop=<text prefix of the first statement after it>,
        call=<callname>, args={free local of the callee: (lean name, kind)}, binds=[kinds])`: that statement range is the
        function registered under <callname> — a `dialect='seq'` spec with the SAME `start_at` / `stop_at` (checked), whose
        value is the tuple of its `result` locals; they are bound here at the kinds `binds` ('list3' = a list of 2-D
        arrays).  The callee's free locals are parameters (`args`), its own parameters are passed on by name;
      - `loops={'range(len(X))' | 'range(n)': <callname>}`: the loop `for n in range(…)` whose ONE ITERATION is the translated
        function registered under <callname> and whose last statement stores the iteration's record under the key
        `'lit{}'.format(n)` into a sub-dict that is still empty: the sub-dict is the list of its stores,
        `List.map (fun n => ("lit" ++ toString n, <iteration> …)) (List.range …)`.  A parameter of the iteration that was
        declared by an expression text mentioning the loop index (`modes_array[nmode]`,
        `NEST_stats['modes'][nmode]['mean']`) is that expression AS A FUNCTION OF THE INDEX: `X[n]` for a local list `X` is
        `List.getD X n []`, any other text is a parameter `Nat → T` applied to `n`."""
import ast
import re

from harness.translate import Untranslatable
from harness.translate_obj import FnObj


class FnObjRec(FnObj):

    def __init__(self, spec, tree, src_lines, known_funcs):
        self.subdicts = {}                                # record -> set of paths (tuples of keys) of its open, still empty sub-dicts
        super().__init__(spec, tree, src_lines, known_funcs)
        if spec.get('loop_body'):
            # which loop this function is one iteration of (checked by the dict-filling loop rule of the caller)
            self.known_extra['loop_of'] = (spec['module'], spec.get('cls'), spec['func'], spec['loop_body'],
                                           spec.get('loop_target'))
            # the source text each declared parameter stands for (a range loop lifts those that mention its index)
            self.known_extra['attr_texts'] = {v[0]: k for k, v in dict(spec.get('attrs', {})).items()}

    def enter_loop_body(self, spec, src_lines):
        if not spec.get('loop_target'):
            return super().enter_loop_body(spec, src_lines)
        outer = self.node
        hits = [n for n in ast.walk(outer) if isinstance(n, ast.For) and ast.unparse(n.iter) == spec['loop_body']
                and ast.unparse(n.target) == spec['loop_target']]
        if len(hits) != 1:
            raise Untranslatable('%s: no unique loop `for %s in %s`' % (spec['func'], spec['loop_target'], spec['loop_body']))
        loop = hits[0]
        tnames = [n.id for n in ast.walk(loop.target) if isinstance(n, ast.Name)]
        args = ast.arguments(posonlyargs=[], args=[ast.arg(arg=n) for n in tnames + list(spec.get('free', ()))],
                             vararg=None, kwonlyargs=[], kw_defaults=[], kwarg=None, defaults=[])
        node = ast.FunctionDef(name=outer.name, args=args, body=list(loop.body), decorator_list=[], returns=None,
                               type_comment=None, type_params=[])
        ast.copy_location(node, loop)
        node.end_lineno = loop.end_lineno
        self.node = node
        self.src = ''.join(src_lines[loop.lineno - 1:loop.end_lineno])
        self.lineno = loop.lineno

    def lean_ty(self, kind):
        if isinstance(kind, str) and kind.startswith('assoc:'):   # a dict as the list of its (key, value) stores
            return 'List (%s)' % kind[len('assoc:'):]
        if kind == 'list3':                               # a Python list of 2-D arrays
            return 'List (List (List α))'
        return super().lean_ty(kind)

    def result_type_ext(self, ret, rty):
        r = super().result_type_ext(ret, rty)
        self.known_extra['result_ty'] = r
        return r

    # ------------------------------------------------------------------ natural-number methods of a list
    def nat_method(self, node, env):
        if isinstance(node, ast.Call) and isinstance(node.func, ast.Attribute) and not node.args and not node.keywords \
                and node.func.attr in self.spec.get('nat_methods', {}) and self.is_list(node.func.value, env):
            return self.spec['nat_methods'][node.func.attr]
        return None

    def is_nat(self, node, env):
        if self.nat_method(node, env) is not None:
            return True
        return super().is_nat(node, env)

    def nat(self, node, env):
        nm = self.nat_method(node, env)
        if nm is not None:
            self.add_param(nm, 'List α → Nat')
            return '(%s %s)' % (nm, self.lexpr(node.func.value, env))
        if isinstance(node, ast.Call) and ast.unparse(node.func) == 'len' and len(node.args) == 1 and not node.keywords \
                and isinstance(node.args[0], ast.Name) and env.get(node.args[0].id) in ('list2', 'list3'):
            return '(List.length %s)' % self.var(node.args[0].id)
        return super().nat(node, env)

    # ------------------------------------------------------------------ records
    def rec_path(self, t, env):
        """R['a']['b'] -> ('R', ('a', 'b')) for a record local R"""
        keys = []
        while isinstance(t, ast.Subscript) and isinstance(t.slice, ast.Constant) and isinstance(t.slice.value, str):
            keys.insert(0, t.slice.value)
            t = t.value
        if isinstance(t, ast.Name) and env.get(t.id) == 'rec' and keys:
            return t.id, tuple(keys)
        return None

    def field_value(self, v, env):
        """(kind, lean text) of a value stored in a record"""
        k = self.ekind(v, env) if isinstance(v, (ast.Name, ast.Attribute, ast.Subscript, ast.Call)) else None
        if k in ('list2', 'natlist'):
            self.need_attr(self.key_of(v), env)
            return k, self.var(self.key_of(v))
        if self.is_list(v, env):
            return 'list', self.lexpr(v, env)
        if self.is_nat(v, env):
            return 'nat', self.nat(v, env)
        return 's', self.expr(v, env)

    def skipped(self, path):
        sk = self.spec.get('dict_skip', ())
        return path[-1] in sk or '/'.join(path) in sk

    def has_leaf_under(self, rec, path):
        key = '/'.join(path)
        return any(f[0] == key or f[0].startswith(key + '/') for f in self.records.get(rec, []))

    def field_var(self, rec, path):
        return '%s_%s' % (self.var(rec), re.sub(r'\W', '_', '/'.join(path)))

    def rec_store(self, rp, s, env, ind):
        """R['a']…['k'] = e (a leaf) / = {} (opens a sub-dict)"""
        rec, path = rp
        opened = self.subdicts.setdefault(rec, set())
        if any('/' in k for k in path):
            self.fail(s, 'record key with a slash')
        if path[:-1] and path[:-1] not in opened:
            self.fail(s, 'store into a sub-dict that this function did not create (or that a loop has filled)')
        if path in opened or self.has_leaf_under(rec, path):
            self.fail(s, 'a record key stored twice')
        if isinstance(s.value, ast.Dict):
            if s.value.keys:
                self.fail(s, 'dict display stored into a record')
            opened.add(path)
            return ''
        if self.skipped(path):
            return ''
        k, e = self.field_value(s.value, env)
        nm = self.field_var(rec, path)
        self.records[rec].append(('/'.join(path), k, nm))
        return '%slet %s := %s\n' % (ind, nm, e)

    def empty_subdicts(self, rec):
        return [p for p in self.subdicts.get(rec, ()) if not self.has_leaf_under(rec, p)]

    def fill_loop(self, s, env, ind):
        """for i, x in enumerate(X): …; R[…]['k'][x] = <record>   with the iteration translated as its own function"""
        it = ast.unparse(s.iter)
        tgt = self.known.get(self.spec['loops'][it])
        if tgt is None or tgt.get('loop_of') is None or tgt.get('result_ty') is None:
            self.fail(s, 'the iteration of this loop is not a translated loop body')
        mod, cls, func, lb, lt = tgt['loop_of']
        if (mod, cls, func, lb) != (self.spec['module'], self.spec.get('cls'), self.spec['func'], it) \
                or (lt is not None and lt != ast.unparse(s.target)):
            self.fail(s, 'the declared iteration function is not the translation of this loop')
        if s.orelse or not (isinstance(s.iter, ast.Call) and ast.unparse(s.iter.func) == 'enumerate' and len(s.iter.args) == 1
                            and not s.iter.keywords and isinstance(s.target, ast.Tuple) and len(s.target.elts) == 2
                            and all(isinstance(e, ast.Name) for e in s.target.elts)):
            self.fail(s, 'unsupported dict-filling loop')
        iv, xv = s.target.elts[0].id, s.target.elts[1].id
        if iv in env or xv in env:
            self.fail(s, 'loop variable shadows a variable')
        k = self.ekind(s.iter.args[0], env)
        if not (isinstance(k, str) and k.startswith('objlist:')):
            self.fail(s, 'dict-filling loop over something else than a list of objects')
        kt = k.split(':', 1)[1]
        self.need_attr(self.key_of(s.iter.args[0]), env)
        src = self.var(self.key_of(s.iter.args[0]))
        last = s.body[-1] if s.body else None
        if not (isinstance(last, ast.Assign) and len(last.targets) == 1 and isinstance(last.targets[0], ast.Subscript)
                and isinstance(last.targets[0].slice, ast.Name) and last.targets[0].slice.id == xv):
            self.fail(s, 'the last statement of the loop does not store under the loop key')
        rp = self.rec_path(last.targets[0].value, env)
        if rp is None or rp[1] not in self.subdicts.get(rp[0], ()) or self.has_leaf_under(rp[0], rp[1]) \
                or any('/' in x for x in rp[1]):
            self.fail(s, 'the loop does not fill an empty sub-dict of a record')
        assigned = self.assigned(s.body, env)
        names, kinds = tgt['arg_names'], tgt['arg_kinds']
        if names[:2] != [iv, xv]:
            self.fail(s, 'the iteration function has other loop variables')
        args = []
        for n, kd in zip(names, kinds):
            if n == iv:
                if kd != 'nat':
                    self.fail(s, 'the loop index is not declared a natural number')
                args.append('it__.2')
                continue
            if n == xv:
                if kd != 'skip':
                    if kd != 'obj:' + kt:
                        self.fail(s, 'the loop element has another kind in the iteration function')
                    args.append('it__.1')
                continue
            if n in assigned:
                self.fail(s, 'variable %s is read by the iteration and assigned in the loop body' % n)
            if kd == 'skip':
                continue
            if env.get(n) != kd:
                self.fail(s, 'variable %s does not have the kind the iteration function declares' % n)
            args.append(self.var(n))
        for nm, ty in tgt['extra_params']:
            if any(n2 == nm and a in env for a, (n2, _) in self.attrs.items()):
                self.fail(s, 'the iteration reads attribute %s, which this function has assigned' % nm)
            self.add_param(nm, ty)
            args.append(nm)
        for n in assigned:                                # what the body assigns is not available after the loop
            env.pop(n, None)
        rec, path = rp
        self.subdicts[rec].discard(path)
        if self.skipped(path):
            return ''
        nm = self.field_var(rec, path)
        self.records[rec].append(('/'.join(path), 'assoc:%s × (%s)' % (kt, tgt['result_ty']), nm))
        return '%slet %s := (List.map (fun it__ => (it__.1, (%s %s))) (List.zipIdx %s))\n' % (
            ind, nm, tgt['lean'], ' '.join(args), src)

    def range_fill_loop(self, s, env, ind):
        """for n in range(K): …; R[…]['k']['lit{}'.format(n)] = <record>   with the iteration translated as its own function"""
        it = ast.unparse(s.iter)
        tgt = self.known.get(self.spec['loops'][it])
        if tgt is None or tgt.get('loop_of') is None or tgt.get('result_ty') is None:
            self.fail(s, 'the iteration of this loop is not a translated loop body')
        mod, cls, func, lb, lt = tgt['loop_of']
        if (mod, cls, func, lb) != (self.spec['module'], self.spec.get('cls'), self.spec['func'], it) \
                or (lt is not None and lt != ast.unparse(s.target)):
            self.fail(s, 'the declared iteration function is not the translation of this loop')
        if s.orelse or not isinstance(s.target, ast.Name) or len(s.iter.args) != 1 or s.iter.keywords:
            self.fail(s, 'unsupported dict-filling loop')
        n = s.target.id
        if n in env:
            self.fail(s, 'loop variable shadows a variable')
        count = self.nat(s.iter.args[0], env)
        last = s.body[-1] if s.body else None
        key = last.targets[0].slice if isinstance(last, ast.Assign) and len(last.targets) == 1 \
            and isinstance(last.targets[0], ast.Subscript) else None
        if not (isinstance(key, ast.Call) and isinstance(key.func, ast.Attribute) and key.func.attr == 'format'
                and isinstance(key.func.value, ast.Constant) and isinstance(key.func.value.value, str)
                and key.func.value.value.count('{}') == 1 and '{' not in key.func.value.value.replace('{}', '')
                and '}' not in key.func.value.value.replace('{}', '')
                and len(key.args) == 1 and not key.keywords and isinstance(key.args[0], ast.Name) and key.args[0].id == n):
            self.fail(s, "the last statement of the loop does not store under the key 'lit{}'.format(loop index)")
        pre, post = key.func.value.value.split('{}')
        rp = self.rec_path(last.targets[0].value, env)
        if rp is None or rp[1] not in self.subdicts.get(rp[0], ()) or self.has_leaf_under(rp[0], rp[1]) \
                or any('/' in x for x in rp[1]):
            self.fail(s, 'the loop does not fill an empty sub-dict of a record')
        assigned = self.assigned(s.body, env)
        names, kinds = tgt['arg_names'], tgt['arg_kinds']
        if names[:1] != [n]:
            self.fail(s, 'the iteration function has another loop variable')
        args = []
        for nm_, kd in zip(names, kinds):
            if nm_ == n:
                if kd == 'nat':
                    args.append('n__')
                elif kd != 'skip':
                    self.fail(s, 'the loop index is not declared a natural number')
                continue
            if nm_ in assigned:
                self.fail(s, 'variable %s is read by the iteration and assigned in the loop body' % nm_)
            if kd == 'skip':
                continue
            if env.get(nm_) != kd:
                self.fail(s, 'variable %s does not have the kind the iteration function declares' % nm_)
            args.append(self.var(nm_))
        texts = tgt.get('attr_texts', {})
        for nm_, ty in tgt['extra_params']:
            text = texts.get(nm_)
            if text is not None and re.search(r'(?<![\w.])%s(?![\w])' % re.escape(n), text):
                m = re.fullmatch(r'(\w+)\[%s\]' % re.escape(n), text)
                if m and env.get(m.group(1)) in ('list2', 'list3') and m.group(1) not in assigned:
                    args.append('(List.getD %s n__ [])' % self.var(m.group(1)))    # X[n] for a local list of arrays
                else:                                     # the expression as a function of the loop index
                    self.add_param(nm_, 'Nat → %s' % (ty if ' ' not in ty else '(%s)' % ty))
                    args.append('(%s n__)' % nm_)
                continue
            if any(n2 == nm_ and a in env for a, (n2, _) in self.attrs.items()):
                self.fail(s, 'the iteration reads attribute %s, which this function has assigned' % nm_)
            for _, kd in self.attrs.values():             # abstract object types of the iteration are type parameters here
                if isinstance(kd, str) and kd.startswith(('objlist:', 'obj:')) \
                        and re.search(r'(?<!\w)%s(?!\w)' % re.escape(kd.split(':', 1)[1]), ty):
                    self.lean_ty(kd)
            self.add_param(nm_, ty)
            args.append(nm_)
        for a in assigned:
            env.pop(a, None)
        rec, path = rp
        self.subdicts[rec].discard(path)
        if self.skipped(path):
            return ''
        nm = self.field_var(rec, path)
        for _, kd in self.attrs.values():
            if isinstance(kd, str) and kd.startswith(('objlist:', 'obj:')) \
                    and re.search(r'(?<!\w)%s(?!\w)' % re.escape(kd.split(':', 1)[1]), tgt['result_ty']):
                self.lean_ty(kd)
        lit = lambda t: '"%s"' % t.replace('\\', '\\\\').replace('"', '\\"')
        keytxt = '(%s ++ toString n__%s)' % (lit(pre), (' ++ ' + lit(post)) if post else '')
        self.records[rec].append(('/'.join(path), 'assoc:String × (%s)' % tgt['result_ty'], nm))
        return '%slet %s := (List.map (fun n__ => (%s, (%s %s))) (List.range %s))\n' % (
            ind, nm, keytxt, tgt['lean'], ' '.join(args), count)

    def segment_call(self, s, env, ind, rest, tail):
        """the statement range declared as `segment`: the value of the translated function registered for it"""
        seg = self.spec['segment']
        stops = [j for j, r in enumerate(rest) if ast.unparse(r).startswith(seg['stop'])]
        tgt = self.known.get(seg['call'])
        if not stops or tgt is None or tgt.get('segment') is None:
            self.fail(s, 'segment: the end statement / the translated function of the range was not found')
        if tgt['segment'][:2] != (seg['start'], seg['stop']):
            self.fail(s, 'segment: the called function translates another statement range')
        names = list(tgt['segment'][2])
        if len(names) != len(seg['binds']):
            self.fail(s, 'segment: the number of results differs from the declaration')
        args = []
        for n, kd in tgt.get('free_locals', {}).items():
            if n not in seg.get('args', {}):
                self.fail(s, 'segment: no value declared for the free local %s of the range' % n)
            nm, k = seg['args'][n]
            self.add_param(nm, self.lean_ty(k))
            args.append(nm)
        for nm, ty in tgt['extra_params']:
            self.add_param(nm, ty)
            args.append(nm)
        out = '%slet seg__ := (%s %s)\n' % (ind, tgt['lean'], ' '.join(args)) if args else \
            '%slet seg__ := %s\n' % (ind, tgt['lean'])
        for i, (n, k) in enumerate(zip(names, seg['binds'])):
            proj = 'seg__' + '.2' * i + ('.1' if i < len(names) - 1 else '')
            if len(names) == 1:
                proj = 'seg__'
            if k != 'skip':
                out += '%slet %s := %s\n' % (ind, self.var(n), proj)
                env[n] = k
        return out + self.block(rest[stops[0]:], env, ind, tail), True

    def stmt_ext(self, s, env, ind, rest, tail, inline):
        top = tail is None and not inline
        if top and any(re.search(rx, ast.unparse(s)) for rx in self.spec.get('ignore_stmts', ())):
            return '', False
        if top and self.spec.get('segment') and ast.unparse(s) == self.spec['segment']['start']:
            return self.segment_call(s, env, ind, rest, tail)
        if isinstance(s, ast.For) and ast.unparse(s.iter) in self.spec.get('loops', {}) and isinstance(s.iter, ast.Call) \
                and ast.unparse(s.iter.func) == 'range':
            if not top:
                self.fail(s, 'dict-filling loop inside a branch or loop')
            return self.range_fill_loop(s, env, ind), False
        if isinstance(s, ast.Assign) and len(s.targets) == 1 and isinstance(s.targets[0], ast.Subscript):
            rp = self.rec_path(s.targets[0], env)
            if rp is not None and (len(rp[1]) > 1 or isinstance(s.value, ast.Dict) or rp[1] in self.subdicts.get(rp[0], ())):
                if not top:
                    self.fail(s, 'record store inside a branch or loop')
                return self.rec_store(rp, s, env, ind), False
            if isinstance(s.value, ast.Name) and s.value.id == self.spec.get('result') and env.get(s.value.id) == 'rec' \
                    and self.empty_subdicts(s.value.id):
                self.fail(s, 'the record has an empty sub-dict')
        if isinstance(s, ast.Assign) and len(s.targets) == 1 and isinstance(s.targets[0], ast.Name) \
                and isinstance(s.value, ast.Dict) and s.value.keys and env.get(s.targets[0].id) is None and top \
                and all(isinstance(k, ast.Constant) and isinstance(k.value, str) for k in s.value.keys) \
                and any(isinstance(v, ast.Dict) or self.ekind(v, env) in ('list2', 'natlist') for v in s.value.values):
            # a dict display with sub-dicts / 2-D arrays: the record of its values
            t = s.targets[0]
            env[t.id] = 'rec'
            self.records[t.id] = []
            opened = self.subdicts.setdefault(t.id, set())
            txt = ''
            seen = set()
            for k, v in zip(s.value.keys, s.value.values):
                if k.value in seen or '/' in k.value:
                    self.fail(s, 'a record key stored twice (or with a slash)')
                seen.add(k.value)
                if self.skipped((k.value,)):
                    continue
                if isinstance(v, ast.Dict):
                    if v.keys:
                        self.fail(s, 'nested dict display')
                    opened.add((k.value,))
                    continue
                kd, e = self.field_value(v, env)
                nm = self.field_var(t.id, (k.value,))
                self.records[t.id].append((k.value, kd, nm))
                txt += '%slet %s := %s\n' % (ind, nm, e)
            return txt, False
        if isinstance(s, ast.For) and ast.unparse(s.iter) in self.spec.get('loops', {}):
            if not top:
                self.fail(s, 'dict-filling loop inside a branch or loop')
            return self.fill_loop(s, env, ind), False
        if isinstance(s, ast.Return) and isinstance(s.value, ast.Name) and env.get(s.value.id) == 'rec' \
                and s.value.id == self.spec.get('result') and top:
            fs = self.record_fields(s.value.id)
            if not fs or self.empty_subdicts(s.value.id):
                self.fail(s, 'empty record (or empty sub-dict)')
            return ind + ('(' + ', '.join(f[2] for f in fs) + ')' if len(fs) > 1 else fs[0][2]) + '\n', True
        return super().stmt_ext(s, env, ind, rest, tail, inline)
