"""C03 — optical depth composes additively over contributions and species.

Real TransmissionModels with 2-6 contributions in shuffled insertion order: model()[2] against the product of the
model_contrib() transmittances, against the products of the model_full_contrib() components, against
store_contributions(); each component's weighted opacity against cross-section x mixing ratio recomputed from the
cache objects (Lean `Taurex.Sigma`); zero-abundance invariance; proportionality; order independence."""
import numpy as np
from harness import common as C
from harness import fm_common as FM
from harness import c01 as T

# ---- source tie (harness/translate.py, dialect 'shaped'): re-translated on every run into lean/TaurexModel/Gen/SrcC03.lean;
# lean/Props/C03Src.lean proves each definition equal to the model function of TaurexModel/Sigma.lean / Transmission.lean.
_CT = 'taurex/contributions/contribution.py'
_CIA = 'taurex/contributions/cia.py'
_KERNEL = dict(startK='nat', endK='nat', density_offset='nat', sigma='arr2', density='arr', path='arr', nlayers='skip',
               ngrid='nat', layer='nat', tau='arr2')
_CONTRIB = dict(model='skip', start_layer='nat', end_layer='nat', density_offset='nat', layer='nat', density='arr',
                tau='arr2', path_length='arr')
SRC_SPECS = [
    # Contribution.prepare: sigma_xsec = zeros; for name, component in self.prepare_each(...): sigma_xsec += component
    dict(module=_CT, cls='Contribution', func='prepare', lean='contribution_prepare', dialect='shaped',
         params=dict(model='skip', wngrid='skip'), lens={'wngrid': 'nW'},
         attrs={'model.nLayers': ('nL', 'nat'), 'self._ngrid': ('ngrid', 'nat'), 'self._nlayers': ('nlayers', 'nat'),
                'self.sigma_xsec': ('sigma_attr', 'arr2')},
         local_attrs=['self._ngrid', 'self._nlayers', 'self.sigma_xsec'], out='self.sigma_xsec', returns='arr2',
         vallists={'self.prepare_each(model, wngrid)': ('comps', ['skip', 'arr2'])}),
    # CIAContribution.prepare_each: one component per pair, the shared buffer zeroed in between
    dict(module=_CIA, cls='CIAContribution', func='prepare_each', lean='cia_prepare_each', dialect='shaped',
         params=dict(model='skip', wngrid='skip'), lens={'wngrid': 'nW'},
         attrs={'model.nLayers': ('nL', 'nat'), 'model.temperatureProfile': ('T', 'arr')},
         dims={'model.temperatureProfile': ['nL']},
         ignore_stores=['self._total_cia', 'self._nlayers', 'self._ngrid', 'self.sigma_xsec'],
         ignore_stmts=['chemistry = model.chemistry'], objlists={'self.ciaPairs': 'pairs'},
         obj_derived={'cia = self._cia_cache[pairName]': ('cia', 'pairName')},
         obj_externals={
             'chemistry.get_gas_mix_profile(cia.pairOne)': dict(lean='mixOne', of=['cia'], kind='arr', shape=['nL']),
             'chemistry.get_gas_mix_profile(cia.pairTwo)': dict(lean='mixTwo', of=['cia'], kind='arr', shape=['nL']),
             'cia.cia(temperature, wngrid)': dict(lean='ciaXsec', of=['cia'], args=['temperature'], kind='arr',
                                                  shape=['nW'])},
         yields='list', returns='arr2list'),
    # RayleighContribution.prepare_each: one component per molecule with non-zero abundance and a known law
    dict(module='taurex/contributions/rayleigh.py', cls='RayleighContribution', func='prepare_each',
         lean='rayleigh_prepare_each', dialect='shaped', params=dict(model='skip', wngrid='skip'), lens={'wngrid': 'nW'},
         attrs={'model.nLayers': ('nL', 'nat')},
         ignore_stores=['self._ngrid', 'self._nmols', 'self._nlayers', 'self.sigma_xsec'],
         objlists={'molecules': 'molecules'}, obj_assign=['molecules'],
         obj_externals={
             'model.chemistry.get_gas_mix_profile(gasname)': dict(lean='mix', of=['gasname'], kind='arr', shape=['nL']),
             'rayleigh_sigma_from_name(gasname, wngrid)': dict(lean='law', of=['gasname'], kind='arr', shape=['nW'],
                                                               optional=True)},
         yields='list', returns='arr2list'),
    # AbsorptionContribution.prepare_each, cross-section mode (`opacity_method` != 'ktables': declared static): one
    # component per active gas; the buffer is allocated for the first gas and zeroed for the others
    dict(module='taurex/contributions/absorption.py', cls='AbsorptionContribution', func='prepare_each',
         lean='absorption_prepare_each', dialect='shaped', params=dict(model='skip', wngrid='skip'), lens={'wngrid': 'nW'},
         attrs={'self._ngrid': ('ngrid', 'nat'), 'self._nlayers': ('nlayers', 'nat'),
                'model.temperatureProfile': ('T', 'arr'), 'model.pressureProfile': ('P', 'arr')},
         dims={'model.temperatureProfile': ['nlayers'], 'model.pressureProfile': ['nlayers']},
         local_attrs=['self._ngrid'], static={'self._use_ktables': False}, optional_vars=['sigma_xsec'],
         ignore_stores=['self._use_ktables', 'self._opacity_cache', 'self.weights', 'self.sigma_xsec'],
         ignore_stmts=['weights = None'], objlists={'model.chemistry.activeGases': 'gases'},
         obj_derived={'xsec = self._opacity_cache[gas]': ('xsec', 'gas')},
         obj_externals={
             'model.chemistry.get_gas_mix_profile(gas)': dict(lean='mix', of=['gas'], kind='arr', shape=['nlayers']),
             'xsec.opacity(temperature, pressure, wngrid)': dict(lean='opacity', of=['xsec'],
                                                                 args=['temperature', 'pressure'], kind='arr',
                                                                 shape=['nW'])},
         yields='list', returns='arr2list'),
    # AbsorptionContribution.prepare: like Contribution.prepare, the sum allocated at the first component
    dict(module='taurex/contributions/absorption.py', cls='AbsorptionContribution', func='prepare',
         lean='absorption_prepare', dialect='shaped', params=dict(model='skip', wngrid='skip'), lens={'wngrid': 'nW'},
         attrs={'model.nLayers': ('nL', 'nat'), 'self._ngrid': ('ngrid', 'nat'), 'self._nlayers': ('nlayers', 'nat'),
                'self.sigma_xsec': ('sigma_attr', 'optarr2')},
         local_attrs=['self._ngrid', 'self._nlayers', 'self.sigma_xsec'], optional_vars=['sigma_xsec'],
         out='self.sigma_xsec', returns='optarr2',
         vallists={'self.prepare_each(model, wngrid)': ('comps', ['skip', 'arr2'])}),
    # the kernels that turn sigma_xsec into optical depth (as in C01)
    dict(module=_CT, func='contribute_tau', lean='contribute_tau', dialect='shaped', params=_KERNEL, out='tau',
         returns='arr2'),
    dict(module=_CIA, func='contribute_cia', lean='contribute_cia', dialect='shaped', params=_KERNEL, out='tau',
         returns='arr2'),
    dict(module=_CIA, cls='CIAContribution', func='contribute', lean='cia_contribute', dialect='shaped', params=_CONTRIB,
         attrs={'self.sigma_xsec': ('sigma', 'arr2'), 'self._ngrid': ('ngrid', 'nat'), 'self._nlayers': ('nlayers', 'nat'),
                'self._total_cia': ('totalCia', 'nat')},
         out='tau', returns='arr2'),
]
# the loop over the LIST of contributions (what `tauCut cs` / `tauFull cs` model): `TransmissionModel.path_integral` with
# its break, the functions it calls and the other two `contribute` methods Python's dynamic dispatch reaches (kinds `lin`,
# `layerOnly`).  The specs are C01's (harness/c01.py), re-translated here into Gen/SrcC03.lean.
_C01 = {s['lean']: s for s in T.SRC_SPECS}
SRC_SPECS += [dict(_C01[k]) for k in ('contribution_contribute', 'clouds_contribute', 'compute_path_length_old',
                                      'compute_absorption', 'parallel_vector', 'compute_path_length', 'path_integral')]
SRC_SPECS[-1]['callname'] = 'self.path_integral'
# SimpleForwardModel.model_contrib (wngrid=None): the loop that runs `path_integral` on every contribution ALONE
# (`self.contribution_list = [contrib]`; `contrib.prepare` = the abstract update `prepare` of the object) and stores the result
# in a dict under `contrib.name` (`name`): a later contribution with the same name REPLACES the earlier entry (K4).  Profile /
# star initialisation are calls for their effect on state outside the translated value.
SRC_SPECS.append(
    dict(module='taurex/model/simplemodel.py', cls='SimpleForwardModel', func='model_contrib', lean='model_contrib',
         dialect='shaped', params=dict(wngrid='skip', cutoff_grid='skip'),
         static={'wngrid is not None and cutoff_grid': False},
         ignore_calls=r'^self\.(debug|info|warning|error|critical|initialize_profiles)\(|^self\._star\.initialize\(',
         attrs={'self.nativeWavenumberGrid': ('nativeGrid', 'arr')}, dims={'self.nativeWavenumberGrid': ['nW']},
         objlists={'full_contrib_list': 'contribs'}, obj_assign=['full_contrib_list'],
         local_objlists={'self.contribution_list': 'contribs'},
         methods={'prepare': dict(lean='prepare', kinds=['skip', 'skip'], updates_obj=True)},
         dicts={'all_contrib_dict': dict(key=('contrib.name', 'name'), value=['arr', 'arr2', 'skip'])},
         returns=['arr', 'dict']))
# SimpleForwardModel.model_full_contrib (wngrid=None): like model_contrib, but every contribution's COMPONENTS are run
# alone: `for name, __ in contrib.prepare_each(self, native_grid)` is a generator that is SUSPENDED while `path_integral`
# re-runs.  The generator protocol is explicit: `prepareEach contrib : List (String × ι)` = the (yielded name, state of the
# contribution object at that yield) pairs, in order — `path_integral` of iteration i reads the `sigma_xsec` the generator
# published before its i-th yield.  The results go into a list of records per contribution, stored under `contrib.name`
# (read BEFORE the generator is created: `cname`).
# What the suspended generators have PUBLISHED in `self.sigma_xsec` at each yield (the array `contrib.contribute` reads when
# `path_integral` re-runs): the three `prepare_each` translated once more with `publish='self.sigma_xsec'`.
for _k in ('cia_prepare_each', 'rayleigh_prepare_each', 'absorption_prepare_each'):
    _sp = dict([x for x in SRC_SPECS if x['lean'] == _k][0])
    _sp.update(lean=_k + '_published', callname=_k + '_published', publish='self.sigma_xsec')
    SRC_SPECS.append(_sp)
# the cloud deck and the two hazes (one component each): the specs are C19's (harness/c19.py), re-translated here into
# Gen/SrcC03.lean together with their `publish` variants — on the pinned tree SimpleClouds stored its deck in `self._contrib`
# only (the component route then integrated a stale `sigma_xsec`; repaired in /repo, DESIGN §6)
from harness import c19 as _c19   # noqa: E402
_C19 = {s['lean']: s for s in _c19.SRC_SPECS}
for _k in ('clouds_prepare_each', 'lee_prepare_each', 'flat_prepare_each'):
    SRC_SPECS.append(dict(_C19[_k]))
    _sp = dict(_C19[_k])
    _sp.update(lean=_k + '_published', callname=_k + '_published', publish='self.sigma_xsec')
    SRC_SPECS.append(_sp)
SRC_SPECS.append(
    dict(module='taurex/model/simplemodel.py', cls='SimpleForwardModel', func='model_full_contrib',
         lean='model_full_contrib', dialect='shaped', params=dict(wngrid='skip', cutoff_grid='skip'),
         static={'wngrid is not None and cutoff_grid': False},
         ignore_calls=r'^self\.(debug|info|warning|error|critical|initialize_profiles)\(|^self\._star\.initialize\(',
         attrs={'self.nativeWavenumberGrid': ('nativeGrid', 'arr')}, dims={'self.nativeWavenumberGrid': ['nW']},
         objlists={'full_contrib_list': 'contribs'}, obj_assign=['full_contrib_list'],
         local_objlists={'self.contribution_list': 'contribs'},
         obj_generators={'contrib.prepare_each(self, native_grid)': dict(lean='prepareEach', obj='contrib',
                                                                        elts=['str', 'skip'])},
         obj_strs={'name': 'cname'}, rec_lists={'contrib_res_list': ['str', 'arr', 'arr2', 'skip']},
         dicts={'result_dict': dict(key=('contrib.name', 'cname'), value_list='contrib_res_list')},
         returns=['arr', 'dict']))

RULE =('real TransmissionModel, 2-25 layers, 1-5 wavenumbers, 2-4 trace gases (constant/array profiles), CIA pairs '
        'H2-H2, H2-He, H2-<trace gas>, contributions drawn from {Absorption, CIA, Rayleigh, SimpleClouds, FlatMie | '
        'LeeMie, HydrogenIon} (at least two) in shuffled insertion order, opacity regime thin/mid/thick; every 3rd case '
        'has a trace gas (first/middle/last) at EXACTLY zero abundance (constant, some layers, all layers); every case '
        'carries a route history (parameters of a contribution / a gas changed through the fitting-parameter setters '
        'after a run, or a never-run model; then model_full_contrib / model_contrib / model in varying order); the chemistry '
        'is a TaurexChemistry, every 4th case a plugin-style Chemistry subclass, every 5th case a ChemistryFile wrapped with the '
        'MakeFreeMixin (makefree+file: molecules of the file replaced by free gases - absorbing and not -, new molecules added, '
        'renormalised); for every gas the look-up get_gas_mix_profile is compared with the Lean rule MixLookup.gasMix on the '
        'published tables, the freed tables with MixLookup.freedActive / freedInactive, and every component is judged against '
        'cross-section x the row of the PUBLISHED table; plus a correlated-k stream (opacity_method = ktables, k-table files in '
        'a scratch directory, 1-8 g-points, 1-2 molecules): 2-4 sources {Absorption, CIA, Rayleigh, FlatMie} with the molecular '
        'absorption first / in the middle / last in insertion order, model()[2] against KTau.ktauRow applied to the optical '
        'depth the earlier sources left in the layer (op c03.ktau) plus the later sources, against the product of the '
        'model_contrib() transmittances, and against a second insertion order. distinct '
        'non-trivial = distinct (contribution multiset, layers, regime) with a transmittance strictly between 0 and 1')
ASSUMPTIONS = ['per-species cross-sections opacity(T_l, P_l, wn), cia(T_l, wn) and the Rayleigh / H- laws are taken from '
               'the real cache objects (C04 models the interpolation); their abundance weighting and summation is modelled',
               '"that species\' mixing ratio" = the row of the chemistry\'s published activeGasMixProfile / inactiveGasMixProfile '
               '(what the density, the mean molecular weight and the stored output use); which row get_gas_mix_profile hands to '
               'the contributions is modelled (MixLookup.gasMix), and so are the tables of a chemistry wrapped with MakeFreeMixin '
               '(MixLookup.freedActive / freedInactive: free profile replaces the wrapped row, new molecules appended, all '
               'divided by the column sum); the mean molecular weight of such a chemistry is judged against MixLookup.muOf on the published tables',
               'np.interp onto the native grid for species tabulated on another grid (inside Opacity.opacity)',
               'licensed deviation of C01 (tau>10 early exit): a row may differ from the product only if every '
               'wavenumber of the returned row is below exp(-10) and not below the product',
               'correlated-k mode: sigma_xsec[layer, wn, g] and the weights are taken from the real prepared AbsorptionContribution '
               '(their construction is C20/C04); what is modelled is how the kernel composes with the other sources '
               '(ktable_adds_to_earlier, ktable_order, ktable_product); the product over COMPONENTS is not judged in this mode '
               '(k-coefficients of several molecules are combined per g-point, not multiplied as transmittances)',
               'K4: FlatMie and LeeMie share the name "Mie"; that configuration is reported under the key '
               'contrib-name-collision:Mie and its product identity is not judged']

E10 = T.E10



def _invalid_params(ctx, e):
    """a parameter set the model itself rejects as invalid (InvalidModelException and subclasses) is outside every
    property's quantifier: recorded in the malformed stream, never judged"""
    from taurex.exceptions import InvalidModelException
    if isinstance(e, InvalidModelException):
        ctx.malformed_outcome('invalid-model-after-setters:' + type(e).__name__)
        return True
    return False

def licensed_rows(impl, ref):
    """row-wise: equal to tolerance, or the returned row is saturated (all < exp(-10)) and not below the reference"""
    for l in range(impl.shape[0]):
        if T.trans_close(impl[l], ref[l]):
            continue
        if np.all(impl[l] <= E10 * (1 + 1e-9)) and np.all(impl[l] >= ref[l] * (1 - 1e-7) - 1e-300):
            continue
        return l
    return None


def sym_rows(a, b):
    """order independence: rows agree, or both are saturated"""
    for l in range(a.shape[0]):
        if T.trans_close(a[l], b[l]):
            continue
        if np.all(a[l] <= E10 * (1 + 1e-9)) and np.all(b[l] <= E10 * (1 + 1e-9)):
            continue
        return l
    return None


# --------------------------------------------------------------------------------------------- generation
def gen_case(rng, k):
    regime = ['thin', 'mid', 'thick', 'mid'][k % 4]
    nl = int(rng.integers(2, 26))
    spec = FM.gen_spec(rng, nlayers=nl, regime=regime, ngas=int(rng.integers(2, 5)), nwn=int(rng.integers(1, 6)),
                       same_grid=bool(rng.random() < 0.7), with_cia=True)
    wn = spec['opacities'][0]['wn']
    pairs = [c['pair'] for c in spec['cia']]
    # quota (every 4th case): the composition is served by a plugin-style chemistry (direct subclass of the base class
    # keeping its tables; the base get_gas_mix_profile returns views of them)
    if k % 4 == 2:
        spec['chem_kind'] = 'table'
    # quota (every 5th case): a tabulated chemistry (ChemistryFile) wrapped with the MakeFreeMixin ('makefree+file'): molecules
    # of the file REPLACED by free gases, further free molecules added, everything renormalised (built below, once the
    # trace gases are final)
    makefree = k % 5 == 1
    if rng.random() < 0.6:
        mol = spec['gases'][int(rng.integers(0, len(spec['gases'])))]['mol']
        pair = 'H2-' + mol
        spec['cia'].append(FM.gen_cia(rng, pair, FM.gen_wngrid(rng, int(rng.integers(2, 6))), -46.0, -36.0,
                                      nT=int(rng.integers(1, 4))))
        pairs.append(pair)
    # make the CIA visible in the mid/thick regimes
    if regime != 'thin':
        for c in spec['cia']:
            c['xsec'] = np.asarray(c['xsec']) * 1e6
    # fixed quota (every 3rd case) of EXACT zero abundances: a trace gas that is first / middle / last among the
    # active molecules is constant 0.0, or an array profile with zeros in some layers, or in all layers; a CIA pair
    # with that gas as partner is added; Absorption and Rayleigh (and that CIA pair) are then always present
    zero_class = (k % 3 == 0)
    if zero_class:
        ng = len(spec['gases'])
        pos = [0, ng // 2, ng - 1][(k // 3) % 3]
        g = spec['gases'][pos]
        mode = ['constant', 'some-layers', 'all-layers'][(k // 9) % 3]
        if mode == 'constant':
            g['type'], g['mix'] = 'constant', 0.0
        else:
            prof = 10 ** rng.uniform(-8, -2, size=nl)
            if mode == 'all-layers':
                prof[:] = 0.0
            else:
                mask = rng.random(nl) < 0.5
                mask[int(rng.integers(0, nl))] = True
                prof[mask] = 0.0
            g['type'], g['mix'] = 'array', prof
        spec['zero_gas'] = dict(mol=g['mol'], position=['first', 'middle', 'last'][(k // 3) % 3], mode=mode)
        if 'H2-' + g['mol'] not in pairs:
            spec['cia'].append(FM.gen_cia(rng, 'H2-' + g['mol'], FM.gen_wngrid(rng, int(rng.integers(2, 6))), -40.0, -34.0,
                                          nT=int(rng.integers(1, 4))))
            pairs.append('H2-' + g['mol'])
    if makefree:
        make_free_file(rng, spec)
    pool = ['absorption', 'cia', 'rayleigh', 'clouds', 'haze', 'hm']
    want = [p for p in pool if rng.random() < 0.55]
    if makefree:
        want = sorted(set(want) | {'absorption', 'rayleigh'}, key=pool.index)
    if zero_class:
        want = sorted(set(want) | {'absorption', 'rayleigh', 'cia'}, key=pool.index)
    if 'cia' in want and not pairs:
        want.remove('cia')
    while len(want) < 2:
        c = pool[int(rng.integers(0, len(pool)))]
        if c not in want and not (c == 'cia' and not pairs):
            want.append(c)
    cs = []
    for c in want:
        if c == 'absorption':
            cs.append(dict(type='absorption'))
        elif c == 'cia':
            cs.append(dict(type='cia', pairs=[pairs[i] for i in rng.permutation(len(pairs))]))
        elif c == 'rayleigh':
            cs.append(dict(type='rayleigh'))
        elif c == 'clouds':
            cs.append(dict(type='clouds', clouds_pressure=float(spec['pmin'] * (spec['pmax'] / spec['pmin']) **
                                                                rng.uniform(0.3, 1.2))))
        elif c == 'hm':
            cs.append(dict(type='hm'))
            spec['gases'] += [dict(mol='H', type='constant', mix=float(10 ** rng.uniform(-6, -2))),
                              dict(mol='e-', type='constant', mix=float(10 ** rng.uniform(-9, -4)))]
        else:
            flat = dict(type='flatmie', flat_mix_ratio=float(10 ** rng.uniform(-30, -20)),
                        flat_bottomP=-1 if rng.random() < 0.5 else float(spec['pmax'] * 10 ** rng.uniform(-3, 0)),
                        flat_topP=-1 if rng.random() < 0.5 else float(spec['pmin'] * 10 ** rng.uniform(0, 3)))
            lee = dict(type='leemie', lee_mie_radius=float(10 ** rng.uniform(-2, 0)), lee_mie_q=float(rng.uniform(1, 60)),
                       lee_mie_mix_ratio=float(10 ** rng.uniform(-18, -8)), lee_mie_bottomP=-1, lee_mie_topP=-1)
            r = rng.random()
            if r < 0.04:
                cs += [flat, lee]            # K4: both hazes carry the name 'Mie'
            elif r < 0.52:
                cs.append(flat)
            else:
                cs.append(lee)
    spec['contributions'] = [cs[i] for i in rng.permutation(len(cs))]
    spec['alt_order'] = [int(i) for i in rng.permutation(len(cs))]
    spec['route_history'] = gen_route_history(rng, spec)
    return spec


def make_free_file(rng, spec):
    """turn the composition of `spec` into a chemistry file (H2, He, some of the trace molecules with abundances of the
    FILE's own, sometimes N2) made free: every trace gas of the spec becomes a free gas (replacing the file's column when the
    file has the molecule, added otherwise); sometimes the file's N2 is freed too and O2 is added as a new molecule without a
    table"""
    nl = spec['nlayers']
    mols = [g['mol'] for g in spec['gases']]
    infile = [m for m in mols if rng.random() < 0.65] or [mols[int(rng.integers(0, len(mols)))]]
    if rng.random() < 0.3:
        infile = []          # quota: the wrapped chemistry has NO absorbing molecule of its own (every absorber is a new free gas)
    x = np.linspace(0.0, 1.0, nl)
    cols = {}
    for m in infile:
        cols[m] = 10 ** rng.uniform(-8, -2) * (1.0 + rng.uniform(-0.6, 0.6) * x)
    if rng.random() < 0.6:
        cols['N2'] = rng.uniform(0.005, 0.1) * (1.0 + rng.uniform(-0.5, 0.5) * x)
    he = rng.uniform(0.08, 0.2) * (1.0 + rng.uniform(-0.3, 0.3) * x)
    h2 = 1.0 - he - sum(cols.values())
    names = ['H2', 'He'] + list(cols)
    rows = [h2, he] + [cols[m] for m in cols]
    order = [0, 1] + [int(i) + 2 for i in rng.permutation(len(cols))] if rng.random() < 0.5 else \
        [int(i) for i in rng.permutation(len(names))]
    spec['chem_kind'] = 'makefree-file'
    spec['chem_file'] = dict(gases=[names[i] for i in order], table=[np.asarray(rows[i], float) for i in order])
    if 'N2' in cols and rng.random() < 0.6:
        spec['gases'].append(dict(mol='N2', type='constant', mix=float(rng.uniform(0.01, 0.3))))
    if rng.random() < 0.4:
        spec['gases'].append(dict(mol='O2', type='array', mix=rng.uniform(0.001, 0.05, size=nl)))
    return spec


OWN_PARAMS = {'clouds': ['clouds_pressure'], 'flatmie': ['flat_mix_ratio', 'flat_topP', 'flat_bottomP'],
              'leemie': ['lee_mie_mix_ratio', 'lee_mie_radius', 'lee_mie_q', 'lee_mie_topP', 'lee_mie_bottomP']}
ROUTE_ORDERS = ['components-first', 'components-first', 'contributions-first', 'model-first']


def gen_route_history(rng, spec):
    """an object history for the three evaluation routes: the model has been run, then parameters are changed through
    the fitting-parameter interface (a contribution's OWN parameter - cloud deck, haze abundance / particle size /
    pressure range - whenever the model has one, and/or a constant trace-gas abundance), then model_full_contrib(),
    model_contrib() and model() are called in the order `order`.  `never_run`: the routes are called on a freshly built
    model that was never evaluated (no parameter change)."""
    step = {}
    own = [(c, nm) for c in spec['contributions'] for nm in OWN_PARAMS.get(c['type'], [])]
    if own:
        for i in rng.choice(len(own), size=min(len(own), int(rng.integers(1, 3))), replace=False):
            c, nm = own[int(i)]
            v = c[nm]
            if nm == 'clouds_pressure':
                v = float(v * 10 ** rng.uniform(-1, 1))
            elif nm in ('flat_mix_ratio', 'lee_mie_mix_ratio'):
                v = float(v * 10 ** rng.uniform(-1.5, 1.5))
            elif nm in ('lee_mie_radius', 'lee_mie_q'):
                v = float(v * rng.uniform(0.4, 2.5))
            elif nm.endswith('topP'):
                v = float(spec['pmin'] * 10 ** rng.uniform(0, 2)) if rng.random() < 0.8 else -1
            else:
                v = float(spec['pmax'] * 10 ** rng.uniform(-2, 0)) if rng.random() < 0.8 else -1
            step[nm] = v
    cons = [g for g in spec['gases'] if g.get('type', 'constant') == 'constant' and g['mol'] not in ('H', 'e-')
            and g['mix'] > 0]
    if cons and (not step or rng.random() < 0.5):
        g = cons[int(rng.integers(0, len(cons)))]
        step[g['mol']] = float(min(g['mix'] * 10 ** rng.uniform(-1, 1), 0.05))
    return dict(step=step, order=ROUTE_ORDERS[int(rng.integers(0, len(ROUTE_ORDERS)))],
                never_run=bool(rng.random() < 0.15))


def small(spec):
    return dict(nlayers=spec['nlayers'], regime=spec.get('regime'), contributions=[c['type'] for c in spec['contributions']],
                gases=[g['mol'] for g in spec['gases']], cia=[c['pair'] for c in spec['cia']],
                new_path_method=spec['new_path_method'])


def oracle_components(m, contrib, wn):
    """(kind, names, xsecs[comp][layer][wn], mixes…) recomputed from the cache objects and the chemistry: the mixing ratio
    of a species is the row of the chemistry's published activeGasMixProfile / inactiveGasMixProfile tables (T.chem_mix), NOT
    what get_gas_mix_profile hands to the contributions (that look-up is checked by chemistry_checks)"""
    from taurex.cache import OpacityCache, CIACache
    from taurex.util.scattering import rayleigh_sigma_from_name
    chem = m.chemistry
    Tp, Pp = m.temperatureProfile, m.pressureProfile
    name = type(contrib).__name__
    if name == 'AbsorptionContribution':
        gases = list(chem.activeGases)
        xs = [[np.asarray(OpacityCache()[g].opacity(t, p, wn), float) for t, p in zip(Tp, Pp)] for g in gases]
        mix = [T.chem_mix(chem, g) for g in gases]
        return 'abs', gases, xs, (mix,)
    if name == 'CIAContribution':
        pairs = list(contrib.ciaPairs)
        xs = [[np.asarray(CIACache()[pr].cia(t, wn), float) for t in Tp] for pr in pairs]
        m1 = [T.chem_mix(chem, pr.split('-')[0]) for pr in pairs]
        m2 = [T.chem_mix(chem, pr.split('-')[1]) for pr in pairs]
        return 'cia', pairs, xs, (m1, m2)
    if name == 'RayleighContribution':
        gases, laws, mix = [], [], []
        for g in list(chem.activeGases) + list(chem.inactiveGases):
            law = rayleigh_sigma_from_name(g, wn)
            prof = T.chem_mix(chem, g)
            if law is not None and prof.max() != 0.0:
                gases.append(g)
                laws.append(np.asarray(law, float))
                mix.append(prof)
        return 'scaled', gases, laws, (mix,)
    return None


def check_sigma(ctx, m, wn, spec):
    """each component's weighted opacity = cross-section x mixing ratio, and sigma_xsec = their sum"""
    n, nwn = m.nLayers, len(wn)
    for contrib in m.contribution_list:
        o = oracle_components(m, contrib, wn)
        if o is None:
            continue
        kind, names, xs, mixes = o
        comps = [(nm, np.array(s, float)) for nm, s in contrib.prepare_each(m, wn)]
        contrib.prepare(m, wn)
        total = np.array(contrib.sigma_xsec, float)
        cname = type(contrib).__name__
        if [c[0] for c in comps] != list(names):
            ctx.violation('component-names:' + cname, 'components are not one per species/pair in order', spec,
                          dict(got=[c[0] for c in comps], expected=list(names)))
            continue
        if not names:
            continue
        if kind == 'abs':
            d = ctx.model().call('c03.sigma_abs', C.N(n), C.N(nwn), C.LLL(xs), C.LL(mixes[0]))
            exp = [np.array(x) * mixes[0][i][:, None] for i, x in enumerate(xs)]
        elif kind == 'cia':
            d = ctx.model().call('c03.sigma_cia', C.N(n), C.N(nwn), C.LLL(xs), C.LL(mixes[0]), C.LL(mixes[1]))
            exp = [np.array(x) * (mixes[0][i] * mixes[1][i])[:, None] for i, x in enumerate(xs)]
        else:
            d = ctx.model().call('c03.sigma_scaled', C.N(n), C.N(nwn), C.LL(xs), C.LL(mixes[0]))
            exp = [x[None, :] * mixes[0][i][:, None] for i, x in enumerate(xs)]
        mcomps = d.list(lambda: np.array(d.list(lambda: d.list())).reshape(n, nwn))
        mtotal = np.array(d.list(lambda: d.list())).reshape(n, nwn)
        for i, (nm, s) in enumerate(comps):
            sc = float(np.max(np.abs(exp[i]))) if exp[i].size else 0.0
            ctx.check_close('%s component sigma vs Sigma.comp*' % cname, s.ravel(), mcomps[i].ravel(),
                            dict(small(spec), component=nm), rel=1e-12, abs_=1e-300)
            if s.shape != exp[i].shape or not C.close(s.ravel(), exp[i].ravel(), rel=1e-12, abs_=1e-15 * sc):
                ctx.violation('component-sigma:' + cname, 'component opacity != cross-section x mixing ratio (layer by layer)',
                              spec, dict(component=nm, got=s[:, 0], expected=exp[i][:, 0]))
                break
        sc = float(np.max(np.abs(mtotal))) if mtotal.size else 0.0
        ctx.check_close('%s sigma_xsec vs Sigma.sumComps' % cname, total.ravel(), mtotal.ravel(), small(spec), rel=1e-12,
                        abs_=1e-15 * sc)
        if not C.close(total.ravel(), sum(exp).ravel(), rel=1e-11, abs_=1e-15 * sc):
            ctx.violation('sigma-not-sum:' + cname, 'sigma_xsec is not the sum of its components', spec,
                          dict(got=total[:, 0], expected=sum(exp)[:, 0]))


def _enc_table(names, rows):
    return C.L(list(zip(names, rows)), lambda p: C.S(p[0]) + ' ' + C.L(p[1]))


def chemistry_checks(ctx, m, spec):
    """which abundance the contributions are handed for a species: (1) the look-up `get_gas_mix_profile(name)` against the
    Lean rule MixLookup.gasMix evaluated on the chemistry's published tables, for every gas and for a name the chemistry does
    not have; (2) for a chemistry wrapped with MakeFreeMixin, the published tables themselves against MixLookup.freedActive /
    freedInactive evaluated on the file's columns and the free gases.  Both are correspondence (mismatch); the property's
    statement - component = cross-section x the species' mixing ratio in the atmosphere - is judged by check_sigma."""
    chem = m.chemistry
    n = int(m.nLayers)
    act, ina = [str(g) for g in chem.activeGases], [str(g) for g in chem.inactiveGases]
    A = [np.array(r, float) for r in (chem.activeGasMixProfile if len(act) else [])]
    I = [np.array(r, float) for r in (chem.inactiveGasMixProfile if len(ina) else [])]
    kind = spec.get('chem_kind') or 'taurex'
    sm = dict(small(spec), chem_kind=kind)
    for g in act + ina + ['XX']:
        d = ctx.model().call('c03.gasmix', C.N(n), _enc_table(act, A), _enc_table(ina, I), C.S(g))
        mod = d.opt(lambda: d.list())
        try:
            impl = [float(x) for x in np.asarray(chem.get_gas_mix_profile(g), float)]
        except KeyError:
            impl = None
        ctx.disagreements_checked += 1
        if (impl is None) != (mod is None) or (impl is not None and not C.close(impl, mod, rel=1e-13, abs_=0.0)):
            ctx.mismatch('Chemistry.get_gas_mix_profile vs MixLookup.gasMix on the published tables', dict(spec, small=sm),
                         dict(gas=g, impl=impl, model=mod, table='active' if g in act else 'inactive' if g in ina else None))
        ctx.bucket('mix-lookup:%s:%s' % (kind, 'active' if g in act else 'inactive' if g in ina else 'unknown-name'))
    if kind != 'makefree-file':
        return
    cf = spec['chem_file']
    avail = set(str(x) for x in chem.availableActive)
    base = list(zip([str(g) for g in cf['gases']], [np.asarray(r, float) for r in cf['table']]))
    bact = [b for b in base if b[0] in avail]
    bina = [b for b in base if b[0] not in avail]
    free = []
    for g in spec['gases']:
        prof = np.full(n, float(g['mix'])) if g.get('type', 'constant') == 'constant' else np.asarray(g['mix'], float)
        free.append((g['mol'], prof, g['mol'] in avail))
        where = 'replaces-active' if g['mol'] in [b[0] for b in bact] else 'replaces-inactive' if g['mol'] in \
            [b[0] for b in bina] else ('new-active' if g['mol'] in avail else 'new-inactive')
        ctx.bucket('makefree:free-gas:' + where)
    d = ctx.model().call('c03.makefree', C.N(n), _enc_table(*zip(*bact)) if bact else '0',
                         _enc_table(*zip(*bina)) if bina else '0',
                         C.L(free, lambda f: C.S(f[0]) + ' ' + C.L(f[1]) + ' ' + C.N(1 if f[2] else 0)))
    mact = d.list(lambda: (d.str(), d.list()))
    mina = d.list(lambda: (d.str(), d.list()))
    ctx.check_eq('MakeFreeMixin.activeGases / inactiveGases vs MixLookup.freedActive / freedInactive', (act, ina),
                 ([x[0] for x in mact], [x[0] for x in mina]), sm)
    if [x[0] for x in mact] == act and [x[0] for x in mina] == ina:
        ctx.check_close('MakeFreeMixin.activeGasMixProfile vs MixLookup.freedActive', np.ravel(A),
                        np.ravel([x[1] for x in mact]), sm, rel=1e-12)
        ctx.check_close('MakeFreeMixin.inactiveGasMixProfile vs MixLookup.freedInactive', np.ravel(I),
                        np.ravel([x[1] for x in mina]), sm, rel=1e-12)
    # the mean molecular weight (-> scale height -> every chord) of the freed chemistry is the weight of the mixture it
    # PUBLISHES: MixLookup.muOf on the published tables (mismatch), then the relation itself on the real code.  On the pinned
    # tree mu came from the wrapped chemistry's own table: a molecule of the file freed to zero still weighed in (repaired in
    # /repo, DESIGN §6; reproducer findings/c03_makefree_zero_abundance.py)
    from taurex.util.util import get_molecular_weight
    masses = [(g, float(get_molecular_weight(g))) for g in act + ina]
    dm = ctx.model().call('c03.mu', C.N(n), _enc_table(act, A), _enc_table(ina, I),
                          C.L(masses, lambda q: C.S(q[0]) + ' ' + C.F(q[1])))
    mu_impl = np.asarray(chem.muProfile, float)
    ctx.check_close('MakeFreeMixin.muProfile vs MixLookup.muOf on the published tables', mu_impl, np.array(dm.list()), sm,
                    rel=1e-12)
    mu_doc = sum(np.asarray(r, float) * w for r, (_, w) in zip(A + I, masses))
    ctx.bucket('makefree:mu-judged')
    ctx.bucket('makefree:wrapped-chemistry-has-%s-absorbing-molecule' % ('an' if bact else 'no'))
    # "weighted by that species' mixing ratio": the published rows are fractions of ONE mixture (they sum to one in every
    # layer).  On the pinned tree the rows of new absorbing molecules were left un-normalised when the wrapped chemistry has
    # no absorbing molecule of its own (repaired in /repo; reproducer findings/c03_makefree_unnormalised_new_active.py)
    tot = np.sum(A + I, axis=0)
    if not C.close(tot, np.ones(n), rel=1e-12, abs_=0.0):
        ctx.violation('makefree-mixture-not-normalised', 'the mixing ratios a makefree chemistry publishes do not sum to '
                      'one in every layer', spec, dict(total=tot[:4], gases=act + ina))
    if mu_impl.shape != np.shape(mu_doc) or not C.close(mu_impl, mu_doc, rel=1e-10, abs_=0.0):
        ctx.violation('makefree-mu-not-of-published-mixture', 'mean molecular weight of a makefree chemistry is not the '
                      'ratio-weighted sum of the molecular masses of the mixture it publishes (a freed species keeps '
                      'another abundance in mu)', spec, dict(mu=mu_impl[:4], weight_of_published_mixture=np.asarray(mu_doc)[:4],
                                                             gases=act + ina))


def eval_case(ctx, spec, extras=True):
    from taurex.util.output import store_contributions
    from taurex.binning.nativebinner import NativeBinner
    sm = small(spec)
    try:
        m, wn, depth, trans, p, contribs = T.run_real(spec)
        before = list(m.contribution_list)
        ng1, cdict = m.model_contrib()
        mid = list(m.contribution_list)
        ng2, fdict = m.model_full_contrib()
        after = list(m.contribution_list)
        stored = store_contributions(NativeBinner(), m)
        wn2, depth2, trans2, _ = m.model()
    except Exception as e:
        ctx.violation('raises:' + type(e).__name__, 'model / model_contrib / model_full_contrib raised %r' % (e,), spec)
        return
    n, nwn = p['nlayers'], len(wn)
    names = [c.name for c in before]
    if not (len(mid) == len(before) == len(after) and all(a is b for a, b in zip(before, mid)) and
            all(a is b for a, b in zip(before, after))):
        ctx.violation('contribution-list-not-restored', 'contribution_list differs after model_contrib/model_full_contrib',
                      spec, dict(before=names, after=[c.name for c in after]))
    if not (np.array_equal(trans, trans2) and np.array_equal(depth, depth2)):
        ctx.violation('model-not-repeatable', 'model() differs after model_contrib/model_full_contrib/store_contributions',
                      spec, dict(first=depth, second=depth2))
    collision = len(set(names)) < len(names)
    if collision:
        dup = sorted({x for x in names if names.count(x) > 1})
        ctx.violation('contrib-name-collision:' + ','.join(dup),
                      'two contributions share a name: model_contrib()/model_full_contrib()/store_contributions() keep one '
                      'entry, so the product of the stored per-contribution transmittances is not the model\'s', spec,
                      dict(names=names, keys=sorted(cdict)))
    # ---------------- Lean model of the whole run and of each contribution alone (driver_c03 serves the C01 ops)
    new = bool(spec['new_path_method'])
    head = [C.N(1 if new else 0), C.F(p['rp']), C.F(p['rs']), C.L(p['z']), C.L(p['dz']), C.L(p['zb']), C.L(p['density']),
            C.N(nwn)]
    enc = lambda ks: C.N(ks[0]) + ' ' + C.LL(ks[1].tolist())
    d = ctx.model().call('c01.spectrum', *head, C.L(contribs, enc))
    tcut = np.array(d.list(lambda: d.list())).reshape(n, nwn)
    tfull = np.array(d.list(lambda: d.list())).reshape(n, nwn)
    ctx.disagreements_checked += 1
    if licensed_rows(trans, tcut) is not None and licensed_rows(trans, tfull) is not None:
        ctx.mismatch('model()[2] vs Transmission.modelTrans', spec, dict(impl=trans[:3], model=tcut[:3]))
    mprod = np.ones((n, nwn))
    for (kind, sig), cobj in zip(contribs, before):
        d = ctx.model().call('c01.spectrum', *head, C.L([(kind, sig)], enc))
        t1 = np.array(d.list(lambda: d.list())).reshape(n, nwn)
        mprod *= t1
        if not collision and cobj.name in cdict:
            ctx.disagreements_checked += 1
            if not T.trans_close(np.asarray(cdict[cobj.name][1], float), t1):
                ctx.mismatch('model_contrib()[%s] vs Transmission.modelTrans [c]' % cobj.name, spec,
                             dict(impl=np.asarray(cdict[cobj.name][1])[:3], model=t1[:3]))
        if not collision and cobj.name in cdict:
            # the property's own statement of the kernel: sigma x density x chord (density squared for CIA)
            paths = [np.asarray(r, float) for r in m.path_length]
            with np.errstate(over='ignore'):
                o1 = np.exp(-T.tau_full(paths, p['density'], [(kind, sig)]))
            if not T.trans_close(np.asarray(cdict[cobj.name][1], float), o1, rel=1e-8):
                ctx.violation('contribution-integral:' + cobj.name,
                              'per-contribution transmittance != exp(-sum sigma x density%s x chord)' %
                              ('^2' if kind == 1 else ''), spec,
                              dict(impl=np.asarray(cdict[cobj.name][1])[:3], expected=o1[:3]))
    ctx.disagreements_checked += 1
    if licensed_rows(tcut, mprod) is not None:
        ctx.mismatch('Lean: cut transmittance vs product of single-contribution transmittances (theorem product_within_cutoff)',
                     spec, dict(cut=tcut[:3], prod=mprod[:3]))
    # ---------------- the property's own predicates on the implementation
    if not collision:
        prod = np.ones_like(trans)
        for nm in names:
            prod = prod * np.asarray(cdict[nm][1], float)
        bad = licensed_rows(trans, prod)
        if bad is not None:
            ctx.violation('product-identity', 'model transmittance != product of the per-contribution transmittances '
                          '(beyond the tau>10 licence)', spec, dict(layer=bad, model=trans[bad], product=prod[bad]))
        for nm in names:
            comps = fdict.get(nm, [])
            if not comps:
                continue
            cp = np.ones_like(trans)
            for (cn, ab, tt, _) in comps:
                cp = cp * np.asarray(tt, float)
            one = np.asarray(cdict[nm][1], float)
            if not T.trans_close(one, cp, rel=1e-8):
                ctx.violation('component-identity:' + nm, 'contribution transmittance != product over its components', spec,
                              dict(contribution=one[:3], product=cp[:3]))
            st = stored.get(nm, {})
            if 'native_tau' not in st or not np.array_equal(np.asarray(st['native_tau']), one):
                ctx.violation('stored-contribution:' + nm, 'store_contributions entry differs from model_contrib', spec)
            for (cn, ab, tt, _) in comps:
                if cn not in st or not np.array_equal(np.asarray(st[cn].get('native_tau')), np.asarray(tt)):
                    ctx.violation('stored-component:' + nm, 'store_contributions component differs from model_full_contrib',
                                  spec, dict(component=cn))
                    break
    chemistry_checks(ctx, m, spec)
    check_sigma(ctx, m, wn, spec)
    zero_gas_checks(ctx, spec, m, wn, trans, depth)
    if extras:
        extra_checks(ctx, spec, m, wn, trans, depth, names)
    # (thorough tier: every second case - the history costs one more model build and three more routes per case)
    if spec.get('route_history') and not collision and (ctx.quick or ctx.evaluations % 2 == 0):
        route_history(ctx, spec, m)
    mixed = bool(np.any((trans > 1e-6) & (trans < 1 - 1e-9)))
    ctx.case(key=(tuple(sorted(c['type'] for c in spec['contributions'])), n, spec.get('regime')) if mixed else None,
             sample=dict(sm, trans=trans[:2, 0], product=mprod[:2, 0]), bucket='regime:' + str(spec.get('regime')))
    ctx.bucket('ncontrib:%d' % len(names))
    ctx.bucket('chemistry:' + (spec.get('chem_kind') or 'taurex'))
    for c in spec['contributions']:
        ctx.bucket('contrib:' + c['type'])
    if collision:
        ctx.bucket('K4-configuration')


def extra_checks(ctx, spec, m, wn, trans, depth, names):
    rng = ctx.rng
    # ---- order independence
    order = spec.get('alt_order')
    if order is not None and sorted(order) == list(range(len(spec['contributions']))):
        s2 = dict(spec, contributions=[spec['contributions'][i] for i in order])
        try:
            _, _, depth_o, trans_o, _, _ = T.run_real(s2)
            bad = sym_rows(trans, trans_o)
            if bad is not None:
                ctx.violation('order-dependence', 'transmittance depends on the order contributions were added', spec,
                              dict(layer=bad, a=trans[bad], b=trans_o[bad], order=order))
            ctx.bucket('order-rerun')
        except Exception as e:
            ctx.violation('raises-reordered:' + type(e).__name__, 'reordered model raised %r' % (e,), spec)
    # ---- zero abundance: a species at zero abundance changes nothing, whatever its cross-sections are
    trace = [i for i, g in enumerate(spec['gases']) if g['mol'] not in ('H', 'e-')]
    i = trace[int(rng.integers(0, len(trace)))]
    mol = spec['gases'][i]['mol']
    gz = [dict(g) for g in spec['gases']]
    gz[i] = dict(mol=mol, type='constant', mix=0.0)
    s0 = dict(spec, gases=gz)
    big = lambda lst, key: [dict(o, xsec=np.asarray(o['xsec'], float) * 1e8 + 1e-3) if mol in o[key].split('-') else o
                            for o in lst]
    s1 = dict(s0, opacities=big(spec['opacities'], 'mol'), cia=big(spec['cia'], 'pair'))
    try:
        _, _, d0, t0, _, _ = T.run_real(s0)
        _, _, d1, t1, _, _ = T.run_real(s1)
        if not (C.close(t0.ravel(), t1.ravel(), rel=1e-12) and C.close(d0, d1, rel=1e-12)):
            ctx.violation('zero-abundance', 'a species at zero abundance changed the spectrum when its cross-sections '
                          'were replaced', spec, dict(molecule=mol, a=d0, b=d1))
        ctx.bucket('zero-abundance-rerun')
    except Exception as e:
        ctx.violation('raises-zero-abundance:' + type(e).__name__, 'model with a species at zero abundance raised %r' % (e,),
                      spec, dict(molecule=mol))
    # ---- one model object reused after parameter setters (every retrieval iteration) = a freshly built model
    cons_all = [j for j, g in enumerate(spec['gases']) if g.get('type', 'constant') == 'constant']
    if cons_all:
        try:
            j = cons_all[int(rng.integers(0, len(cons_all)))]
            gs = [dict(g) for g in spec['gases']]
            gs[j]['mix'] = float(gs[j]['mix'] * rng.choice([0.0, 0.3, 2.0]))
            has_ratio = spec.get('chem_kind') != 'makefree-file'      # the fill-gas ratio is a parameter of TaurexChemistry
            ratio = float(rng.uniform(0.05, 0.3)) if has_ratio else spec['ratio']
            FM.spec_install(spec)
            m[gs[j]['mol']] = gs[j]['mix']
            if has_ratio:
                m['He_H2'] = ratio
            wr, dr, tr, _ = m.model()
            _, _, df, tf, _, _ = T.run_real(dict(spec, gases=gs, ratio=ratio))
            if not (np.array_equal(np.asarray(tr), tf) and np.array_equal(np.asarray(dr), df)):
                ctx.violation('stale-state', 'a model reused after model[name] = value differs from a freshly built one', spec,
                              dict(gas=gs[j]['mol'], mix=gs[j]['mix'], ratio=ratio, reused=np.asarray(dr), fresh=df))
            m[gs[j]['mol']] = spec['gases'][j]['mix']
            if has_ratio:
                m['He_H2'] = spec['ratio']
            FM.spec_install(spec)
            m.model()
            ctx.bucket('reuse-rerun')
        except Exception as e:
            if _invalid_params(ctx, e):
                return
            ctx.violation('stale-state:raises:' + type(e).__name__, 'reused model raised %r after setters' % (e,), spec)
    # ---- H-: opacity proportional to the product of the H and e- abundances; none without electrons
    if any(c['type'] == 'hm' for c in spec['contributions']):
        try:
            hm = [x for x in m.contribution_list if type(x).__name__ == 'HydrogenIon'][0]
            m.model()
            s_ref = np.array(hm.sigma_xsec, float)
            c = float(rng.choice([0.0, 0.5, 3.0]))
            which = 'e-' if rng.random() < 0.5 else 'H'
            gs = [dict(g, mix=g['mix'] * c) if g['mol'] == which else dict(g) for g in spec['gases']]
            m3 = FM.build_model(dict(spec, gases=gs))
            m3.model()
            s_c = np.array([x for x in m3.contribution_list if type(x).__name__ == 'HydrogenIon'][0].sigma_xsec, float)
            if spec.get('chem_kind') == 'makefree-file':
                # a chemistry that renormalises: scaling the free abundance by c changes the column sum, hence the abundance
                # in the atmosphere of H AND of e-; the opacity must follow the product of the two abundances in the atmosphere
                p1 = T.chem_mix(m.chemistry, 'H') * T.chem_mix(m.chemistry, 'e-')
                p3 = T.chem_mix(m3.chemistry, 'H') * T.chem_mix(m3.chemistry, 'e-')
                s_want = s_ref * (p3 / p1)[:, None]
            else:
                s_want = s_ref * c
            if not C.close(s_c.ravel(), s_want.ravel(), rel=1e-10, abs_=1e-300):
                ctx.violation('hm-not-proportional', 'H- opacity is not proportional to the %s abundance' % which, spec,
                              dict(c=c, got=s_c[:, 0], expected=s_want[:, 0]))
            ctx.bucket('hm-rerun:c=%g' % c)
        except Exception as e:
            ctx.violation('raises-hm:' + type(e).__name__, 'model with scaled H/e- raised %r' % (e,), spec)
    # ---- proportionality: scaling one species' abundance by c scales exactly its component
    cons = [j for j in trace if spec['gases'][j].get('type', 'constant') == 'constant']
    if cons and any(type(c).__name__ == 'AbsorptionContribution' for c in m.contribution_list):
        j = cons[int(rng.integers(0, len(cons)))]
        c = float(rng.choice([0.5, 0.25, 2.0]))
        gs = [dict(g) for g in spec['gases']]
        gs[j]['mix'] = gs[j]['mix'] * c
        try:
            m2 = FM.build_model(dict(spec, gases=gs))
            m2.model()
            a1 = [x for x in m.contribution_list if type(x).__name__ == 'AbsorptionContribution'][0]
            a2 = [x for x in m2.contribution_list if type(x).__name__ == 'AbsorptionContribution'][0]
            FM.spec_install(spec)
            c1 = {nm: np.array(s, float) for nm, s in a1.prepare_each(m, wn)}
            FM.spec_install(spec)
            c2 = {nm: np.array(s, float) for nm, s in a2.prepare_each(m2, wn)}
            molj = spec['gases'][j]['mol']
            renorm = spec.get('chem_kind') == 'makefree-file'
            for nm in c1:
                want = c1[nm] * (c if nm == molj else 1.0)
                if renorm:
                    # a chemistry that renormalises: the abundance in the atmosphere of EVERY species changes by the ratio of
                    # the column sums; each component must follow its own species' abundance (exact zeros stay zero)
                    a1, a2 = T.chem_mix(m.chemistry, nm), T.chem_mix(m2.chemistry, nm)
                    want = c1[nm] * np.where(a1 != 0, a2 / np.where(a1 != 0, a1, 1.0), 0.0)[:, None]
                if not C.close(c2[nm].ravel(), want.ravel(), rel=1e-11 if renorm else 1e-12, abs_=1e-300):
                    ctx.violation('sigma-not-proportional', 'component opacity is not proportional to its own abundance '
                                  '(or depends on another species\')', spec,
                                  dict(scaled=molj, c=c, component=nm, got=c2[nm][:, 0], expected=want[:, 0]))
                    break
            ctx.bucket('proportionality-rerun')
        except Exception as e:
            ctx.violation('raises-scaled-abundance:' + type(e).__name__, 'model with a scaled abundance raised %r' % (e,), spec)


def run_routes(m, order):
    """the three public evaluation routes on the model object as it is, in the given order"""
    out = {}
    calls = dict(components=lambda: m.model_full_contrib()[1], contributions=lambda: m.model_contrib()[1],
                 model=lambda: m.model())
    seq = {'components-first': ['components', 'contributions', 'model'],
           'contributions-first': ['contributions', 'components', 'model'],
           'model-first': ['model', 'components', 'contributions']}[order]
    for r in seq:
        out[r] = calls[r]()
    return out


def route_history(ctx, spec, m):
    """HISTORY quota.  One model object that has been run; parameters are then changed through the fitting-parameter
    interface and the three routes are called (per-component route first in half of the cases).  Every route must reflect
    the NEW values: each contribution / component transmittance is compared with the Lean transmittance of the weighted
    opacity a freshly built model prepares for the new values (mismatch), then the property's own identities are judged on
    the real code (contribution = product over its components, model = product over its contributions, each component
    equal to the freshly built model's)."""
    h = spec['route_history']
    sm = dict(small(spec), route_history=h)
    case = spec
    never = bool(h.get('never_run'))
    # (On the pinned tree SimpleCloudsContribution.prepare_each stored its deck in `self._contrib` while `contribute` reads
    # `self.sigma_xsec`, so the 'Clouds' component of model_full_contrib() was the deck of the LAST prepare(): stale after a
    # change of clouds_pressure or of the pressure grid.  Found by this stream, repaired in /repo (known_findings.txt, DESIGN
    # §6); the component is judged like every other one.)
    # A model that was NEVER evaluated: the per-component route needs attributes only prepare() sets (Absorption `_nlayers`,
    # HydrogenIon `_ngrid`) and raises; no transmittance is returned that the property could
    # speak about -> malformed stream.  When the routes do run, they are judged like any other history.
    try:
        if never:
            mr = FM.build_model(spec)                  # built, never evaluated
            spec2 = spec
        else:
            FM.spec_install(spec)
            mr = m
            mr.model()                                 # the last run saw the OLD values
            spec2 = T.apply_step(spec, mr, h['step'])
        got = run_routes(mr, h['order'])
        p = FM.profiles(mr)
        paths = [np.asarray(r, float) for r in mr.path_length]
        before = list(mr.contribution_list)
    except Exception as e:
        if _invalid_params(ctx, e):
            return
        if never:
            ctx.malformed_outcome('never-evaluated-model:routes-%s:%s' % (h['order'], type(e).__name__))
            return
        ctx.violation('stale-state:routes-raise:' + type(e).__name__, 'model_full_contrib / model_contrib / model raised '
                      '%r after parameter setters' % (e,), case, dict(route_history=h))
        return
    try:
        mf, wn, depth_f, trans_f, pf, contribs_f = T.run_real(spec2)
        comps_f = []
        for cf in mf.contribution_list:
            comps_f.append([(str(nm), np.array(sg, float)) for nm, sg in cf.prepare_each(mf, wn)])
            cf.prepare(mf, wn)
    except Exception as e:
        if _invalid_params(ctx, e):
            return
        ctx.violation('raises-fresh-after-setters:' + type(e).__name__, 'a freshly built model with the new values raised '
                      '%r' % (e,), case, dict(route_history=h))
        return
    finally:
        if not never:
            try:                                       # put the shared model object back
                FM.spec_install(spec)
                for name in h['step']:
                    for g in spec['gases']:
                        if g['mol'] == name:
                            m[name] = g['mix']
                    for c in spec['contributions']:
                        if name in c:
                            m[name] = c[name]
                m.model()
            except Exception:  # noqa
                pass
    ctx.bucket('route-history:' + ('never-run' if never else 'after-setters') + ':' + h['order'])
    for name in ([] if never else h['step']):
        ctx.bucket('route-history:changed:' + (name if name in sum(OWN_PARAMS.values(), []) else 'gas-abundance'))
    wn_r, depth, trans, _ = got['model']
    trans = np.asarray(trans, float)
    cdict, fdict = got['contributions'], got['components']
    n, nwn = p['nlayers'], len(wn)
    new = bool(spec['new_path_method'])
    head = [C.N(1 if new else 0), C.F(p['rp']), C.F(p['rs']), C.L(p['z']), C.L(p['dz']), C.L(p['zb']), C.L(p['density']),
            C.N(nwn)]
    enc = lambda ks: C.N(ks[0]) + ' ' + C.LL(ks[1].tolist())

    def lean_trans(kind, sig):
        d = ctx.model().call('c01.spectrum', *head, C.L([(kind, sig)], enc))
        return np.array(d.list(lambda: d.list())).reshape(n, nwn)       # transmittance of this opacity alone
    names = [c.name for c in before]
    if [c.name for c in mf.contribution_list] != names or trans.shape != trans_f.shape:
        ctx.violation('stale-state:structure', 'contribution names / shapes differ from a freshly built model', case,
                      dict(route_history=h, reused=names, fresh=[c.name for c in mf.contribution_list]))
        return
    for i, cobj in enumerate(before):
        nm = cobj.name
        kind = contribs_f[i][0]
        # ---- correspondence: the reused object's routes vs the Lean transmittance of the opacity prepared for the NEW values
        one = np.asarray(cdict[nm][1], float) if nm in cdict else None
        comps = fdict.get(nm)
        if type(cobj).__name__ == 'SimpleCloudsContribution':
            ctx.bucket('route-history:cloud-deck-component-judged')
        ctx.disagreements_checked += 1
        if one is None or not T.trans_close(one, lean_trans(kind, contribs_f[i][1]), rel=1e-8):
            ctx.mismatch('model_contrib()[%s] of a model with a history vs Transmission.modelTrans on the new values' % nm,
                         dict(case, small=sm), dict(impl=None if one is None else one[:3]))
        if comps is not None and [str(cn) for cn, _, _, _ in comps] == [cn for cn, _ in comps_f[i]]:
            for (cn, ab, tt, _), (_, sg) in zip(comps, comps_f[i]):
                ctx.disagreements_checked += 1
                if not T.trans_close(np.asarray(tt, float), lean_trans(kind, sg), rel=1e-8):
                    ctx.mismatch('model_full_contrib()[%s][%s] of a model with a history vs Transmission.modelTrans on '
                                 'the new values' % (nm, cn), dict(case, small=sm), dict(impl=np.asarray(tt)[:3]))
        # ---- the property's identities on the real code
        if one is None or comps is None:
            ctx.violation('stale-state:route-entry-missing:' + nm, 'a route has no entry for the contribution', case,
                          dict(route_history=h))
            continue
        if comps:
            cp = np.ones_like(trans)
            for (cn, ab, tt, _) in comps:
                cp = cp * np.asarray(tt, float)
            if not T.trans_close(one, cp, rel=1e-8):
                ctx.violation('stale-state:component-identity:' + nm, 'contribution transmittance != product over its '
                              'components %s' % ('on a never-run model' if never else 'after a parameter change'), case,
                              dict(route_history=h, contribution=one[:3], product=cp[:3]))
        fresh_names = [cn for cn, _ in comps_f[i]]
        if [str(cn) for cn, _, _, _ in comps] != fresh_names:
            ctx.violation('stale-state:component-names:' + nm, 'components differ from a freshly built model', case,
                          dict(route_history=h, reused=[str(c[0]) for c in comps], fresh=fresh_names))
            continue
        with np.errstate(over='ignore'):
            for (cn, ab, tt, _), (_, sg) in zip(comps, comps_f[i]):
                want = np.exp(-T.tau_full(paths, p['density'], [(kind, sg)]))
                if not T.trans_close(np.asarray(tt, float), want, rel=1e-8):
                    ctx.violation('stale-state:component-differs-from-fresh:' + nm, 'a component of model_full_contrib() '
                                  'is not exp(-sum sigma x density x chord) of the opacity a freshly built model prepares '
                                  'for the current parameter values', case,
                                  dict(route_history=h, component=str(cn), impl=np.asarray(tt)[:3], expected=want[:3]))
                    break
    prod = np.ones_like(trans)
    for nm in names:
        if nm in cdict:
            prod = prod * np.asarray(cdict[nm][1], float)
    bad = licensed_rows(trans, prod)
    if bad is not None:
        ctx.violation('stale-state:product-identity', 'model transmittance != product of the per-contribution '
                      'transmittances (beyond the tau>10 licence) for a model with a history', case,
                      dict(route_history=h, layer=bad, model=trans[bad], product=prod[bad]))
    if sym_rows(trans, trans_f) is not None:
        ctx.violation('stale-state:differs-from-fresh', 'model() of a model with a history differs from a freshly built '
                      'model with the same values', case, dict(route_history=h, reused=trans[:3], fresh=trans_f[:3]))


def without_gas(spec, mol):
    """the same atmosphere with `mol` removed altogether (gas, table, CIA pairs that name it)"""
    s2 = dict(spec)
    s2['gases'] = [g for g in spec['gases'] if g['mol'] != mol]
    if spec.get('chem_file'):
        cf = spec['chem_file']
        keep = [i for i, g in enumerate(cf['gases']) if g != mol]
        s2['chem_file'] = dict(gases=[cf['gases'][i] for i in keep], table=[cf['table'][i] for i in keep])
    s2['opacities'] = [o for o in spec['opacities'] if o['mol'] != mol]
    s2['cia'] = [c for c in spec['cia'] if mol not in c['pair'].split('-')]
    cs = []
    for c in spec['contributions']:
        if c['type'] == 'cia':
            c = dict(c, pairs=[pr for pr in c['pairs'] if mol not in pr.split('-')])
        cs.append(c)
    s2['contributions'] = cs
    return s2


def zero_gas_checks(ctx, spec, m, wn, trans, depth):
    """a species at exactly zero abundance changes nothing: its components are all-zero / absent, and the model
    equals the model without the species"""
    z = spec.get('zero_gas')
    if not z:
        return
    mol = z['mol']
    ctx.bucket('zero-gas:%s:%s' % (z['position'], z['mode']))
    prof = T.chem_mix(m.chemistry, mol)
    zero_layers = prof == 0.0
    if not zero_layers.any():
        ctx.violation('zero-gas-not-zero', 'a gas given exactly zero abundance has a non-zero mixing ratio', spec,
                      dict(molecule=mol, profile=prof))
        return
    for contrib in m.contribution_list:
        cname = type(contrib).__name__
        if cname not in ('AbsorptionContribution', 'CIAContribution', 'RayleighContribution'):
            continue
        for nm, sig in contrib.prepare_each(m, wn):
            sig = np.array(sig, float)
            if mol in str(nm).split('-') and np.any(sig[zero_layers] != 0.0):
                ctx.violation('zero-abundance-component:' + cname,
                              'the component of a species with zero abundance is not zero in those layers', spec,
                              dict(component=nm, molecule=mol, sigma=sig[:, 0], mix=prof))
                break
        contrib.prepare(m, wn)
    if not zero_layers.all():
        return
    s2 = without_gas(spec, mol)
    if not s2['opacities']:
        return
    try:
        m2, wn2, depth2, trans2, p2, _ = T.run_real(s2)
    except Exception as e:
        ctx.violation('raises-without-zero-gas:' + type(e).__name__, 'model without the zero-abundance gas raised %r' % (e,),
                      spec, dict(molecule=mol))
        return
    if not np.array_equal(wn2, wn):
        ctx.bucket('zero-gas:defines-native-grid(skipped)')
        return
    bad = sym_rows(trans, trans2)
    if bad is not None or not C.close(depth, depth2, rel=1e-9, abs_=E10 * float(np.max(depth))):
        ctx.violation('zero-abundance-vs-absent', 'the model with a species at zero abundance differs from the model without '
                      'that species', spec, dict(molecule=mol, with_zero=depth, without=depth2))
    if np.array_equal(trans, trans2) and np.array_equal(depth, depth2):
        ctx.bucket('zero-gas:bit-identical-to-absent')
    FM.spec_install(spec)


# --------------------------------------------------------------------------------------------- correlated-k opacity mode
# `[Global] opacity_method = ktables`: the molecular absorption enters as k-coefficients on g-points and AbsorptionContribution
# integrates it with a kernel of its own (contribute_ktau: tau[layer, wn] += -log sum_g w_g exp(-tau_g)).  The other sources
# are unchanged.  Real TransmissionModels on k-table files written to a scratch directory (fixtures of harness/em_common.py),
# 2-4 sources in shuffled insertion order - the molecular absorption first / in the middle / last among them.
from harness import em_common as E   # noqa: E402

K_POSITIONS = ['absorption-last', 'absorption-first', 'absorption-in-the-middle', 'absorption-last']
K_NAMES = {'absorption': 'Absorption', 'cia': 'CIA', 'rayleigh': 'Rayleigh', 'flatmie': 'Mie'}


def gen_kcase(rng, k):
    regime = ['mid', 'thin', 'mid', 'thick'][k % 4]
    nl = int(rng.integers(2, 21))
    nwn = int(rng.integers(1, 6))
    wn = np.sort(rng.choice(np.arange(3000.0, 25000.0, 13.0), size=nwn, replace=False))
    ng = int(rng.integers(1, 9))
    w = rng.random(ng) + 0.02
    w = w / w.sum()
    T = float(rng.uniform(300, 2500)) if rng.random() < 0.4 else [float(x) for x in rng.uniform(300, 2500, size=nl)]
    names = [str(x) for x in rng.choice(['H2O', 'CH4', 'CO2', 'CO'], size=int(rng.integers(1, 3)), replace=False)]
    gases, tables = {}, {}
    lo, hi = {'thin': (-30.0, -27.0), 'mid': (-26.5, -22.5), 'thick': (-20.0, -14.0)}[regime]
    for nm in names:
        nT, nP = int(rng.integers(2, 4)), int(rng.integers(2, 4))
        tg = np.sort(rng.choice(np.arange(100.0, 3500.0, 50.0), size=nT, replace=False))
        pg = 10 ** np.sort(rng.choice(np.linspace(-8, 2, 41), size=nP, replace=False))
        base = 10 ** (rng.uniform(lo, hi, size=nwn)[None, None, :] + rng.uniform(-0.3, 0.3, size=(nP, nT, nwn)))
        spread = np.sort(rng.uniform(0.0, 3.0, size=(nP, nT, nwn, ng)), axis=-1)
        gases[nm] = float(10 ** rng.uniform(-5, -2))
        tables[nm] = dict(tg=tg, pg=pg, kcoeff=base[..., None] * 10 ** spread)
    pair = 'H2-He' if rng.random() < 0.5 else 'H2-H2'
    ctg = np.sort(rng.choice(np.arange(100.0, 3500.0, 100.0), size=3, replace=False))
    cia = dict(pair=pair, tg=ctg, tab=10 ** (rng.uniform(-55, -49) + rng.uniform(-1, 1, size=(3, nwn))))
    others = [c for c in ('cia', 'rayleigh', 'flatmie') if rng.random() < 0.6] or ['cia']
    others = [others[i] for i in rng.permutation(len(others))]
    pos = K_POSITIONS[k % len(K_POSITIONS)]
    if pos == 'absorption-in-the-middle' and len(others) < 2:
        others = (others + [c for c in ('rayleigh', 'cia') if c not in others])[:2]
    at = len(others) if pos == 'absorption-last' else 0 if pos == 'absorption-first' else int(rng.integers(1, len(others)))
    contribs = others[:at] + ['absorption'] + others[at:]
    alt = [contribs[i] for i in rng.permutation(len(contribs))]
    if alt == contribs:
        alt = contribs[::-1]
    spec = dict(mp=float(rng.uniform(0.3, 5)), rp=float(rng.uniform(0.5, 1.6)), ts=float(rng.uniform(3000, 9000)),
                rs=float(rng.uniform(0.3, 2.0)), nlayers=nl, pmin=float(10 ** rng.uniform(-3, 1)),
                pmax=float(10 ** rng.uniform(4, 6.5)), T=T, gases=gases, cia=[pair], contribs=contribs,
                flatmie=dict(mix=float(10 ** rng.uniform(-30, -24))))
    return dict(mode='ktables', regime=regime, position=pos, spec=spec, alt_contribs=alt, wn=wn, tables=tables, weights=w,
                cia=cia)


def eval_kcase(ctx, c):
    import shutil
    import tempfile
    scratch = tempfile.mkdtemp(prefix='verif_c03k_')
    try:
        _eval_kcase(ctx, c, scratch)
    finally:
        shutil.rmtree(scratch, ignore_errors=True)


def _eval_kcase(ctx, c, scratch):
    spec = c['spec']
    w = np.asarray(c['weights'], float)
    small_ = dict(mode='ktables', regime=c.get('regime'), nlayers=spec['nlayers'], contributions=list(spec['contribs']),
                  gases=sorted(spec['gases']), gpoints=len(w))
    try:
        with E.CacheState():
            E.install_tables(c['wn'], c['tables'], c.get('cia'), 'ktables', scratch, w)
            m = E.build_model('transmission', spec)
            ok = E.observe_model(m, 'transmission')
            objs = list(m.contribution_list)
            inputs = E.contribution_inputs_all(m)
            _, cdict = m.model_contrib()
            wn2, depth2, trans2, _ = m.model()
            m2 = E.build_model('transmission', dict(spec, contribs=list(c['alt_contribs'])))
            trans_alt = np.asarray(m2.model()[2], float)
            order_alt = [x.name for x in m2.contribution_list]
    except Exception as e:
        ctx.violation('ktables:raises:' + type(e).__name__, 'transmission model in correlated-k mode raised %r on a valid '
                      'atmosphere' % (e,), c)
        return
    names = [x.name for x in objs]
    if names != [K_NAMES[x] for x in spec['contribs']] or order_alt != [K_NAMES[x] for x in c['alt_contribs']]:
        ctx.mismatch('build() keeps the insertion order of sources of equal `order`', c, dict(got=names, alt=order_alt))
        return
    trans = np.asarray(ok['tau'], float)
    paths, dens = ok['path'], ok['dens']
    n, nwn = len(dens), trans.shape[1]
    ia = [i for i, x in enumerate(objs) if type(x).__name__ == 'AbsorptionContribution'][0]
    sig3 = np.asarray(ok['sigma_abs'], float)
    if sig3.ndim != 3 or ok['weights'] is None:
        ctx.mismatch('correlated-k mode: AbsorptionContribution holds k-coefficients per g-point and the weights', c,
                     dict(ndim=int(sig3.ndim)))
        return
    # ---- Lean: the k-table kernel on a buffer holding what the EARLIER sources put into the layer (KTau.ktauRow), the later
    # sources added after it (sigma x density x chord: contribute_tau / contribute_cia)
    with np.errstate(over='ignore', invalid='ignore'):
        acc = T.tau_full(paths, dens, [inputs[i] for i in range(ia)]) if ia > 0 else np.zeros((n, nwn))
        later = T.tau_full(paths, dens, [inputs[i] for i in range(ia + 1, len(objs))]) if ia + 1 < len(objs) else \
            np.zeros((n, nwn))

    def lean_ktau(a):
        d = ctx.model().call('c03.ktau', C.N(nwn), C.LLL(sig3.tolist()), C.LL([list(map(float, r)) for r in paths]),
                             C.L(dens), C.L(ok['weights']), C.LL(np.asarray(a, float).tolist()))
        return np.array(d.list(lambda: d.list()), float).reshape(n, nwn)
    with np.errstate(over='ignore'):
        mtrans = np.exp(-(lean_ktau(acc) + later))
        mabs = np.exp(-lean_ktau(np.zeros((n, nwn))))
    ctx.disagreements_checked += 1
    if licensed_rows(trans, mtrans) is not None:
        ctx.mismatch('k-tables: model()[2] vs exp(-(KTau.ktauRow on the earlier sources\' optical depth + later sources))', c,
                     dict(impl=trans[:3], model=mtrans[:3], position=ia))
    ctx.disagreements_checked += 1
    if 'Absorption' not in cdict or not T.trans_close(np.asarray(cdict['Absorption'][1], float), mabs, rel=1e-7):
        ctx.mismatch('k-tables: model_contrib()[Absorption] vs exp(-KTau.ktauRow on an empty buffer)', c,
                     dict(impl=np.asarray(cdict.get('Absorption', (None, [None]))[1])[:3], model=mabs[:3]))
    # ---- the property's own predicates on the real code
    if not (np.array_equal(trans, np.asarray(trans2, float))):
        ctx.violation('ktables:model-not-repeatable', 'model() differs after model_contrib() in correlated-k mode', c)
    if any(nm not in cdict for nm in names):
        ctx.violation('ktables:contribution-entry-missing', 'model_contrib() has no entry for a source', c,
                      dict(names=names, keys=sorted(cdict)))
        return
    prod = np.ones_like(trans)
    for nm in names:
        prod = prod * np.asarray(cdict[nm][1], float)
    bad = licensed_rows(trans, prod)
    if bad is not None:
        ctx.violation('ktables:product-identity', 'correlated-k mode: model transmittance != product of the per-source '
                      'transmittances (beyond the tau>10 licence)', c,
                      dict(layer=bad, model=trans[bad], product=prod[bad], sources=names))
    bad = sym_rows(trans, trans_alt) if trans_alt.shape == trans.shape else 0
    if bad is not None:
        ctx.violation('ktables:order-dependence', 'correlated-k mode: transmittance depends on the order sources were added',
                      c, dict(layer=bad, a=trans[bad], b=trans_alt[bad] if trans_alt.shape == trans.shape else None,
                              order=names, other_order=order_alt))
    with np.errstate(over='ignore', divide='ignore'):
        ta = -np.log(np.maximum(mabs, 1e-320))
    vis = bool(np.any((acc > 0.01) & (acc < 8) & (ta > 0.01) & (ta < 8)))
    mixed = bool(np.any((trans > 1e-6) & (trans < 1 - 1e-9)))
    ctx.case(key=('ktables', tuple(spec['contribs']), n, c.get('regime')) if mixed else None,
             sample=dict(small_, trans=trans[:2, 0], model=mtrans[:2, 0]), bucket='ktables:regime:' + str(c.get('regime')))
    ctx.bucket('ktables:' + ('absorption-first' if ia == 0 else 'absorption-last' if ia == len(objs) - 1 else
                             'absorption-in-the-middle'))
    ctx.bucket('ktables:earlier-source-and-absorption-both-visible-in-a-layer:' + str(vis))
    ctx.bucket('ktables:nsources:%d' % len(objs))
    ctx.bucket('ktables:g-points:' + ('1' if len(w) == 1 else '2-8'))


def run_ktables(ctx):
    for k in range(ctx.n(16, 160)):
        eval_kcase(ctx, gen_kcase(ctx.rng, k))


def malformed(ctx):
    rng = ctx.rng
    for k in range(ctx.n(4, 30)):
        spec = gen_case(rng, k)
        if k % 2 == 0:
            spec['contributions'] = [dict(type='cia', pairs=['H2-XX'])] + spec['contributions']
            tag = 'cia-pair-without-table'
        else:
            spec['gases'][0] = dict(mol=spec['gases'][0]['mol'], type='constant', mix=1.5)
            tag = 'mix>1'
        try:
            T.run_real(spec)
            ctx.malformed_outcome(tag + ':ran')
        except Exception as e:
            ctx.malformed_outcome(tag + ':' + type(e).__name__)


def run(ctx):
    FM.quiet()
    n = ctx.n(200, 4000)
    for k in range(n):
        eval_case(ctx, gen_case(ctx.rng, k))
    run_ktables(ctx)
    malformed(ctx)
    FM.reset_caches()


def replay(ctx, case):
    FM.quiet()
    case = case.get('case', case)        # a replays/*.json payload or a bare case
    if case.get('mode') == 'ktables':
        eval_kcase(ctx, case)
        FM.reset_caches()
        return
    eval_case(ctx, case)
    FM.reset_caches()
