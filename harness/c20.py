"""C20 — correlated-k reduces to cross-sections when the k-distribution is degenerate.
Real TransmissionModel / EmissionModel objects run in k-table mode on pickle k-tables written to a scratch
`ktable_path` (so the real loader and KTableCache discovery are exercised) and in cross-section mode on the same
numbers.  Correspondence of KTau.lean (ktauRow, depth, emissionK) with the k-mode runs; the property's predicates
on the implementation: degenerate tables reproduce the cross-section spectra (transmission exactly, emission within
the licensed exp(-10) clamp band of the cross-section path), transmittance in [0,1], transmittance at least that of
the weight-averaged coefficient (Jensen), isothermal identity / hot-cold bounds of the k-mode emission spectrum."""
import math
import shutil
import tempfile
import numpy as np
from harness import common as C
from harness import em_common as E
from harness.c02 import pc_tokens, PARSEC, EM10
from harness.c02 import SRC_SPECS as _C02_SPECS

# ---- source tie (harness/translate.py -> lean/TaurexModel/Gen/SrcC20.lean, theorems in lean/Props/C20Src.lean)
_AB = 'taurex/contributions/absorption.py'
_KK = dict(startK='nat', endK='nat', density_offset='nat', sigma='arr2', density='arr', path='arr', weights='arr',
           ngrid='skip', layer='nat', ngauss='nat')
_XK = dict(startK='nat', endK='nat', density_offset='nat', sigma='arr', density='arr', path='arr', nlayers='skip',
           ngrid='skip', layer='nat', tau='arr')
_CM = dict(model='skip', start_layer='nat', end_layer='nat', density_offset='nat', layer='nat', density='arr',
           tau='arr', path_length='arr')
_KT_SPEC = dict(module='taurex/model/emission.py', cls='EmissionModel', func='evaluate_emission_ktables',
         lean='evaluate_emission_ktables', params=dict(wngrid='elem', return_contrib='skip'), lift=['idx'],
         lift_lens=['wngrid_size'], lens={'wg': 'ngauss'}, vec_len='ngauss',
         consts={'PI': 's', 'PLANCK': 's', 'SPDLIGT': 's', 'KBOLTZ': 's'},
         dialect='np', returns='s', returns_index=0, slice=True,
         attrs={'self.deltaz': ('deltaz', 'arr'), 'self.nLayers': ('nLayers', 'nat'),
                'self.densityProfile': ('densityProfile', 'arr'), 'self.temperatureProfile': ('temperatureProfile', 'arr'),
                'self._mu_quads': ('mu_quads', 'elem'), 'self._wi_quads': ('wi_quads', 'elem'), 'self._clamp': ('clamp', 's'),
                'molecule_absorption.weights': ('weights', 'arr'), 'molecule_absorption.sigma_xsec': ('sigma_k', 'arr2')},
         # how the contribution list is split is not translated: the texts of these definitions are pinned
         opaque_defs={'mol_type': ['AbsorptionContribution'],
                      'non_molecule_absorption': ['[c for c in self.contribution_list if not isinstance(c, mol_type)]'],
                      'contrib_types': ['[type(c) for c in self.contribution_list]'],
                      'molecule_absorption': ['None', 'self.contribution_list[contrib_types.index(mol_type)]']},
         bool_exprs={'molecule_absorption is not None': 'has_mol'},
         objlists={'non_molecule_absorption': dict(n='nnonmol', methods={'contribute': dict(
             lean='contribute', params=list(_CM), kinds=dict(_CM, tau='s'), inout='tau')})},
         objects={'molecule_absorption': dict(methods={'contribute': dict(
             lean='mol_contribute', params=list(_CM), kinds=dict(_CM, tau='s'), inout='tau')})})
SRC_SPECS = [
    # the kernels, one wavenumber (`wn` lifted): sigma[k, wn, g] -> sigma k g, tau[layer, wn] -> tau layer
    dict(module=_AB, func='contribute_ktau', lean='contribute_ktau', params=dict(_KK, tau='arr'), lift=['wn'],
         lift_lens=['ngrid'], dialect='np', result='tau', returns='arr'),
    dict(module='taurex/model/emission.py', func='contribute_ktau_emission', lean='contribute_ktau_emission', params=_KK,
         lift=['wn'], lift_lens=['ngrid'], dialect='np', returns='arr'),
    dict(module='taurex/contributions/contribution.py', func='contribute_tau', lean='contribute_tau', params=_XK,
         lift=['wn'], dialect='np', result='tau', returns='arr'),
    # the cross-section method (`super().contribute` of the absorption contribution) and the k-table / cross-section switch
    dict(module='taurex/contributions/contribution.py', cls='Contribution', func='contribute',
         callname='super().contribute', lean='contribution_contribute', params=_CM,
         attrs={'self.sigma_xsec': ('sigma_xsec', 'arr')}, dialect='np', result='tau', returns='arr'),
    # the CIA kernel and method (a non-molecular contribution of the emission integral); same specs as C02
    *[sp for sp in _C02_SPECS if sp['lean'] in ('contribute_cia', 'cia_contribute')],
    # `self.sigma_xsec` has rank 3 in k-table mode (sigma_k: [layer][g] for one wavenumber) and rank 2 in cross-section
    # mode (the `sigma_xsec` parameter of Contribution.contribute): two parameters for the one attribute
    dict(module=_AB, cls='AbsorptionContribution', func='contribute', lean='absorption_contribute',
         params=dict(model='skip', start_horz_layer='nat', end_horz_layer='nat', density_offset='nat', layer='nat',
                     density='arr', tau='arr', path_length='arr'),
         attrs={'self._use_ktables': ('use_ktables', 'bool'), 'self.sigma_xsec': ('sigma_k', 'arr2'),
                'self.weights': ('weights', 'arr'), 'self._ngrid': ('ngrid', 'nat')},
         lens={'self.weights': 'ngauss'}, dialect='np', result='tau', returns='arr'),
    # transit depth from the transmittances: one wavenumber (lifted trailing axis), whole arrays along the layer axis
    dict(module='taurex/model/transmission.py', cls='TransmissionModel', func='compute_absorption',
         lean='compute_absorption', params=dict(tau='arr', dz='arr'), vec_len='nlayers', dialect='np', returns='s',
         returns_index=0, slice=True, newaxis_lifted=True,
         attrs={'self.altitudeProfile': ('altitudeProfile', 'arr'), 'self._planet.fullRadius': ('pradius', 's'),
                'self._star.radius': ('sradius', 's')}),
    # the Planck function (the same three specs as C02: `black_body` is called by the emission integral)
    *[sp for sp in _C02_SPECS if sp['lean'] in ('convert_lamb', 'black_body_vec', 'black_body')],
    # the emission integral in k-table mode: one wavenumber and one emission angle (both axes point-wise: `idx` is the
    # angle index of the explicit loop), whole arrays along the g axis (length ngauss)
    _KT_SPEC,
    # components 1 and 2 of the returned tuple (`_mu`, `_w`)
    dict(_KT_SPEC, lean='evaluate_emission_ktables_mu', returns_index=1),
    dict(_KT_SPEC, lean='evaluate_emission_ktables_w', returns_index=2),
]

RULE = ('pickle and HDF5 k-tables (1-20 g-points, weights >= 0 summing to 1, 1-3 molecules sharing the weights; quota with '
        'per-molecule wavenumber grids resampled onto the model grid; reuse stream with parameter changes and '
        'k-table set swaps on one model object; session stream: the k-table directory looked at while empty / holding '
        'another molecule, tables installed, k-mode run, then the interpolation mode changed or taken back through '
        'OpacityCache().set_interpolation and the pair of runs repeated in the mode in force) loaded by the '
        'real PickleKTable/HDF5KTable/KTableCache; family in {transmission (absorption only or + CIA), emission (absorption, '
        'optional CIA)}; twin-grid stream: all molecules on the same bin centres (constant-resolution pieces, R = 60..3000), one '
        'side held as float64(float32(.)), either side first, end points exactly shared or rounded too; contribution-list '
        'stream: 8 lists over {absorption, CIA, Rayleigh, flat Mie} in both families, 5 of them without the molecular '
        'absorption, model() and every entry of model_contrib() run in both opacity modes; formula-name stream: one or every '
        'molecule a species with lower-case letters in its formula (TiO, Na, FeH, ...), both containers; table kind in {degenerate (identical across g), generic}; opacity regime in {zero, thin, mid, '
        'saturated, mixed}; 1-30 layers, 1-8 wavenumbers, ngauss 1-6; distinct non-trivial = distinct (family, kind, '
        'ng, nlayers, regime, cia) with a column neither transparent nor saturated')
ASSUMPTIONS = ['all k-tables of one run share the quadrature weights (the code takes them from the first active gas)',
               'weights >= 0 and sum to 1 (to rounding); coefficients >= 0',
               'main / reuse / session streams: the molecular absorption contribution is present; the emission k-path '
               'without it (a list of non-molecular contributions only, the non-molecular entries of model_contrib()) is '
               'KTau.emissionKNoMol, exercised by the contribution-list stream',
               'contribution-list stream: Rayleigh and flat-Mie enter through the sigma_xsec their own prepare() leaves '
               '(their wavelength laws are not modelled); a contribution evaluated on its own by model_contrib() is the '
               'model with the one-element contribution list',
               'twin-grid stream: a bin centre that went through a single-precision file is float64(float32(x)); both opacity '
               'modes must resample such a table onto the model grid in the same way',
               'linear interpolation mode: the table of weight-averaged coefficients interpolates to the weight-averaged '
               'opacity (used by the Jensen predicate)',
               'rounding: 1e-8 relative (numba fastmath)',
               'exp(-10) clamp of the cross-section emission path: k-mode (unclamped) vs xsec-mode spectra compared '
               'within the band proved for C02']

MOLS = ['H2O', 'CH4', 'CO2', 'CO', 'NH3']



def _invalid_params(ctx, e):
    """a parameter set the model itself rejects as invalid (InvalidModelException and subclasses) is outside every
    property's quantifier: recorded in the malformed stream, never judged"""
    from taurex.exceptions import InvalidModelException
    if isinstance(e, InvalidModelException):
        ctx.malformed_outcome('invalid-model-after-setters:' + type(e).__name__)
        return True
    return False

def gen_case(rng, k, thorough=False, twin=None):
    """`twin` ('later' | 'first'; quota of the twin-grid stream): every molecule is tabulated at the SAME bin centres, but
    the tables of the later molecules / of the first molecule hold them as they come back from a single-precision file
    (float32 and widened), the others in double precision: equal to ~6e-8 relative, not bitwise, so that a molecule is
    evaluated on a grid that is its own up to single-precision rounding.  The grid is a piece of a constant-resolution grid
    (R = 60 .. 3000); in half of the cases its two end points are numbers both precisions hold exactly"""
    family = 'transmission' if k % 2 == 0 else 'emission'
    tkind = 'degenerate' if (k // 2) % 2 == 0 else 'generic'
    regime = ['mid', 'mixed', 'thin', 'saturated', 'zero', 'mid', 'mixed'][(k // 4) % 7]
    if twin:
        regime = 'mid'
    nl = int(rng.integers(1, 31 if thorough else 16))
    nwn = int(rng.integers(1, 9 if thorough else 6))
    multigrid = bool(rng.random() < 0.35) and not twin
    ends = []
    if multigrid or twin:
        nwn = max(nwn, 4 if twin else 3)
    wn = np.sort(rng.choice(np.arange(200.0, 12000.0, 13.0), size=nwn, replace=False))
    twin_ends = None
    if twin:
        res = float([60.0, 300.0, 3000.0][int(rng.integers(0, 3))])
        wn = float(rng.uniform(400.0, 9000.0)) * np.exp(np.arange(nwn) / res)
        twin_ends = 'exact' if (k // 8) % 2 == 0 else 'rounded'
        if twin_ends == 'exact':
            wn[0], wn[-1] = np.floor(wn[0] * 2) / 2, np.ceil(wn[-1] * 2) / 2
    ng = int(rng.integers(1, 21)) if rng.random() < 0.6 else int(rng.integers(1, 5))
    w = rng.random(ng) + 0.02
    if ng > 2 and rng.random() < 0.2:
        w[int(rng.integers(0, ng))] = 0.0          # a zero weight is allowed
    w = w / w.sum()
    tclass = ['isothermal', 'decreasing', 'inverted', 'random'][(k // 2) % 4] if family == 'emission' else \
        ['isothermal', 'random'][(k // 2) % 2]
    if tclass == 'isothermal':
        T = float(rng.uniform(300, 2800))
    else:
        a = rng.uniform(300, 2800, size=nl)
        if tclass == 'decreasing':
            a = np.sort(a)[::-1]
        elif tclass == 'inverted':
            a = np.sort(a)
        T = [float(x) for x in a]
    ngas = int(rng.integers(2 if (multigrid or twin) else 1, 4))
    names = [str(x) for x in rng.choice(MOLS, size=ngas, replace=False)]
    gases, tables = {}, {}
    for nm in names:
        nT = int(rng.integers(2, 4))
        nP = int(rng.integers(2, 4))
        tg = np.sort(rng.choice(np.arange(100.0, 3500.0, 50.0), size=nT, replace=False))
        pg = 10 ** np.sort(rng.choice(np.linspace(-8, 2, 41), size=nP, replace=False))
        if regime == 'zero':
            base = np.zeros((nP, nT, nwn))
        else:
            e = {'thin': rng.uniform(-34, -30, size=nwn), 'mid': rng.uniform(-25.5, -21, size=nwn),
                 'saturated': rng.uniform(-18, -12, size=nwn), 'mixed': rng.uniform(-30, -14, size=nwn)}[regime]
            if twin:
                # neighbouring bins within ~4 decades of each other: a point resampled 1e-6 of a bin away from a node is
                # y1 + 1e-6 (y0 - y1), whose rounding noise 1e-16 y0 / y1 must stay far below the comparisons' 1e-8 / tau
                e = rng.uniform(-24.5, -22.0, size=nwn)
            base = 10 ** (e[None, None, :] + rng.uniform(-0.5, 0.5, size=(nP, nT, nwn)))
        if tkind == 'degenerate':
            kc = np.repeat(base[..., None], ng, axis=-1)
        else:
            sp = 0.5 if twin else 2.5
            spread = np.sort(rng.uniform(-sp, sp, size=(nP, nT, nwn, ng)), axis=-1)
            kc = base[..., None] * 10 ** spread
        # (twin-grid quota: comparable abundances, so that every molecule's table shows in the spectrum)
        gases[nm] = float(10 ** (rng.uniform(-4, -3) if twin else rng.uniform(-7, -2)))
        tables[nm] = dict(tg=tg, pg=pg, kcoeff=kc)
    # quota: further molecules tabulated on their own (shorter, offset) wavenumber grid, so that the model grid is the
    # first molecule's and the others are resampled onto it; the table grid ends inside the model grid, or straddles
    # its top / bottom (the model's end point strictly between two table points)
    if multigrid:
        span = float(wn[-1] - wn[0])
        for nm in names[1:]:
            n2 = int(rng.integers(2, nwn))
            mode = str(rng.choice(['top', 'bottom', 'both', 'inside'], p=[0.4, 0.2, 0.2, 0.2]))
            if mode == 'both' and n2 < 3:
                mode = 'top'
            nout = {'top': 1, 'bottom': 1, 'both': 2, 'inside': 0}[mode]
            pts = list(rng.uniform(wn[0], wn[-1], size=max(1, n2 - nout)))
            if mode == 'inside' and rng.random() < 0.5:
                pts[0] = float(wn[int(rng.integers(0, nwn))])          # a shared grid point
            if mode in ('top', 'both'):
                pts.append(float(rng.uniform(wn[-1] + 1.0, wn[-1] + 1.0 + 0.3 * span)))
            if mode in ('bottom', 'both'):
                pts.append(float(max(10.0, rng.uniform(wn[0] - 1.0 - 0.3 * span, wn[0] - 1.0))))
            g2 = np.unique(np.round(np.array(pts), 3))
            if len(g2) < 2 or len(g2) >= nwn:
                continue
            t = tables[nm]
            kc = np.asarray(t['kcoeff'], float)
            idx = np.sort(rng.choice(nwn, size=len(g2), replace=False))
            t['kcoeff'] = kc[:, :, idx, :] * 10 ** rng.uniform(-0.3, 0.3, size=(1, 1, len(g2), 1))
            t['wn'] = g2
            ends.append(mode)
    if twin:
        wn32 = wn.astype(np.float32).astype(float)
        for nm in (names[1:] if twin == 'later' else names[:1]):
            tables[nm]['wn'] = wn32
        for nm in (names[:1] if twin == 'later' else names[1:]):
            tables[nm]['wn'] = wn.copy()
    cia = None
    if rng.random() < 0.35:
        pair = 'H2-He' if rng.random() < 0.5 else 'H2-H2'
        ctg = np.sort(rng.choice(np.arange(100.0, 3500.0, 100.0), size=3, replace=False))
        ce = {'zero': -80, 'thin': -62, 'mid': -54, 'saturated': -46, 'mixed': -54}[regime]
        cia = dict(pair=pair, tg=ctg, tab=10 ** (ce + rng.uniform(-2, 2, size=(3, nwn))))
    spec = dict(mp=float(rng.uniform(0.3, 5)), rp=float(rng.uniform(0.5, 1.6)), ts=float(rng.uniform(3000, 9000)),
                rs=float(rng.uniform(0.3, 2.0)), dist=1.0, nlayers=nl,
                pmin=float(10 ** rng.uniform(-3, 1)), pmax=float(10 ** rng.uniform(4, 7)), T=T, gases=gases,
                ngauss=int(rng.integers(1, 7)), cia=[cia['pair']] if cia else [])
    # quota: in half of the cases with CIA it is added to the model BEFORE the molecular absorption
    spec['cia_first'] = bool(cia is not None and k % 4 < 2)
    # quota: one of several molecules is switched off with the global option `deactive_molecules`
    if len(names) >= 2 and k % 9 == 5:
        spec['deactive'] = [names[-1]]
    # quota: the container the k-tables are written in and discovered from (blocks of 28 cases cover every family x kind x
    # regime combination in either container)
    kfmt = 'hdf5' if (k // 28) % 2 == 1 else 'pickle'
    out = dict(family=family, tkind=tkind, regime=regime, tclass=tclass, spec=spec, wn=wn, tables=tables,
               weights=w, cia=cia, multigrid=bool(ends), grid_ends=ends, kfmt=kfmt)
    if twin:
        out.update(twin=twin, twin_ends=twin_ends)
    return out


# formulas with two-letter element symbols / lower-case letters: the name a k-table file advertises (file stem, sanitised)
# and the name the loaded table carries must stay the formula as written for the gas to absorb in k-table mode too
FORMULA_NAMES = ['TiO', 'Na', 'FeH', 'VO', 'SiO', 'HCN', 'K', 'MgH', 'AlO', 'CaH']


def gen_formula_case(rng, k):
    """quota of the formula-name stream: a main-stream case in which one molecule, or every molecule, is a
    species whose formula has lower-case letters (TiO, Na, FeH ...), mixed with upper-case-only formulas; comparable
    abundances, so that a gas dropped from the absorbers in one opacity mode shows in the spectrum"""
    c = gen_case(rng, k, thorough=False)
    old = list(c['tables'])
    every = (k // 4) % 3 == 2
    pick = [FORMULA_NAMES[(k + 3 * i) % len(FORMULA_NAMES)] for i in range(len(old))]
    ren = {nm: (pick[i] if (every or i == (k // 12) % len(old)) else nm) for i, nm in enumerate(old)}
    c['tables'] = {ren[nm]: t for nm, t in c['tables'].items()}
    c['spec']['gases'] = {ren[nm]: float(10 ** rng.uniform(-4, -3)) for nm in c['spec']['gases']}
    if c['spec'].get('deactive'):
        c['spec']['deactive'] = [ren[nm] for nm in c['spec']['deactive']]
    c['formula_names'] = 'every' if every or len(old) == 1 else 'one-of-%d' % len(old)
    return c


def xsec_tables(c, how):
    """cross-section tables on 'the same numbers': g-point 0 of a degenerate table, or the weight-averaged table"""
    w = np.asarray(c['weights'], float)
    out = {}
    for nm, t in c['tables'].items():
        kc = np.asarray(t['kcoeff'], float)
        tab = kc[..., 0] if how == 'first' else ((kc * w).sum(axis=-1) if how == 'avg' else kc[..., int(how)])
        out[nm] = dict(tg=t['tg'], pg=t['pg'], tab=tab, wn=t.get('wn'))
    return out


def eval_case(ctx, c, scratch):
    fam, spec = c['family'], c['spec']
    kind = 'transmission' if fam == 'transmission' else 'emission'
    w = np.asarray(c['weights'], float)
    ng = len(w)
    small = dict(family=fam, tkind=c.get('tkind'), regime=c.get('regime'), ng=ng, nlayers=spec['nlayers'],
                 nwn=len(c['wn']), cia=bool(c.get('cia')), tclass=c.get('tclass'), ngauss=spec['ngauss'])
    case = dict(c, small=small)
    try:
        ok = E.run_model(kind, spec, c['wn'], c['tables'], c.get('cia'), 'ktables', scratch, w, kfmt=c.get('kfmt', 'pickle'))
    except Exception as e:
        ctx.violation('raises:ktables:' + fam, 'k-table run raised %r on a valid input' % (e,), case)
        return
    degenerate = all(np.all(np.asarray(t['kcoeff'], float) == np.asarray(t['kcoeff'], float)[..., :1])
                     for t in c['tables'].values())
    try:
        ox = E.run_model(kind, spec, c['wn'], xsec_tables(c, 'first' if degenerate else 'avg'), c.get('cia'), 'xsec')
    except Exception as e:
        ctx.violation('raises:xsec:' + fam, 'cross-section run raised %r on a valid input' % (e,), case)
        return
    judge(ctx, c, case, small, ok, ox, degenerate)


def judge(ctx, c, case, small, ok, ox, degenerate, kp=''):
    """all comparisons and predicates for one observed k-mode run `ok` (and the cross-section run `ox` on the same
    numbers) of the case `c`, whose tables / weights / spec hold the values the run must reflect"""
    fam, spec = c['family'], c['spec']
    w = np.asarray(c['weights'], float)
    ng = len(w)
    nus = ok['grid']
    nwn = len(nus)
    n = len(ok['dens'])
    ctx.check_eq('k-table weights as loaded', [float(x) for x in ok['weights']], [float(x) for x in w], small)
    if fam == 'transmission':
        d = ctx.model().call('c20.trans', C.N(nwn), C.LLL(ok['sigma_abs'].tolist()),
                             C.LL([p.tolist() for p in ok['path']]), C.L(ok['dens']), C.L(w))
        mtau = np.array(d.list(lambda: d.list())).reshape(n, nwn)
        with np.errstate(over='ignore'):
            mtrans = np.exp(-mtau)
        pure = not c.get('cia')
        if pure:
            ctx.check_close('k-mode exp(-tau) vs exp(-KTau.ktauRow)', ok['tau'].ravel(), mtrans.ravel(), case,
                            rel=1e-8, abs_=1e-300)
            d = ctx.model().call('c20.depth', C.N(nwn), C.F(ok['rp']), C.F(ok['rs']), C.L(ok['ap']), C.L(ok['dz']),
                                 C.LL(mtrans.tolist()))
            ctx.check_close('k-mode depth vs KTau.depth', ok['flux'], d.list(), case, rel=1e-8)
            d = ctx.model().call('c20.transx', C.N(nwn), C.LL(ox['sigma_abs'].tolist()),
                                 C.LL([p.tolist() for p in ox['path']]), C.L(ox['dens']))
            xtau = np.array(d.list(lambda: d.list())).reshape(n, nwn)
            ctx.check_close('xsec-mode exp(-tau) vs exp(-KTau.tauRowX)', ox['tau'].ravel(), np.exp(-xtau).ravel(),
                            case, rel=1e-8, abs_=1e-300)
        surf_like = -np.log(np.maximum(ok['tau'], 1e-300))
        nontrivial = bool(np.any((surf_like > 1e-3) & (surf_like < 30)))
    else:
        xs, wts = np.polynomial.legendre.leggauss(spec['ngauss'])
        d = ctx.model().call('c20.emission', *pc_tokens(), C.F(np.pi), C.L(nus),
                             C.L(ok['nonmol'], lambda kc: C.N(kc[0]) + ' ' + C.LL(kc[1].tolist())),
                             C.LLL(ok['sigma_abs'].tolist()), C.L(w), C.L(ok['dz']), C.L(ok['dens']), C.L(ok['T']),
                             C.L(xs), C.L(wts), C.F(ok['tstar']), C.F(ok['rp']), C.F(ok['rs']))
        ncol = d.nat()
        mI, mecl = [], []
        for _ in range(ncol):
            mI.append(d.list())
            d.flt()
            mecl.append(d.flt())
        mI = np.array(mI).T.reshape(spec['ngauss'], ncol)
        scale = float(np.max(E.planck_np(nus, float(np.max(ok['T'])))))
        ctx.check_close('k-mode partial_model intensity vs KTau.emissionK', ok['I'].ravel(), mI.ravel(), case,
                        rel=1e-8, abs_=1e-12 * scale)
        fac = (ok['rp'] / ok['rs']) ** 2 / ok['sed']
        ctx.check_close('k-mode eclipse spectrum vs KTau.emissionK/fluxOf/eclipse', ok['flux'], mecl, case,
                        rel=1e-8, abs_=1e-12 * scale * float(np.max(fac)))
        el = E.layer_elements([(0, ox['sigma_abs'])] + list(ox['nonmol']), ox['dz'], ox['dens'])
        nontrivial = bool(np.any((el.sum(axis=0) > 1e-3) & (el.sum(axis=0) < 30)))
    ctx.case(key=(fam, c.get('tkind'), ng, spec['nlayers'], c.get('regime'), bool(c.get('cia')))
             if nontrivial else None,
             sample=dict(small, impl=ok['flux'][:3], xsec=ox['flux'][:3]), bucket='family:' + fam)
    ctx.bucket('tables:' + ('degenerate' if degenerate else 'generic'))
    ctx.bucket('regime:' + str(c.get('regime')))
    ctx.bucket('ng:' + ('1' if ng == 1 else ('2-5' if ng <= 5 else ('6-12' if ng <= 12 else '13-20'))))
    ctx.bucket('cia:' + str(bool(c.get('cia'))) + (':before-absorption' if spec.get('cia_first') else ''))
    if spec.get('deactive'):
        ctx.bucket('deactive_molecules:set')
    ctx.bucket('grids:' + ('per-molecule' if c.get('multigrid') else
                           'twin(single-precision copy of the same bin centres):%s-molecule:ends-%s'
                           % (c['twin'], c.get('twin_ends')) if c.get('twin') else 'shared'))
    ctx.bucket('ktable-container:' + str(c.get('kfmt', 'pickle')))
    if c.get('formula_names'):
        ctx.bucket('molecule-names:lower-case-letters(%s):%s:%s' % (c['formula_names'], c.get('kfmt', 'pickle'), fam))
    ctx.bucket('interpolation:' + str(c.get('interp') or 'linear'))
    for e_ in c.get('grid_ends') or []:
        ctx.bucket('table-grid-end:' + str(e_))
    predicates(ctx, c, case, ok, ox, degenerate, kp)


def predicates(ctx, c, case, ok, ox, degenerate, kp=''):
    fam = c['family']
    if not np.all(np.isfinite(ok['flux'])):
        ctx.violation(kp + 'nonfinite:' + fam, 'k-mode spectrum not finite on a valid input', case, dict(flux=ok['flux']))
        return
    if np.shape(ok['grid']) != np.shape(ox['grid']) or not C.close(ok['grid'], ox['grid'], rel=1e-12):
        # the two spectra are not even on the same wavenumbers (e.g. a gas that absorbs in one opacity mode only and would
        # have supplied the native grid)
        ctx.violation(kp + 'grid-ktable-vs-xsec', 'the k-table run and the cross-section run on the same numbers return '
                      'spectra on different wavenumber grids', case, dict(k=ok['grid'], xsec=ox['grid']))
        return
    if fam == 'transmission':
        tk, tx = ok['tau'], ox['tau']
        if np.any(tk < 0) or np.any(tk > 1 + 1e-12) or np.any(~np.isfinite(tk)):
            ctx.violation(kp + 'transmittance-unit-interval', 'k-mode transmittance outside [0,1]', case,
                          dict(min=float(np.min(tk)), max=float(np.max(tk))))
        if degenerate:
            if not C.close(tk.ravel(), tx.ravel(), rel=1e-8, abs_=1e-300):
                ctx.violation(kp + 'transmission-ktable-vs-xsec', 'degenerate k-table transmittance differs from the '
                              'cross-section run on the same numbers', case, dict(k=tk, xsec=tx))
            if not C.close(ok['flux'], ox['flux'], rel=1e-8):
                ctx.violation(kp + 'transmission-ktable-vs-xsec', 'degenerate k-table transit depth differs from the '
                              'cross-section run on the same numbers', case, dict(k=ok['flux'], xsec=ox['flux']))
        if not degenerate and not c.get('cia') and len(c['weights']) <= 4:
            # general half: the path transmittance is the weight-averaged exponential, i.e. sum_g w_g times the
            # cross-section-mode transmittance obtained from the g-th coefficient alone
            w = np.asarray(c['weights'], float)
            try:
                tg_ = [E.run_model('transmission', c['spec'], c['wn'], xsec_tables(c, g), None, 'xsec',
                                   interp=c.get('interp'))['tau'] for g in range(len(w))]
                mean = sum(wg * t for wg, t in zip(w, tg_))
                ctx.bucket('weighted-mean-checked')
                if not C.close(tk.ravel(), mean.ravel(), rel=1e-8, abs_=1e-300):
                    ctx.violation(kp + 'transmittance-weighted-mean', 'k-mode path transmittance is not sum_g w_g '
                                  'exp(-tau_g) of the per-g cross-section runs', case, dict(k=tk, mean=mean))
            except Exception as e:
                ctx.violation(kp + 'raises:xsec:transmission', 'per-g cross-section run raised %r' % (e,), case)
        if not degenerate and not c.get('cia') and (c.get('interp') or 'linear') == 'linear':
            # Jensen: transmittance >= transmittance of the weight-averaged coefficient (absorption only: with a
            # second contribution the tau > 10 early exit may skip it in one run and not in the other; linear mode: the
            # cross-section run interpolates the TABLE of averaged coefficients, which is the averaged opacity only then)
            if np.any(tk < tx * (1 - 1e-8) - 1e-300):
                ctx.violation(kp + 'transmittance-jensen', 'k-mode transmittance below the transmittance of the '
                              'weight-averaged coefficient', case, dict(k=tk, avg=tx))
            if np.any(ok['flux'] > ox['flux'] * (1 + 1e-9)):
                ctx.violation(kp + 'transmittance-jensen', 'k-mode transit depth above the depth of the weight-averaged '
                              'coefficient', case, dict(k=ok['flux'], avg=ox['flux']))
    else:
        nus = ok['grid']
        fac = (ok['rp'] / ok['rs']) ** 2 / E.planck_np(nus, ok['tstar'])
        T = ok['T']
        bmin = E.planck_np(nus, float(T.min())) * fac
        bmax = E.planck_np(nus, float(T.max())) * fac
        if np.any(ok['flux'] < bmin * (1 - 1e-8) - 1e-12 * bmax) or np.any(ok['flux'] > bmax * (1 + 1e-8)):
            ctx.violation(kp + 'emission-ktable-hot-cold', 'k-mode eclipse spectrum outside the blackbody ratios of the '
                          'coldest/hottest layer', case, dict(flux=ok['flux'], cold=bmin, hot=bmax))
        if float(T.max()) == float(T.min()):
            ratio = ok['flux'] / (E.planck_np(nus, float(T[0])) * fac)
            if np.any(np.abs(ratio - 1) > 1e-8):
                ctx.violation(kp + 'emission-ktable-isothermal', 'isothermal k-mode atmosphere does not return '
                              'B(T)/B(T*)(Rp/Rs)^2', case, dict(ratio=ratio))
        if degenerate:
            el = E.layer_elements([(0, ox['sigma_abs'])] + list(ox['nonmol']), ox['dz'], ox['dens'])
            ref = E.ref_emission(nus, el, ox['T'], ox['mu_quads'], ox['wi_quads'])
            band = ref['band_flux'] * (ok['rp'] / ok['rs']) ** 2 / ox['sed']
            # rounding floor: each layer term B_l*(exp(-lt)-exp(-dt)) carries an absolute error ~1e-16*B_l
            for a, b, bd, fl in zip(ok['flux'], ox['flux'], band, 1e-12 * bmax):
                if not (C.close(a, b, rel=1e-8, abs_=fl) or abs(a - b) <= bd * (1 + 1e-6) + 1e-8 * abs(b) + fl):
                    ctx.violation(kp + 'emission-ktable-vs-xsec', 'degenerate k-table eclipse spectrum differs from the '
                                  'cross-section run on the same numbers (beyond the licensed clamp band)', case,
                                  dict(k=ok['flux'], xsec=ox['flux'], band=band))
                    break


def validate_transk(ctx):
    """KTau.transK / ktau against a direct numpy evaluation, incl. unit interval and Jensen on the model side"""
    rng = ctx.rng
    for _ in range(ctx.n(40, 400)):
        ng = int(rng.integers(1, 21))
        w = rng.random(ng)
        w /= w.sum()
        taus = 10 ** rng.uniform(-6, 2.5, size=ng)
        d = ctx.model().call('c20.transk', C.L(taus), C.L(w))
        tr, kt = d.flt(), d.flt()
        ref = float(np.sum(np.exp(-taus) * w))
        ctx.check_close('KTau.transK vs numpy', ref, tr, dict(taus=taus, w=w), rel=1e-12)
        ctx.bucket('transk')
        if not (0 <= tr <= 1 + 1e-15) or tr < math.exp(-float(np.dot(w, taus))) * (1 - 1e-12):
            ctx.mismatch('KTau.transK unit interval / Jensen on Float', dict(taus=taus, w=w), dict(tr=tr))


def malformed(ctx, scratch):
    """outside the quantifier: molecules with different weights; weights not summing to one — recorded only"""
    for k in range(ctx.n(4, 20)):
        c = gen_case(ctx.rng, 4 * k + 2)
        c['spec']['cia'] = []
        w = np.asarray(c['weights'], float)
        if k % 2 == 0:
            c['weights'] = w * 1.7
            tag = 'sum(w)!=1:'
        else:
            for i, t in enumerate(c['tables'].values()):
                t['weights'] = np.roll(w, i)
            tag = 'per-molecule-weights:'
        try:
            ok = E.run_model('transmission', c['spec'], c['wn'], c['tables'], None, 'ktables', scratch, c['weights'])
            ctx.malformed_outcome(tag + ('finite' if np.all(np.isfinite(ok['flux'])) else 'nonfinite'))
        except Exception as e:
            ctx.malformed_outcome(tag + type(e).__name__)


def reuse_case(ctx, c, scratch, nsteps=3):
    """k-table mode, one model object: model() -> change a parameter through the public setters, or replace the
    k-table set (same molecules and number of g-points, different weights; new files, KTableCache cleared and
    re-pointed) -> model() again.  After every step the spectrum must equal that of a freshly built k-mode model;
    after a table swap the full set of comparisons / predicates is judged against the NEW tables and weights."""
    rng = ctx.rng
    fam = c['family']
    kind = 'transmission' if fam == 'transmission' else 'emission'
    c = dict(c, spec=dict(c['spec'], gases=dict(c['spec']['gases'])),
             tables={nm: dict(t) for nm, t in c['tables'].items()})
    spec = c['spec']
    with E.CacheState():
        E.install_tables(c['wn'], c['tables'], c.get('cia'), 'ktables', scratch, c['weights'], kfmt=c.get('kfmt', 'pickle'))
        try:
            m = E.build_model(kind, dict(spec))
            m.model()
        except Exception as e:
            ctx.violation('raises:ktables:' + fam, 'k-table run raised %r on a valid input' % (e,), c)
            return
        params = ['star_temperature', 'planet_radius', 'planet_mass', 'gas', 'pmax']
        if kind == 'emission':
            params.append('ngauss')
        if np.ndim(spec['T']) == 0:
            params += ['T', 'T']
        for step in range(nsteps):
            p = 'ktable_swap' if step == 0 else str(rng.choice(params + ['ktable_swap']))
            if p == 'ktable_swap':
                ng = len(c['weights'])
                w2 = rng.random(ng) + 0.02
                w2 = w2 / w2.sum() if ng > 1 else np.array([1.0])
                c['weights'] = w2
                if rng.random() < 0.5:
                    for t in c['tables'].values():
                        kc = np.asarray(t['kcoeff'], float)
                        t['kcoeff'] = kc * 10 ** rng.uniform(-0.5, 0.5, size=(1, 1, kc.shape[2], 1))
                E.install_tables(c['wn'], c['tables'], c.get('cia'), 'ktables', scratch, w2, kfmt=c.get('kfmt', 'pickle'))
            elif p == 'star_temperature':
                spec['ts'] = float(rng.uniform(3000, 9000))
                m.star.temperature = spec['ts']
            elif p == 'planet_radius':
                spec['rp'] = float(rng.uniform(0.5, 1.6))
                m['planet_radius'] = spec['rp']
            elif p == 'planet_mass':
                spec['mp'] = float(rng.uniform(0.3, 5))
                m['planet_mass'] = spec['mp']
            elif p == 'gas':
                g = str(rng.choice(sorted(spec['gases'])))
                spec['gases'][g] = float(10 ** rng.uniform(-7, -2))
                m[g] = spec['gases'][g]
            elif p == 'ngauss':
                spec['ngauss'] = int(rng.integers(1, 7))
                m.set_num_gauss(spec['ngauss'])
            elif p == 'pmax':
                spec['pmax'] = float(10 ** rng.uniform(4, 7))
                m['atm_max_pressure'] = spec['pmax']
            else:
                spec['T'] = float(rng.uniform(300, 2800))
                m['T'] = spec['T']
            case = dict(c, spec=dict(spec, gases=dict(spec['gases'])),
                        tables={nm: dict(t) for nm, t in c['tables'].items()}, weights=np.array(c['weights'], float),
                        reuse=dict(step=step, changed=p))
            try:
                ok = E.observe_model(m, kind)
                fresh = E.observe_model(E.build_model(kind, dict(case['spec'])), kind)
            except Exception as e:
                if _invalid_params(ctx, e):
                    return
                ctx.violation('stale-state:raises:' + p, 'k-mode model raised %r after a change' % (e,), case)
                return
            ctx.bucket('reuse:' + p)
            ctx.disagreements_checked += 1
            if ok['flux'].shape != fresh['flux'].shape or not C.close(ok['flux'], fresh['flux'], rel=1e-9) or \
                    not C.close(ok['tau'].ravel(), fresh['tau'].ravel(), rel=1e-9, abs_=1e-300):
                ctx.violation('stale-state:differs-from-fresh:' + p, 'a reused k-mode model object does not return '
                              'the spectrum of a freshly built model after changing ' + p, case,
                              dict(reused=ok['flux'], fresh=fresh['flux']))
            if p == 'ktable_swap':
                degenerate = all(np.all(np.asarray(t['kcoeff'], float) == np.asarray(t['kcoeff'], float)[..., :1])
                                 for t in case['tables'].values())
                try:
                    ox = E.run_model(kind, case['spec'], case['wn'], xsec_tables(case, 'first' if degenerate else 'avg'),
                                     case.get('cia'), 'xsec')
                except Exception as e:
                    ctx.violation('stale-state:raises:xsec', 'cross-section run raised %r' % (e,), case)
                    return
                small = dict(family=fam, tkind=c.get('tkind'), regime=c.get('regime'), ng=len(case['weights']),
                             nlayers=spec['nlayers'], nwn=len(c['wn']), cia=bool(c.get('cia')), reuse_step=step,
                             changed=p)
                judge(ctx, case, dict(case, small=small), small, ok, ox, degenerate, kp='stale-state:')
            else:
                ctx.case(key=None)


def mode_switch_case(ctx, c, scratch):
    """ONE model object evaluated with cross-sections, then (global opacity_method switched, k-tables installed) with
    k-tables, then with cross-sections again: after every switch the spectrum is that of a model freshly built in the mode
    now in force (a model must not remember the mode it was first evaluated in)"""
    fam = c['family']
    kind = 'transmission' if fam == 'transmission' else 'emission'
    spec = dict(c['spec'], gases=dict(c['spec']['gases']))
    degenerate = all(np.all(np.asarray(t['kcoeff'], float) == np.asarray(t['kcoeff'], float)[..., :1])
                     for t in c['tables'].values())
    xs = xsec_tables(c, 'first' if degenerate else 'avg')
    case = dict(c, mode_switch=True)
    with E.CacheState():
        try:
            E.install_tables(c['wn'], xs, c.get('cia'), 'xsec')
            m = E.build_model(kind, dict(spec))
            first = E.observe_model(m, kind)
            seq = [('ktables', c['tables']), ('xsec', xs)]
            for mode, tabs in seq:
                E.install_tables(c['wn'], tabs, c.get('cia'), mode, scratch, c['weights'], kfmt=c.get('kfmt', 'pickle'))
                used = E.observe_model(m, kind)
                fresh = E.observe_model(E.build_model(kind, dict(spec)), kind)
                ctx.bucket('mode-switch:%s:to-%s' % (fam, mode))
                ctx.disagreements_checked += 1
                if used['flux'].shape != fresh['flux'].shape or not C.close(used['flux'], fresh['flux'], rel=1e-9):
                    ctx.violation('stale-state:mode-switch:' + fam + ':to-' + mode,
                                  'a model object first evaluated in the other opacity mode does not return the spectrum of a '
                                  'model freshly built in %s mode' % mode, case, dict(reused=used['flux'], fresh=fresh['flux']))
                    return
        except Exception as e:
            if _invalid_params(ctx, e):
                return
            ctx.violation('stale-state:mode-switch-raises:' + fam, 'switching the opacity mode on one model object raised %r'
                          % (e,), case)


# ----------------------------------------------------------------------------- contribution lists and model_contrib()
# The property quantifies over both forward-model families and every model: the contribution list need not hold the
# molecular absorption (a model of scattering / haze / collision-induced absorption only), and `model_contrib()` evaluates
# the contributions of any model ONE AT A TIME.  In k-table mode the emission family then runs `evaluate_emission_ktables`
# with `molecule_absorption is None` -- a path the streams above never take.  Here the list is enumerated (with and without
# the molecular absorption, in either order), `model()` and `model_contrib()` are run in both opacity modes on the same
# numbers, and every spectrum (the model's, and each contribution's own) is
#   * compared with the Lean model: `KTau.emissionK` when the molecular absorption is in the list evaluated,
#     `KTau.emissionKNoMol` (Props/C20.lean: k_emission_without_molecules) when it is not;
#   * judged by the property's predicates: k-table mode = cross-section mode on the same numbers for degenerate tables
#     (emission: within the licensed clamp band of the cross-section path), blackbody bounds / isothermal identity.
SUBSETS = [['rayleigh'], ['flatmie'], ['cia'], ['rayleigh', 'flatmie'], ['flatmie', 'cia', 'rayleigh'],
           ['absorption', 'flatmie'], ['rayleigh', 'absorption', 'cia'], ['absorption', 'rayleigh', 'flatmie', 'cia']]
PART_NAME = dict(absorption='Absorption', cia='CIA', rayleigh='Rayleigh', flatmie='Mie')


def gen_subset_case(rng, k):
    fam = k % 2
    degenerate = (k % 8) < 6
    c = gen_case(rng, fam + (0 if degenerate else 2) + 4 * ((k // 2) % 7), thorough=False)
    spec = c['spec']
    contribs = SUBSETS[(k // 2) % len(SUBSETS)]
    # temperature classes enumerated independently of the list
    nl = spec['nlayers']
    tclass = ['random', 'isothermal', 'decreasing', 'inverted'][(k // 2 + k // 16) % 4]
    if tclass == 'isothermal':
        spec['T'] = float(rng.uniform(300, 2800))
    else:
        a = rng.uniform(300, 2800, size=nl)
        a = np.sort(a)[::-1] if tclass == 'decreasing' else (np.sort(a) if tclass == 'inverted' else a)
        spec['T'] = [float(x) for x in a]
    c['tclass'] = tclass
    regime = c['regime']
    if 'cia' in contribs:
        if c.get('cia') is None:
            ctg = np.sort(rng.choice(np.arange(100.0, 3500.0, 100.0), size=3, replace=False))
            ce = {'zero': -80, 'thin': -62, 'mid': -54, 'saturated': -46, 'mixed': -54}[regime]
            c['cia'] = dict(pair='H2-He' if rng.random() < 0.5 else 'H2-H2', tg=ctg,
                            tab=10 ** (ce + rng.uniform(-2, 2, size=(3, len(c['wn'])))))
        spec['cia'] = [c['cia']['pair']]
    else:
        c['cia'] = None
        spec['cia'] = []
    if 'flatmie' in contribs:
        # grey haze over the whole column; its opacity is set for a vertical optical depth of the regime:
        # column ~ pmax / (g mu), g = G M / R^2 (Jupiter units), mu ~ 2.3 amu (H2/He)
        grav = 6.674e-11 * spec['mp'] * 1.898e27 / (spec['rp'] * 6.9911e7) ** 2
        column = spec['pmax'] / (grav * 2.3 * 1.6605e-27)
        tau = {'zero': 0.0, 'thin': 10 ** rng.uniform(-3, -2), 'mid': 10 ** rng.uniform(-1, 0.5),
               'saturated': 10 ** rng.uniform(1.5, 2.5), 'mixed': 10 ** rng.uniform(-2, 1.5)}[regime]
        spec['flatmie'] = dict(mix=float(tau / column))
    spec['contribs'] = list(contribs)
    spec.pop('cia_first', None)
    c.update(subset=True)
    return c


def observe_parts(m):
    """`model_contrib()` of a built model: {contribution name: spectrum}, and per contribution its (kind, sigma) as left by
    its own `prepare` (None for the k-table absorption, whose sigma is 3-D)"""
    _, parts = m.model_contrib()
    sig = E.contribution_inputs_all(m)
    return {c.name: dict(flux=np.array(parts[c.name][0], float).ravel(), kc=sig[i])
            for i, c in enumerate(m.contribution_list)}


def run_subset(kind, c, tables, mode, scratch):
    with E.CacheState():
        E.install_tables(c['wn'], tables, c.get('cia'), mode, scratch, np.asarray(c['weights'], float),
                         kfmt=c.get('kfmt', 'pickle'))
        m = E.build_model(kind, dict(c['spec']))
        out = E.observe_model(m, kind)
        out['parts'] = observe_parts(m)
        return out


def eval_subset(ctx, c, scratch):
    fam, spec = c['family'], c['spec']
    kind = 'transmission' if fam == 'transmission' else 'emission'
    contribs = list(spec['contribs'])
    has_abs = 'absorption' in contribs
    w = np.asarray(c['weights'], float)
    degenerate = all(np.all(np.asarray(t['kcoeff'], float) == np.asarray(t['kcoeff'], float)[..., :1])
                     for t in c['tables'].values())
    small = dict(family=fam, contribs=contribs, tkind=c.get('tkind'), regime=c.get('regime'), ng=len(w),
                 nlayers=spec['nlayers'], nwn=len(c['wn']), tclass=c.get('tclass'), ngauss=spec['ngauss'])
    case = dict(c, small=small)
    try:
        ok = run_subset(kind, c, c['tables'], 'ktables', scratch)
    except Exception as e:
        if _invalid_params(ctx, e):
            return
        ctx.violation('subset:raises:ktables:' + fam, 'k-table run raised %r on a valid input' % (e,), case)
        return
    try:
        ox = run_subset(kind, c, xsec_tables(c, 'first' if degenerate else 'avg'), 'xsec', None)
    except Exception as e:
        ctx.violation('subset:raises:xsec:' + fam, 'cross-section run raised %r on a valid input' % (e,), case)
        return
    nus = ok['grid']
    listing = '+'.join(contribs)
    ctx.bucket('subset:' + fam + ':' + ('with' if has_abs else 'WITHOUT') + '-molecular-absorption')
    ctx.bucket('subset:list:' + listing)
    ctx.bucket('subset:tables:' + ('degenerate' if degenerate else 'generic'))
    # every spectrum observed: the model's own, then each contribution on its own (model_contrib)
    # entry: (label, k-mode flux, xsec-mode flux, is the molecular absorption in it, k-mode non-molecular inputs,
    #         xsec-mode inputs of everything in it)
    xall = ([(0, ox['sigma_abs'])] if has_abs else []) + list(ox['nonmol'])
    spectra = [('model', ok['flux'], ox['flux'], has_abs, list(ok['nonmol']), xall)]
    for nm in contribs:
        pk, px = ok['parts'][PART_NAME[nm]], ox['parts'][PART_NAME[nm]]
        if nm == 'cia' and px['kc'] is None:
            continue
        spectra.append(('model_contrib:' + PART_NAME[nm], pk['flux'], px['flux'], nm == 'absorption',
                        [] if nm == 'absorption' else [pk['kc']], [px['kc']]))
    nontrivial = False
    for label, fk, fx, mol, knon, xin in spectra:
        what = '%s [%s]' % (label, listing)
        ctx.bucket('subset:spectrum:' + label + (':molecular' if mol else ':non-molecular') + ':' + fam)
        if fk.shape != fx.shape or not np.all(np.isfinite(fk)):
            ctx.violation('subset:nonfinite:' + fam + ':' + label, 'k-mode spectrum of %s not finite / of another shape than '
                          'the cross-section one' % what, case, dict(k=fk, xsec=fx))
            continue
        if fam == 'transmission':
            if degenerate and not C.close(fk, fx, rel=1e-8):
                ctx.violation('subset:transmission-ktable-vs-xsec:' + label, 'transit depth of %s in k-table mode (degenerate '
                              'tables) differs from the cross-section run on the same numbers' % what, case,
                              dict(k=fk, xsec=fx))
            continue
        # ---- emission: the Lean model on the observed inputs
        xs, wts = np.polynomial.legendre.leggauss(spec['ngauss'])
        scale = float(np.max(E.planck_np(nus, float(np.max(ok['T'])))))
        fac = (ok['rp'] / ok['rs']) ** 2 / ok['sed']
        enc = lambda kc: C.N(kc[0]) + ' ' + C.LL(kc[1].tolist())
        tail = (C.L(ok['dz']), C.L(ok['dens']), C.L(ok['T']), C.L(xs), C.L(wts), C.F(ok['tstar']), C.F(ok['rp']),
                C.F(ok['rs']))
        if mol:
            d = ctx.model().call('c20.emission', *pc_tokens(), C.F(np.pi), C.L(nus), C.L(knon, enc),
                                 C.LLL(ok['sigma_abs'].tolist()), C.L(w), *tail)
        else:
            d = ctx.model().call('c20.emission_nomol', *pc_tokens(), C.F(np.pi), C.L(nus), C.L(knon, enc), *tail)
        mI, mecl = [], []
        for _ in range(d.nat()):
            mI.append(d.list())
            d.flt()
            mecl.append(d.flt())
        if label == 'model':
            mI = np.array(mI).T.reshape(spec['ngauss'], len(nus))
            ctx.check_close('k-mode partial_model intensity [%s the molecular absorption] vs KTau.%s'
                            % ('with' if mol else 'without', 'emissionK' if mol else 'emissionKNoMol'), ok['I'].ravel(),
                            mI.ravel(), case, rel=1e-8, abs_=1e-12 * scale)
        ctx.check_close('k-mode eclipse spectrum (%s, %s) vs KTau.%s/fluxOf/eclipse'
                        % (label.split(':')[0], 'molecular absorption' if mol else 'no molecular absorption',
                           'emissionK' if mol else 'emissionKNoMol'), fk, mecl, dict(case, spectrum=label), rel=1e-8,
                        abs_=1e-12 * scale * float(np.max(fac)))
        # ---- the property's predicates
        T = ok['T']
        bfac = (ok['rp'] / ok['rs']) ** 2 / E.planck_np(nus, ok['tstar'])
        bmin = E.planck_np(nus, float(T.min())) * bfac
        bmax = E.planck_np(nus, float(T.max())) * bfac
        if np.any(fk < bmin * (1 - 1e-8) - 1e-12 * bmax) or np.any(fk > bmax * (1 + 1e-8)):
            ctx.violation('subset:emission-ktable-hot-cold:' + label, 'k-mode eclipse spectrum of %s outside the blackbody '
                          'ratios of the coldest/hottest layer' % what, case, dict(flux=fk, cold=bmin, hot=bmax))
        if float(T.max()) == float(T.min()):
            ratio = fk / (E.planck_np(nus, float(T[0])) * bfac)
            if np.any(np.abs(ratio - 1) > 1e-8):
                ctx.violation('subset:emission-ktable-isothermal:' + label, 'isothermal k-mode atmosphere (%s) does not '
                              'return B(T)/B(T*)(Rp/Rs)^2' % what, case, dict(ratio=ratio))
        el = E.layer_elements(xin, ox['dz'], ox['dens']) if xin else np.zeros((len(ox['dz']), len(nus)))
        el = np.broadcast_to(el, (len(ox['dz']), len(nus)))
        nontrivial = nontrivial or bool(np.any((el.sum(axis=0) > 1e-3) & (el.sum(axis=0) < 30)))
        if degenerate:
            ref = E.ref_emission(nus, el, ox['T'], ox['mu_quads'], ox['wi_quads'])
            band = ref['band_flux'] * (ok['rp'] / ok['rs']) ** 2 / ox['sed']
            for a, b, bd, fl in zip(fk, fx, band, 1e-12 * bmax):
                if not (C.close(a, b, rel=1e-8, abs_=fl) or abs(a - b) <= bd * (1 + 1e-6) + 1e-8 * abs(b) + fl):
                    ctx.violation('subset:emission-ktable-vs-xsec:' + label + (':with' if mol else ':without')
                                  + '-molecular-absorption', 'eclipse spectrum of %s in k-table mode (degenerate tables) '
                                  'differs from the cross-section run on the same numbers (beyond the licensed clamp band)'
                                  % what, case, dict(k=fk, xsec=fx, band=band))
                    break
    if fam == 'transmission':
        surf_like = -np.log(np.maximum(ok['tau'], 1e-300))
        nontrivial = bool(np.any((surf_like > 1e-3) & (surf_like < 30)))
    ctx.case(key=('subset', fam, listing, c.get('regime'), spec['nlayers'], degenerate) if nontrivial else None,
             sample=dict(small, impl=ok['flux'][:3], xsec=ox['flux'][:3]), bucket='family:' + fam)


INTERP_SEQS = [[None, 'exp'], ['linear', 'exp', 'linear'], ['exp', 'linear'], ['exp', None], [None, 'exp', None]]


def interp_session_case(ctx, c, scratch):
    """ONE session (one process-wide configuration and cache state): the k-tables are installed and discovered under a
    first temperature-interpolation mode and a k-mode model is run; then the mode is changed through the public
    OpacityCache().set_interpolation (None = taken back to the default) WITHOUT touching the files, and a fresh k-mode model
    is run again.  Every step is judged by the full set of comparisons and predicates against the cross-section run on the
    same numbers in the mode now in force (degenerate tables must reproduce it in either mode)."""
    from taurex.cache import OpacityCache
    fam, spec = c['family'], c['spec']
    kind = 'transmission' if fam == 'transmission' else 'emission'
    degenerate = all(np.all(np.asarray(t['kcoeff'], float) == np.asarray(t['kcoeff'], float)[..., :1])
                     for t in c['tables'].values())
    with E.CacheState():
        if c.get('prescan'):
            # the k-table directory was already looked at in this session (as a chemistry does when it is built) while it was
            # empty / held another molecule's table; the tables of the case arrive afterwards
            from taurex.cache.ktablecache import KTableCache
            t0 = next(iter(c['tables'].values()))
            other = {} if c['prescan'] == 'empty' else {'SO2': (t0['tg'], t0['pg'], np.asarray(t0['kcoeff'], float),
                                                               c['wn'] if t0.get('wn') is None else t0['wn'], c['weights'])}
            E.write_ktables(scratch, other, c.get('kfmt', 'pickle'))
            E.use_ktables(scratch)
            KTableCache().find_list_of_molecules()
            ctx.bucket('session:prescan:' + str(c['prescan']))
        for step, im in enumerate(c['interp_seq']):
            case = dict(c, interp=im or 'linear', session=dict(step=step, seq=c['interp_seq']))
            small = dict(family=fam, tkind=c.get('tkind'), regime=c.get('regime'), ng=len(c['weights']),
                         nlayers=spec['nlayers'], nwn=len(c['wn']), cia=bool(c.get('cia')), kfmt=c.get('kfmt'),
                         interp=im, session_step=step, seq=c['interp_seq'])
            case['small'] = small
            try:
                if step == 0:
                    E.install_tables(c['wn'], c['tables'], c.get('cia'), 'ktables', scratch, c['weights'],
                                     kfmt=c.get('kfmt', 'pickle'), interp=im)
                else:
                    OpacityCache().set_interpolation(im)
                ok = E.observe_model(E.build_model(kind, dict(spec)), kind)
            except Exception as e:
                ctx.violation('session:raises:ktables:' + fam, 'k-table run raised %r after the interpolation mode was set to '
                              '%r in a running session' % (e, im), case)
                return
            try:
                ox = E.run_model(kind, spec, c['wn'], xsec_tables(c, 'first' if degenerate else 'avg'), c.get('cia'), 'xsec',
                                 interp=im or 'linear')
            except Exception as e:
                ctx.violation('session:raises:xsec:' + fam, 'cross-section run raised %r on a valid input' % (e,), case)
                return
            ctx.bucket('session:%s:step%d:%s' % (c.get('kfmt'), step, im))
            judge(ctx, case, case, small, ok, ox, degenerate, kp='session:')


def run(ctx):
    validate_transk(ctx)
    scratch = tempfile.mkdtemp(prefix='verif_c20_')
    try:
        # sessions first: their cases carry their own history (a stored failing case replays in a fresh process)
        for k in range(ctx.n(40, 800)):
            # families / kinds / regimes enumerated as in the main stream; tables positive (both modes are defined)
            c = gen_case(ctx.rng, k, thorough=False)
            if c['regime'] == 'zero':
                continue
            c['kfmt'] = ['pickle', 'hdf5'][(k // 4) % 2]
            c['interp_seq'] = INTERP_SEQS[(k // 8) % len(INTERP_SEQS)]
            c['prescan'] = [None, 'empty', 'other'][(k // 2) % 3]
            interp_session_case(ctx, c, scratch)
        for k in range(ctx.n(320, 11000)):
            eval_case(ctx, gen_case(ctx.rng, k, thorough=not ctx.quick), scratch)
        for k in range(ctx.n(60, 1000)):
            reuse_case(ctx, gen_case(ctx.rng, k, thorough=False), scratch)
        for k in range(ctx.n(40, 600)):
            c = gen_case(ctx.rng, 2 * k + 1 if k % 2 else 4 * k, thorough=False)
            if not c.get('multigrid'):
                mode_switch_case(ctx, c, scratch)
        # (round-6 streams after the older ones, whose random draws they leave as they were)
        # twin grids: the same bin centres, one copy through a single-precision file (families / kinds / both directions /
        # end points enumerated)
        for k in range(ctx.n(32, 640)):
            eval_case(ctx, gen_case(ctx.rng, k, thorough=False, twin=['later', 'first'][(k // 4) % 2]), scratch)
        # contribution lists with and without the molecular absorption, model() and model_contrib()
        for k in range(ctx.n(48, 960)):
            eval_subset(ctx, gen_subset_case(ctx.rng, k), scratch)
        malformed(ctx, scratch)
        # (round-7 stream, after everything else: earlier draws stay as they were) molecules whose formula has lower-case
        # letters, in both containers and both families: the same numbers as k-tables and as cross-sections
        for k in range(ctx.n(32, 480)):
            c = gen_formula_case(ctx.rng, k)
            if c['regime'] != 'zero':
                c['kfmt'] = ['pickle', 'hdf5'][(k // 2) % 2]
                eval_case(ctx, c, scratch)
    finally:
        shutil.rmtree(scratch, ignore_errors=True)


def replay(ctx, case):
    case = dict(case.get('case', case))
    case.pop('small', None)
    case.pop('reuse', None)       # a reuse-stream case replays as a fresh run on the final parameter values
    if case.get('session'):
        # a session case replays as the whole session (every step judged again)
        case.pop('session', None)
        case.pop('interp', None)
        scratch = tempfile.mkdtemp(prefix='verif_c20_')
        try:
            interp_session_case(ctx, case, scratch)
        finally:
            shutil.rmtree(scratch, ignore_errors=True)
        return
    if case.get('subset'):
        case.pop('spectrum', None)
        scratch = tempfile.mkdtemp(prefix='verif_c20_')
        try:
            eval_subset(ctx, case, scratch)
        finally:
            shutil.rmtree(scratch, ignore_errors=True)
        return
    if case.pop('mode_switch', None):
        scratch = tempfile.mkdtemp(prefix='verif_c20_')
        try:
            mode_switch_case(ctx, case, scratch)
        finally:
            shutil.rmtree(scratch, ignore_errors=True)
        return
    scratch = tempfile.mkdtemp(prefix='verif_c20_')
    try:
        eval_case(ctx, case, scratch)
    finally:
        shutil.rmtree(scratch, ignore_errors=True)


# assumptions of the source tie (lean/Props/C20Src.lean), recorded with the harness assumptions
ASSUMPTIONS = ASSUMPTIONS + [
    'source tie: `contrib.contribute(...)` / `molecule_absorption.contribute(...)` change nothing but their `tau` '
    'argument; which method runs is Python dispatch, instantiated in the theorem (`dispatchK`, `molK`); how '
    'evaluate_emission_ktables splits contribution_list into the AbsorptionContribution and the rest is not translated '
    '(the text of those definitions is pinned: a change makes the source untranslatable)',
    'source tie: `np.sum(..., axis=-1)` / `np.sum(..., axis=0)` are read as the left-to-right sum from 0 (numpy adds '
    'pair-wise: same real number, different rounding)',
    'source tie: `x = None` placeholders of arrays are totalised as zero arrays (never read as numbers by the code); '
    'the emission k-path theorem needs 0 + x = x on the carrier (explicit hypothesis)']
