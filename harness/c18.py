"""C18 — parallel post-processing is invariant to how samples are split across ranks.

Real code under a fake mpi4py (harness/fakempi.py: forked ranks, every exchanged object really pickled):
  * OnlineVariance.update / variance / parallelVariance on every rank, for any assignment of samples to ranks;
  * Optimizer.generate_profiles() and compute_derived_trace() of a small real TransmissionModel with an injected
    sample set (minimal Optimizer subclass), for 1-7 ranks,
compared with (a) the single-process run without mpi4py, (b) the two-pass weighted variance (numpy), (c) the Lean
model (Variance.lean: accOf, parallelVariance nanByValue ser, splitVariance, strided, derivedTraceGather)."""
import math
import random
import numpy as np
from harness import common as C
from harness import fakempi

RULE = ('OnlineVariance stream: 0-40 samples (quota for 0,1,2,3), 1-7 ranks, scalar or 1-4 element values, weights '
        'equal / uniform / 12 decades wide / partly or wholly 1e-300-floored / rescaled by 1e+-120, one case in six with whole-number values held as '
        'int64 / int32 arrays, numpy integer scalars or Python ints, split strided (rank::size) or arbitrary with forced '
        'empty and one-sample ranks; optimizer stream: 2-14 posterior samples of (planet_radius, T, log H2O) on a '
        '5-layer TransmissionModel with an in-memory H2O opacity, 1-7 ranks, distinct weights, EVERY derived parameter the '
        'model offers enabled (logg, avg_T, mu, metallicity, O/H, C/O), a freshly built model in every simulated process, and '
        'the traces also judged against a second process-local history (samples in reversed order), EVERY `_std` key compute_error '
        'returns (the chemistry carries a condensate: condensate_profile_std too) judged element-wise against Variance.splitVariance '
        'and the two-pass variance of per-sample values read outside compute_error; tied-weights stream '
        '(judged the same way): repeated / zero / all-equal weights on 2-7 ranks; route stream: the concrete optimizers '
        '(Nestle, MultiNest, PolyChord bound to sampler doubles) built by their own constructor or from the keywords of an '
        '[Optimizer] section, sigma_fraction 1 / default / 0.75 / 0.5 / 0.3 / 0.25 / 0.1, 10-30 posterior samples, 1-5 ranks: '
        'which samples generate_profiles processes and what it pools. distinct non-trivial = distinct (stream, ranks, samples, weight kind, '
        'split kind, #empty ranks, #one-sample ranks) with non-constant values')
ASSUMPTIONS = [
    'mpi4py object collectives pickle every element (fake communicator does a real pickle round trip); allreduce(SUM) '
    'of lists concatenates in rank order; collectives are synchronous so rank interleaving cannot change gathered values',
    'list[r::size] and range(r, n, size) enumerate the indices r, r+size, ... (validated against Variance.strided each run)',
    'np.sum over fewer than 8 floats is a left-to-right sum; numpy arithmetic is element-wise (the model is one element)',
    'np.argsort on distinct integer keys (the gathered sample indices) is the sorting permutation; a[idx] takes '
    'the elements at idx in order',
    'rounding: model on Float vs numpy doubles compared to 1e-9 relative + 1e-12*max|x|^2',
    'route stream: int(n*fraction) of a non-negative double = floor of the IEEE product (Variance.drawCount at Float); '
    'random.sample(range(n), k) returns k distinct indices below n (the drawn list is an input of Variance.sampleParameters, '
    'reproduced by seeding `random` as rank 0 does); the samplers are the doubles of harness/doubles.py and are never called',
]

REL = 1e-9

# source tie (harness/translate.py, dialect 'obj' of harness/translate_obj.py -> lean/TaurexModel/Gen/SrcC18.lean, tied to
# TaurexModel/Variance.lean in lean/Props/C18Src.lean).  `mean` / `M2` are None until the first update: `Option α`.
# parallelVariance, generate_profiles.sample_iter and compute_derived_trace: dialect 'par' (harness/translate_par.py).
_MA = 'taurex/util/math.py'
_OV = {'self.count': ('count', 's'), 'self.wcount': ('wcount', 's'), 'self.wcount2': ('wcount2', 's'),
       'self.mean': ('mean', 'opt'), 'self.M2': ('M2', 'opt')}
_OVS = ['self.count', 'self.wcount', 'self.wcount2', 'self.mean', 'self.M2']
_OP = 'taurex/optimizer/optimizer.py'
_LOGCALLS = r'^self\.(debug|info|warning|error|critical)\(|^(enable|disable)Logging\(\)$'
SRC_SPECS = [
    dict(module=_MA, cls='OnlineVariance', func='reset', lean='OnlineVariance_reset', callname='self.reset', dialect='obj',
         params={}, attrs=_OV, state=_OVS),
    dict(module=_MA, cls='OnlineVariance', func='update', lean='OnlineVariance_update', dialect='obj',
         params=dict(value='s', weight='s'), attrs=_OV, state=_OVS,
         raise_value='(count, wcount, wcount2, none, none)'),
    dict(module=_MA, cls='OnlineVariance', func='variance', lean='OnlineVariance_variance', dialect='obj',
         params={}, attrs=dict(_OV, **{'np.nan': ('np_nan', 's')}), raise_value='np_nan'),
    # the pooled combination; `None` accumulators, `continue`, TypeError on a None operand (result `none`)
    dict(module=_MA, cls='OnlineVariance', func='combine_variance', lean='combine_variance', dialect='obj',
         params=dict(averages='list', variance='list', counts='list'), identity={'np.nan': 'is_np_nan'},
         returns=['s', 's'], raises='option'),
    # dialect 'par' (harness/translate_par.py): the k-th MPI collective is the parameter `allgather k <own contribution>`
    # (what the collective returns on this rank; the tie quantifies over the local states of all ranks)
    dict(module=_MA, cls='OnlineVariance', func='parallelVariance', lean='parallelVariance', dialect='par',
         params={}, attrs=dict(_OV, **{'np.nan': ('np_nan', 's')}), properties={'self.variance': 'variance'},
         calls={'self.combine_variance': 'combine_variance'}, collectives={'mpi.allgather': ('allgather', 'gather')},
         identity={'np.nan': 'is_np_nan'}, raises='option'),
    # the generator handed to compute_error by generate_profiles: the samples `sample_list[rank::size]` in order; the value
    # is the list of (state of the forward model left by update_model, yielded weight).  enableLogging / disableLogging only
    # switch the logger
    dict(module=_OP, cls='Optimizer', func='generate_profiles', inner='sample_iter', lean='sample_iter', dialect='par',
         closure=['rank', 'size'], closure_params=['sample_list'], params=dict(sample_list='pairlist:P'),
         nat_externals={'mpi.get_rank()': 'mpi_rank', 'mpi.nprocs()': 'mpi_size'},
         world=dict(type='W', calls={'self.update_model': ('update_model', ['obj:P'])}, reads={}),
         ignore_calls=_LOGCALLS, returns='yields'),
    # compute_derived_trace for ONE derived parameter (the function is point-wise in the distinct names `derived_names`):
    # evaluation of the samples `range(rank, n, size)`, gather of the traces and of the sample indices in rank order
    # (`allreduce` of lists = concatenation), restoring sample order by the argsort of the gathered indices.  The quantile
    # summary of the restored trace is C09's (Props/C09Src.lean); here only the stored 'trace' is kept
    dict(module=_OP, cls='Optimizer', func='compute_derived_trace', lean='compute_derived_trace', dialect='par',
         params=dict(solution='skip'), lift_keys='self.derived_names', lens={'samples': 'nsamples'},
         attrs={'self.get_samples(solution)': ('samples', 'objarr:P'), 'self.get_weights(solution)': ('weights', 'arr')},
         nat_externals={'mpi.get_rank()': 'mpi_rank', 'mpi.nprocs()': 'mpi_size'},
         world=dict(type='W', calls={'self.update_model': ('update_model', ['obj:P']),
                                     'self._model.initialize_profiles': ('initialize_profiles', [])},
                    reads={'self.derived_values': ('derived_values', 's')}),
         collectives={'mpi.allreduce': ('allreduce', 'concat', {'op': "'SUM'"})},
         list_externals={'np.argsort': ('argsort_nat', ['natlist'], 'natlist'),
                         'quantile_corner': ('quantile_corner', ['list', 'list', 'list'], 'list', ('weights',)),
                         'np.average': ('average', ['list', 'list'], 's', ('weights',), {'axis': '0'})},
         result='derived', dict_skip=['value', 'sigma_m', 'sigma_p', 'mean'], ignore_calls=_LOGCALLS),
]


# ----------------------------------------------------------------------------- helpers
def res_of(dec):
    """decode the model's `Option (Val Float)`"""
    tag = dec.nat()
    if tag == 0:
        return 'raises'
    if tag == 1:
        return float('nan')
    if tag == 2:
        return dec.flt()
    return float('inf')


def elems(v):
    """a Python value of the streaming code (scalar or array) as a flat list of floats"""
    return [float(t) for t in np.asarray(v, dtype=float).ravel()]


def same(a, b):
    a = np.asarray(a, float)
    b = np.asarray(b, float)
    return a.shape == b.shape and bool(np.all((a == b) | (np.isnan(a) & np.isnan(b))))


def two_pass(xs, ws):
    xs = np.asarray(xs, float)
    ws = np.asarray(ws, float)
    m = (ws[(slice(None),) + (None,) * (xs.ndim - 1)] * xs).sum(axis=0) / ws.sum()
    v = (ws[(slice(None),) + (None,) * (xs.ndim - 1)] * (xs - m) ** 2).sum(axis=0) / ws.sum()
    return m, v


def close_std(a, b, rel, abs_):
    """standard deviations compared as variances; sqrt of a variance that rounding made slightly negative is NaN,
    which agrees with any variance inside the absolute floor (and with nothing else)"""
    for x, y in zip(a, b):
        x2, y2 = float(x) ** 2, float(y) ** 2
        if math.isnan(x2) and math.isnan(y2):
            continue
        if math.isnan(x2) or math.isnan(y2):
            other = y2 if math.isnan(x2) else x2
            if abs(other) <= abs_:
                continue
            return False
        if not C.close(x2, y2, rel, abs_):
            return False
    return True


def split_class(blocks):
    sizes = [len(b) for b in blocks]
    if 1 in sizes:
        return 'one-sample-rank'
    if 0 in sizes:
        return 'empty-rank'
    return 'plain'


# ----------------------------------------------------------------------------- stream A: OnlineVariance
WKINDS = ['equal', 'uniform', 'wide', 'floored', 'scaled', 'allfloored']


def gen_ov_case(rng, k):
    quota_n = [0, 1, 2, 3, 3, 2]
    n = quota_n[k % 12] if k % 12 < len(quota_n) else int(rng.integers(2, 41))
    size = int(rng.integers(1, 8))
    dim = 0 if rng.random() < 0.35 else int(rng.integers(1, 5))
    wkind = WKINDS[int(rng.integers(0, len(WKINDS)))]
    centre = float(rng.choice([0.0, 1.0, -30.0, 1500.0, 1e-3])) * float(rng.uniform(0.5, 2))
    spread = float(10 ** rng.uniform(-1, 2)) * (abs(centre) if centre != 0 and rng.random() < 0.5 else 1.0)
    shape = (n,) if dim == 0 else (n, dim)
    xs = centre + spread * rng.standard_normal(shape)
    if rng.random() < 0.06:
        xs = np.full(shape, centre)
    if wkind == 'equal':
        ws = np.full(n, float(rng.choice([1.0, 0.25, 3.0])))
    elif wkind == 'uniform':
        ws = rng.uniform(0.05, 1.0, n)
    elif wkind == 'wide':
        ws = 10 ** rng.uniform(-12, 0, n)
    elif wkind == 'floored':       # the optimizer's `weights[x] + 1e-300` with underflowed posterior weights
        ws = np.where(rng.random(n) < 0.4, 0.0, rng.uniform(0.01, 1.0, n)) + 1e-300
    elif wkind == 'scaled':        # un-normalised weights far from 1 (the statistics are scale invariant)
        ws = rng.uniform(0.05, 1.0, n) * float(10 ** rng.uniform(-120, 120))
    else:                          # every posterior weight underflowed: all samples carry the 1e-300 floor
        ws = np.zeros(n) + 1e-300
        xs = (xs - centre) / max(spread, 1e-30) + (1.0 if centre else 0.0)   # O(1): w*(x-mean)^2 stays normal
    split = 'strided' if rng.random() < 0.45 else 'arbitrary'
    if split == 'strided':
        blocks = [list(range(n))[r::size] for r in range(size)]
    else:
        assign = rng.integers(0, size, n)
        if size >= 2 and n >= 2 and rng.random() < 0.6:        # force a one-sample rank (and often an empty one)
            lone = int(rng.integers(0, size))
            assign[assign == lone] = (lone + 1) % size
            assign[int(rng.integers(0, n))] = lone
            if size >= 3 and rng.random() < 0.5:
                empty = (lone + 2) % size
                assign[assign == empty] = (lone + 1) % size
        blocks = [[int(i) for i in np.nonzero(assign == r)[0]] for r in range(size)]
        if rng.random() < 0.5:
            for b in blocks:
                rng.shuffle(b)
    pyfloat = bool(rng.random() < 0.25)
    c = dict(xs=xs, ws=ws, blocks=blocks, size=size, dim=dim, wkind=wkind, split=split, pyfloat=pyfloat)
    if k % 6 == 4 and wkind != 'allfloored':
        # the element type of what is averaged: a profile given in whole numbers reaches update() as an integer array (a
        # T-P profile from a list of whole kelvins, a count); numpy integer scalars and Python ints for scalars
        c['xs'] = np.rint(float(rng.choice([0.0, 40.0, 1500.0, -300.0])) + float(10 ** rng.uniform(0.5, 2.5)) *
                          rng.standard_normal(shape))
        c['vdtype'] = ['int64', 'int32'][(k // 6) % 2]
    return c


def typed(xs, vdtype):
    """the samples in the element type the caller holds them in (None: double)"""
    return xs if not vdtype else np.asarray(xs, float).astype(vdtype)


def as_python(x):
    """`pyfloat` cases hand plain Python numbers over: float for a double, int for an integer"""
    if np.ndim(x) != 0:
        return x
    return int(x) if isinstance(x, (int, np.integer)) else float(x)


def ov_target(xs, ws, blocks, pyfloat, vdtype=None):
    xs = typed(xs, vdtype)

    def target(rank, size):
        from taurex.util.math import OnlineVariance
        from taurex import mpi
        ov = OnlineVariance()
        for i in blocks[rank]:
            x = xs[i]
            w = ws[i]
            if pyfloat:
                w = float(w)
                x = as_python(x)
            ov.update(x, w)
        local_var = ov.variance
        return dict(res=ov.parallelVariance(), count=ov.count, wcount=ov.wcount, mean=ov.mean, m2=ov.M2,
                    var=local_var, var_is_npnan=local_var is np.nan, rank=mpi.get_rank(), nprocs=mpi.nprocs())
    return target


def single_process(xs, ws, order, pyfloat=False, vdtype=None):
    """the reference: one process, no mpi4py importable, all samples"""
    from taurex.util.math import OnlineVariance
    import sys
    assert 'mpi4py' not in sys.modules
    xs = typed(xs, vdtype)
    ov = OnlineVariance()
    for i in order:
        x = xs[i]
        w = ws[i]
        if pyfloat:
            w = float(w)
            x = as_python(x)
        ov.update(x, w)
    return ov.parallelVariance()


def model_blocks(blocks, xs_col, ws):
    return C.L(blocks, lambda b: C.L([xs_col[i] for i in b]) + ' ' + C.L([ws[i] for i in b]))


def eval_ov_case(ctx, c, stream='ov'):
    xs = np.asarray(c['xs'], float)
    ws = np.asarray(c['ws'], float)
    blocks = [list(map(int, b)) for b in c['blocks']]
    size = len(blocks)
    pyfloat = bool(c.get('pyfloat'))
    vdtype = c.get('vdtype') or None
    n = len(ws)
    dim = xs.ndim - 1
    cols = [xs] if dim == 0 else [xs[:, j] for j in range(xs.shape[1])]
    small = dict(xs=xs, ws=ws, blocks=blocks, pyfloat=pyfloat)
    if vdtype:
        small['vdtype'] = vdtype
        if n and not np.array_equal(typed(xs, vdtype).astype(float), xs):
            ctx.malformed_outcome('integer-typed-values-not-whole-numbers')
            return
    cls = split_class(blocks) if n >= 2 else 'fewer-than-2-samples'
    scale = float(np.max(np.abs(xs))) if n else 1.0
    abs_ = 1e-12 * scale * scale + 1e-300
    used = sorted(i for b in blocks for i in b)
    if used != list(range(n)):
        ctx.malformed_outcome('blocks-not-a-partition')
        return
    if n and (not np.all(ws > 0) or not np.all(np.isfinite(xs))):
        ctx.malformed_outcome('non-positive-weight-or-non-finite-value')
        return
    nonconst = bool(n >= 2 and np.ptp(xs) > 0)
    ctx.case(key=(stream, size, n, c.get('wkind'), c.get('split'), sum(len(b) == 0 for b in blocks),
                  sum(len(b) == 1 for b in blocks)) if nonconst else None,
             sample=dict(size=size, n=n, blocks=blocks, wkind=c.get('wkind'), xs=xs[:3], ws=ws[:3]),
             bucket='ov:ranks=%d' % size)
    ctx.bucket('ov:split-class:' + cls)
    ctx.bucket('ov:weights:' + str(c.get('wkind')))
    ctx.bucket('ov:dim=%d' % dim)
    ctx.bucket('ov:n=%s' % (n if n < 4 else '4+'))
    ctx.bucket('ov:value-type:' + ((vdtype + ('-array' if dim else '-python-int' if pyfloat else '-numpy-scalar'))
                                   if vdtype else 'double'))
    try:
        out = fakempi.run_ranks(size, ov_target(xs, ws, blocks, pyfloat, vdtype))
    except fakempi.FakeMPIError as e:
        ctx.violation('ranks-out-of-step', 'the simulated ranks did not enter the same collectives: %s' % e, small)
        return
    bad = [o for o in out if o['status'] != 'ok']
    if bad:
        err = [o['error'] for o in out if o['status'] == 'exc']
        ctx.violation('raises:' + cls, 'parallelVariance raised on a rank: %s' % (err[:1],), small, dict(errors=err))
        return
    ctx.extra['exchanges'] = ctx.extra.get('exchanges', 0) + sum(o['stats']['exchanges'] for o in out)
    ctx.extra['pickled_bytes'] = ctx.extra.get('pickled_bytes', 0) + sum(o['stats']['pickled_bytes'] for o in out)
    vals = [o['value'] for o in out]
    # -- the simulated communicator is really seen by the code
    for r, v in enumerate(vals):
        if v['rank'] != r or v['nprocs'] != size:
            raise C.InfraError('fake communicator not picked up by taurex.mpi (rank/size %r/%r)' % (v['rank'],
                                                                                                 v['nprocs']))
    # -- predicate: every rank reports the same pooled variance
    for v in vals[1:]:
        if not same(v['res'], vals[0]['res']):
            ctx.violation('ranks-disagree', 'ranks report different pooled variances', small,
                          dict(rank0=vals[0]['res'], other=v['res']))
    res = vals[0]['res']
    # -- predicate: equal to the single-process run, and to the two-pass weighted variance
    order = list(range(n))
    try:
        ref = single_process(xs, ws, order, pyfloat, vdtype)
    except Exception as e:
        ctx.violation('raises:single-process', 'the single-process variance of the samples raised %r' % (e,), small)
        return
    if n < 2:
        if not (np.ndim(res) == 0 and res != res and np.ndim(ref) == 0 and ref != ref):
            ctx.violation('fewer-than-2-samples', 'with fewer than two samples the variance is NaN on one process; '
                          'the ranks report something else', small, dict(ranks=res, single=ref))
    else:
        if np.shape(res) != np.shape(ref) or not C.close(elems(res), elems(ref), REL, abs_):
            ctx.violation('split-variance:' + cls, 'pooled variance over the ranks differs from the single-process '
                          'variance of the same samples', small, dict(ranks=res, single=ref))
        _, tv = two_pass(xs, ws)
        if np.shape(res) != np.shape(tv) or not C.close(elems(res), elems(tv), REL, abs_):
            ctx.violation('two-pass:' + cls, 'pooled variance differs from the two-pass weighted variance', small,
                          dict(ranks=res, two_pass=tv))
    # -- correspondence with the model, element by element
    m = ctx.model()
    def per_column(v):
        e = elems(v)
        if len(e) == len(cols):
            return e
        return [e[0] if len(e) == 1 else float('inf')] * len(cols)     # wrong shape: broadcast / poison
    res_e = per_column(res)
    ref_e = per_column(ref)
    for j, col in enumerate(cols):
        d = m.call('c18.pool', C.N(0), C.N(1), model_blocks(blocks, col, ws))
        mv = res_of(d)
        ctx.check_close('parallelVariance (ranks, pickled) vs Variance.parallelVariance nanByValue ser',
                        res_e[j], mv if mv != 'raises' else float('inf'), small, REL, abs_)
        d = m.call('c18.pool', C.N(0), C.N(0), model_blocks([order], col, ws))
        mv1 = res_of(d)
        ctx.check_close('parallelVariance (single process) vs Variance.parallelVariance nanByValue id',
                        ref_e[j], mv1 if mv1 != 'raises' else float('inf'), small, REL, abs_)
        if c.get('split') == 'strided':
            d = m.call('c18.split', C.N(size), C.L(col), C.L(ws))
            mv2 = res_of(d)
            ctx.check_close('parallelVariance (strided ranks) vs Variance.splitVariance',
                            res_e[j], mv2 if mv2 != 'raises' else float('inf'), small, REL, abs_)
        if n >= 1:
            d = m.call('c18.twopass', C.L(col), C.L(ws))
            mm, mvv = d.flt(), d.flt()
            tm, tv = two_pass(col, ws)
            ctx.check_close('numpy two-pass mean/variance vs Variance.wmean/twoPassVar', [float(tm), float(tv)],
                            [mm, mvv], small, REL, abs_)
        if j == 0:
            for r, v in enumerate(vals):
                if not blocks[r]:
                    ok = v['count'] == 0 and v['mean'] is None and v['var_is_npnan']
                    ctx.check_eq('empty rank: count 0, mean None, variance is np.nan', ok, True, small)
                    continue
                d = m.call('c18.acc', C.L([col[i] for i in blocks[r]]), C.L([ws[i] for i in blocks[r]]))
                cnt, wc, mean, m2 = d.nat(), d.flt(), d.flt(), d.flt()
                mvar = res_of(d)
                isnp = d.bool()
                ctx.check_eq('OnlineVariance.count vs Acc.count', int(v['count']), cnt, small)
                ctx.check_close('OnlineVariance wcount/mean/M2 vs Variance.accOf',
                                [float(v['wcount']), elems(v['mean'])[0], elems(v['m2'])[0]], [wc, mean, m2], small,
                                REL, abs_)
                ctx.check_eq('variance is the np.nan object iff count < 2', bool(v['var_is_npnan']), isnp, small)
                if not isnp:
                    ctx.check_close('OnlineVariance.variance vs Variance.variance', elems(v['var'])[0], mvar, small,
                                    REL, abs_)


# ----------------------------------------------------------------------------- stream B: the optimizer
_MODEL = {}
DERIVED_RATIOS = ('O/H', 'C/O')
# what the fixture must offer (the run stops as an infrastructure failure otherwise: the quota would silently be empty)
DERIVED_EXPECTED = ('logg', 'mu', 'avg_T', 'metallicity', 'O_H_ratio', 'C_O_ratio')


def small_model():
    """a 5-layer transmission model with one in-memory opacity, and an observation on a coarse grid"""
    if 'm' in _MODEL:
        return _MODEL['m'], _MODEL['obs']
    import logging
    from taurex.log import setLogLevel
    setLogLevel(logging.CRITICAL)
    from taurex.model import TransmissionModel
    from taurex.data.profiles.chemistry import TaurexChemistry, ConstantGas
    from taurex.data.profiles.temperature import Isothermal
    from taurex.data import Planet
    from taurex.data.stellar import BlackbodyStar
    from taurex.contributions import AbsorptionContribution
    from taurex.data.spectrum.array import ArraySpectrum
    from taurex.opacity.interpolateopacity import InterpolatingOpacity
    from taurex.cache import OpacityCache

    wn_native = np.linspace(400.0, 6000.0, 24)
    tg = np.array([200.0, 1000.0, 3000.0])
    pg = np.array([1e-3, 1e2, 1e8])
    tab_rng = np.random.Generator(np.random.PCG64(12345))
    tab = 10 ** tab_rng.uniform(-24, -20, size=(3, 3, 24))

    class MemOpacity(InterpolatingOpacity):
        def __init__(self):
            super().__init__('MemOpacity', interpolation_mode='linear')

        moleculeName = 'H2O'
        xsecGrid = property(lambda self: tab)
        wavenumberGrid = property(lambda self: wn_native)
        temperatureGrid = property(lambda self: tg)
        pressureGrid = property(lambda self: pg)

    OpacityCache().clear_cache()
    OpacityCache().add_opacity(MemOpacity())
    class CondChemistry(TaurexChemistry):
        """the free chemistry plus one condensate whose profile follows the temperature (so it differs between samples):
        compute_error then also pools `condensate_profile_std` over the ranks"""

        def initialize_chemistry(self, nlayers=100, temperature_profile=None, pressure_profile=None,
                                 altitude_profile=None):
            super().initialize_chemistry(nlayers, temperature_profile, pressure_profile, altitude_profile)
            self._cond = np.array([1e-9 * np.asarray(temperature_profile, float) * np.linspace(1.0, 2.0, nlayers)])

        condensates = property(lambda self: ['Mg2SiO4'])
        condensateMixProfile = property(lambda self: self._cond)

    # element-based derived parameters (metallicity, X/Y ratios) are functions of the CURRENT mixing profiles: the
    # chemistry is asked for two ratios, and carries one gas without an opacity table (inactive) so that C/O is defined
    chem = CondChemistry(fill_gases=['H2', 'He'], ratio=0.17, derived_ratios=list(DERIVED_RATIOS))
    chem.addGas(ConstantGas('H2O', mix_ratio=1e-3))
    chem.addGas(ConstantGas('CO', mix_ratio=2e-4))
    m = TransmissionModel(planet=Planet(1.0, 1.0), star=BlackbodyStar(5800, 1.0),
                          temperature_profile=Isothermal(1200.0), chemistry=chem, nlayers=5,
                          atm_min_pressure=1e-1, atm_max_pressure=1e6)
    m.add_contribution(AbsorptionContribution())
    m.build()
    r = m.model()
    wn = r[0]
    obs = ArraySpectrum(np.stack([10000 / wn[::-3], r[1][::-3], np.full(len(wn[::-3]), 1e-4)], axis=1))
    _MODEL['m'] = m
    _MODEL['obs'] = obs
    return m, obs


def make_optimizer(samples, weights):
    from taurex.optimizer.optimizer import Optimizer
    m, obs = small_model()

    class InjectedSamples(Optimizer):
        """the sampler-facing part of an optimizer, with a fixed posterior sample set"""

        def __init__(self):
            super().__init__('injected', observed=obs, model=m, sigma_fraction=1.0)
            self.seen = []

        def get_samples(self, solution_id):
            return samples

        def get_weights(self, solution_id):
            return weights

        def get_solution(self):
            yield 0, samples[0], samples[0], []

        def update_model(self, fit_params):
            self.seen.append([float(v) for v in fit_params])
            return super().update_model(fit_params)

    o = InjectedSamples()
    for p in list(m.fittingParameters):
        o.disable_fit(p)
    o.enable_fit('planet_radius')
    o.enable_fit('T')
    o.enable_fit('H2O')
    # EVERY derived parameter the forward model offers (planet: logg; temperature: avg_T; chemistry: mu, metallicity and
    # the requested element ratios): each of them is a function of the state update_model leaves for ONE sample
    for name in sorted(m.derivedParameters):
        o.enable_derived(name)
    o.compile_params()
    assert o.fit_names == ['planet_radius', 'T', 'log_H2O'], o.fit_names
    missing = [d for d in DERIVED_EXPECTED if d not in o.derived_names]
    if missing:
        raise C.InfraError('derived parameters %r are not offered by the fixture model (offered: %r)'
                           % (missing, o.derived_names))
    return o


def gen_opt_case(rng, k, tied=False):
    n = int(rng.integers(2, 15)) if k % 5 else int(rng.integers(2, 4))
    size = int(rng.integers(1, 8)) if not tied else int(rng.integers(2, 8))
    samples = np.stack([rng.uniform(0.8, 1.3, n), rng.uniform(600.0, 2200.0, n), rng.uniform(-6.0, -2.0, n)], axis=1)
    kind = ['uniform', 'wide', 'someunderflow'][int(rng.integers(0, 3))]
    if kind == 'uniform':
        w = rng.uniform(0.05, 1.0, n)
    elif kind == 'wide':
        w = 10 ** rng.uniform(-14, 0, n)
    else:                       # posterior weights that underflowed: denormals and (at most one) exact zero
        w = rng.uniform(0.05, 1.0, n)
        idx = rng.choice(n, size=max(1, n // 3), replace=False)
        w[idx] = 10 ** rng.uniform(-322, -290, len(idx))
        w[idx[0]] = 0.0
    if tied:
        kind = ['zeros', 'pairs', 'allequal'][int(rng.integers(0, 3))]
        if kind == 'zeros':     # several underflowed weights
            w = rng.uniform(0.05, 1.0, n)
            w[rng.choice(n, size=max(2, n // 2), replace=False)] = 0.0
            if not np.any(w > 0):
                w[0] = 0.5
        elif kind == 'pairs':
            w = rng.choice(rng.uniform(0.05, 1.0, max(1, n // 2)), size=n)
        else:
            w = np.full(n, 1.0 / n)
    elif len(set(w.tolist())) < n:
        # distinct weights here; ties (the former defect K2) have their own quota in the tied stream
        w = np.sort(rng.uniform(0.05, 1.0, n))[rng.permutation(n)]
    return dict(samples=samples, weights=w, size=size, seed=int(rng.integers(0, 2 ** 31)), wkind=kind, tied=tied)


def opt_run(o, seed, rank=0):
    """what is observed of one (real or simulated) process"""
    _, obs = small_model()
    # `sample_parameters` draws the processing order with the global `random`.  Separate MPI processes do not share a
    # random state: every simulated rank other than 0 gets its own (rank 0 keeps `seed`, so that the single-process
    # reference and the model's broadcast order are those of rank 0)
    random.seed(seed if rank == 0 else (seed * 1000003 + 7919 * rank) % (2 ** 31))
    o.seen = []
    pd, sd = o.generate_profiles(0, obs.wavenumberGrid)
    seen_profiles = o.seen
    o.seen = []
    dt = o.compute_derived_trace(0)
    seen_derived = o.seen
    flat = {}
    for k, v in list(pd.items()) + list(sd.items()):
        flat[k] = np.asarray(v, float)
    for k, v in dt.items():
        flat[k + ':trace'] = np.asarray(v['trace'], float)
        flat[k + ':summary'] = np.array([v['value'], v['sigma_m'], v['sigma_p'], v['mean']], float)
    return dict(out=flat, seen_profiles=seen_profiles, seen_derived=seen_derived)


def eval_opt_case(ctx, c):
    samples = np.asarray(c['samples'], float)
    weights = np.asarray(c['weights'], float)
    size = int(c['size'])
    seed = int(c['seed'])
    tied = bool(c.get('tied'))
    n = len(weights)
    small = dict(samples=samples, weights=weights, size=size, seed=seed, tied=tied)
    stream = 'tied' if tied else 'opt'
    ctx.case(key=(stream, size, n, c.get('wkind')), sample=dict(size=size, n=n, weights=weights[:4],
                                                                  samples=samples[:2]),
             bucket='%s:ranks=%d' % (stream, size))
    ctx.bucket('%s:weights:%s' % (stream, c.get('wkind')))
    ctx.bucket('%s:samples-per-rank<1' % stream if n < size else '%s:samples-per-rank>=1' % stream)
    # every process of a real MPI run builds its own forward model: the single-process reference, every simulated rank and
    # the second history below each get a freshly built model (a model warmed up by earlier cases and inherited through
    # fork would make all of them share whatever state earlier evaluations left in it)
    _MODEL.clear()
    o = make_optimizer(samples, weights)
    ref = opt_run(o, seed)
    for name in o.derived_names:
        ctx.bucket('%s:derived:%s' % (stream, name))
    # -- the quantifier ranges over ALL assignments of samples to ranks: entry i of a trace is the derived value of sample
    #    i whichever samples the evaluating process handled before it.  One more process-local history (the samples in
    #    reversed order, through the same public calls the loop of compute_derived_trace makes) must give the same values
    _MODEL.clear()
    o2 = make_optimizer(samples, weights)
    model_obj, _ = small_model()
    other = {}
    for i in reversed(range(n)):
        o2.update_model(samples[i])
        model_obj.initialize_profiles()
        for name, v in zip(o2.derived_names, o2.derived_values):
            other.setdefault(name, {})[i] = float(v)
    ctx.bucket('%s:derived:other-assignment(reversed)' % stream)
    for name, byidx in other.items():
        rv = ref['out'].get(name + '_derived:trace')
        ov = np.array([byidx[i] for i in range(n)], float)
        ctx.disagreements_checked += 1
        if rv is None or rv.shape != ov.shape or not C.close(rv, ov, 1e-9, 1e-300):
            ctx.violation('derived-trace-per-sample:' + name, 'entry i of the single-process trace of %s is not the derived '
                          'value of sample i when the same process handles the samples in another order (another '
                          'assignment of samples to a rank)' % name, small,
                          dict(param=name, trace=rv, reversed_order=ov))

    def target(rank, nproc):
        _MODEL.clear()
        return opt_run(make_optimizer(samples, weights), seed, rank)
    try:
        out = fakempi.run_ranks(size, target, timeout=300.0)
    except fakempi.FakeMPIError as e:
        ctx.violation('ranks-out-of-step', 'the simulated ranks did not enter the same collectives: %s' % e, small)
        return
    if any(o_['status'] != 'ok' for o_ in out):
        err = [o_['error'] for o_ in out if o_['status'] == 'exc']
        ctx.violation('raises:optimizer', 'post-processing raised on a rank: %s' % (err[:1],), small, dict(errors=err))
        return
    ctx.extra['exchanges'] = ctx.extra.get('exchanges', 0) + sum(o_['stats']['exchanges'] for o_ in out)
    ctx.extra['pickled_bytes'] = ctx.extra.get('pickled_bytes', 0) + sum(o_['stats']['pickled_bytes'] for o_ in out)
    vals = [o_['value'] for o_ in out]
    # -- every sample processed exactly once (over all ranks), in both loops
    want = sorted(map(tuple, samples.tolist()))
    for name in ('seen_profiles', 'seen_derived'):
        got = sorted(tuple(s) for v in vals for s in v[name])
        if got != want:
            ctx.violation('each-sample-once:' + name, 'the ranks together did not process every posterior sample '
                          'exactly once', small, dict(processed=len(got), samples=len(want)))
        if sorted(tuple(s) for s in ref[name]) != want:
            ctx.violation('each-sample-once:single:' + name, 'the single process did not process every sample once',
                          small)
    # -- every rank's output equals the single-process output
    trace_sample_order = {}
    for key, rv in ref['out'].items():
        scale = float(np.max(np.abs(rv))) if rv.size else 1.0
        if key.endswith('_std'):
            # standard deviations are compared as variances, with an absolute floor tied to the size of the
            # averaged quantity (cancellation in a variance is relative to value^2, not to the variance)
            big = 2300.0 if key.startswith('temp') else (1.0 if 'mix' in key else 0.05)
            tol = dict(rel=1e-7, abs_=1e-12 * big * big)
            sq = True
        else:
            tol = dict(rel=1e-9, abs_=1e-12 * scale + 1e-300)
            sq = False
        for r, v in enumerate(vals):
            pv = v['out'].get(key)
            if sq:
                ok = pv is not None and pv.shape == rv.shape and close_std(pv.ravel(), rv.ravel(), tol['rel'],
                                                                           tol['abs_'])
            else:
                ok = pv is not None and pv.shape == rv.shape and C.close(pv.ravel(), rv.ravel(), tol['rel'],
                                                                         tol['abs_'])
            ctx.disagreements_checked += 1
            if ok:
                continue
            if key.endswith(':trace'):
                ctx.violation('derived-trace-order', 'compute_derived_trace on %d ranks: the stored trace is not the '
                              'single-process trace (sample order)%s' % (size, ' [tied weights]' if tied else ''),
                              small, dict(param=key, single=rv, rank=r, ranks=pv, weights=weights))
            elif key.endswith(':summary'):
                ctx.violation('derived-summary', 'derived-parameter summary (median, sigma-, sigma+, mean) differs '
                              'from the single-process run', small, dict(param=key, single=rv, rank=r, ranks=pv))
            else:
                ctx.violation('post-processing:' + key, 'profile/spectrum standard deviation differs from the '
                              'single-process run', small, dict(single=rv, rank=r, ranks=pv))
            break
        if key.endswith(':trace'):
            trace_sample_order[key] = rv
    # -- correspondence with the model: the temperature profile is isothermal, so its variance is the model's
    #    splitVariance of (T_i, w_i + 1e-300) in broadcast order; the derived traces are derivedTraceGather
    random.seed(seed)
    order = random.sample(range(n), n)
    m = ctx.model()
    ts = [samples[i, 1] for i in order]
    wsb = [weights[i] + 1e-300 for i in order]
    mv = res_of(m.call('c18.split', C.N(size), C.L(ts), C.L(wsb)))
    tstd = np.asarray(vals[0]['out']['temp_profile_std'], float).ravel()
    ctx.check_close('generate_profiles temp_profile_std^2 vs Variance.splitVariance', float(tstd[0]) ** 2,
                    mv if mv != 'raises' else float('inf'), small, 1e-7, 1e-9 * 2200.0 ** 2)
    judge_compute_error(ctx, stream, samples, weights, size, order, vals[0]['out'], small)
    for key, rv in trace_sample_order.items():
        d = m.call('c18.derived', C.N(size), C.L(rv))
        restored = d.list()
        d.list()
        gidx = d.list(d.nat)
        ctx.check_close('compute_derived_trace order vs Variance.derivedTraceGather', vals[0]['out'][key],
                        restored, small, 1e-12, 0.0)
        ctx.check_eq('rank-ordered gather of range(rank, n, size) vs Variance.gatherLists (partition size (range n))',
                     [i for r in range(size) for i in range(r, n, size)], gidx, small)


# ----------------------------------------------------------------------------- compute_error: every returned key judged
# compute_error keeps one accumulator per quantity (temperature, active / inactive mixing profiles, the condensate profile
# when the chemistry reports condensates, native and binned spectrum) and returns one `<quantity>_std` per accumulator.  The
# property speaks of ALL of them: each returned key is judged, element by element, against the model's pooled variance of
# the per-sample values of that quantity (Variance.splitVariance, the strided split in broadcast order) and against the
# two-pass weighted variance of all samples (Variance.twoPassVar).  The per-sample values are read OUTSIDE compute_error, on
# a freshly built model driven through the same public calls (update_model, model), from the documented source of each key.
CERR_SOURCES = {
    'temp_profile_std': lambda m, grid, native, binner: m.temperatureProfile,
    'active_mix_profile_std': lambda m, grid, native, binner: m.chemistry.activeGasMixProfile,
    'inactive_mix_profile_std': lambda m, grid, native, binner: m.chemistry.inactiveGasMixProfile,
    'condensate_profile_std': lambda m, grid, native, binner: m.chemistry.condensateMixProfile,
    'native_std': lambda m, grid, native, binner: native,
    'binned_std': lambda m, grid, native, binner: binner.bindown(grid, native)[1],
}


def sample_quantities(samples, weights, keys):
    """per posterior sample i (posterior order): {key: the value compute_error feeds the accumulator of `key`}"""
    _MODEL.clear()
    o = make_optimizer(samples, weights)
    m, obs = small_model()
    rec = []
    for p in samples:
        o.update_model(p)
        grid, native, _, _ = m.model(wngrid=obs.wavenumberGrid, cutoff_grid=False)
        rec.append({k: np.array(CERR_SOURCES[k](m, grid, native, o._binner), float) for k in keys})
    return rec, bool(len(m.chemistry.condensates) > 0)


def judge_compute_error(ctx, stream, samples, weights, size, order, out, small):
    """`out`: what generate_profiles (compute_error) returned on rank 0 of `size` ranks; `order`: the broadcast order"""
    keys = sorted(k for k in out if k.endswith('_std'))
    unknown = [k for k in keys if k not in CERR_SOURCES]
    if unknown:
        raise C.InfraError('compute_error returned %r: no per-sample source is known to the harness for it, the key would '
                           'stay unjudged' % (unknown,))
    rec, has_cond = sample_quantities(samples, weights, keys)
    ctx.bucket('cerr:chemistry-with-condensates' if has_cond else 'cerr:chemistry-without-condensates')
    ctx.bucket('cerr:%s' % ('ranks-with<=1-sample' if len(order) < 2 * size else 'ranks-with>=2-samples'))
    m = ctx.model()
    wsb = [weights[i] + 1e-300 for i in order]
    for key in keys:
        ctx.bucket('cerr:key:' + key)
        got_std = np.asarray(out[key], float)
        vals = np.stack([rec[i][key] for i in order])
        if got_std.shape != vals.shape[1:]:
            ctx.violation('compute-error-two-pass:' + key, '%s has shape %r, the per-sample quantity has shape %r'
                          % (key, got_std.shape, vals.shape[1:]), small)
            continue
        flat = vals.reshape(len(order), -1)
        abs_ = 1e-12 * float(np.max(np.abs(flat))) ** 2 + 1e-300
        bad = False
        for e, g in enumerate(got_std.ravel()):
            xs = flat[:, e]
            got = float(g) ** 2
            mv = res_of(m.call('c18.split', C.N(size), C.L(xs), C.L(wsb)))
            d = m.call('c18.twopass', C.L(xs), C.L(wsb))
            d.flt()
            tv = d.flt()
            if math.isnan(got):
                # the square root of a variance that rounding made slightly negative: agrees with any variance inside
                # the absolute floor, and with nothing else
                got = 0.0 if (mv != 'raises' and abs(mv) <= abs_ and abs(tv) <= abs_) else got
            ctx.check_close('compute_error %s^2 vs Variance.splitVariance' % key, got,
                            mv if mv != 'raises' else float('inf'), small, 1e-7, abs_)
            ctx.disagreements_checked += 1
            if not bad and not C.close(got, tv, 1e-7, abs_):
                bad = True
                ctx.violation('compute-error-two-pass:' + key, '%s of compute_error on %d ranks is not the two-pass weighted '
                              'standard deviation of the processed samples (per-sample values read from the forward model '
                              'outside compute_error)' % (key, size), small,
                              dict(key=key, element=e, std=float(g), two_pass_std=float(np.sqrt(max(tv, 0.0))),
                                   values=xs, weights=wsb))


# ----------------------------------------------------------------------------- stream C: concrete optimizers, sigma_fraction
# The post-processing is inherited by every concrete optimizer (Nestle, MultiNest, PolyChord; samplers replaced by the
# doubles of harness/doubles.py, which are never called here).  WHICH samples it uses is decided by the option
# `sigma_fraction`, which travels from the concrete constructor (keyword, or the entries of the par file's [Optimizer] section
# handed to the class as keywords) to the base class: `random_int_iter(n, fraction)` draws int(n*fraction) distinct samples
# on rank 0, the list is broadcast and strided over the ranks.  "Each sample is processed exactly once and the combined
# variance equals the two-pass weighted variance of all samples": with sigma_fraction = 1 that is every posterior sample;
# with a smaller fraction every drawn sample.  Model: Variance.heldFraction / drawCount / sampleParameters / postProcess
# (theorems drawn_samples_once, sigma_fraction_one_all_samples).
_ROUTE = {}
ROUTE_FRACTIONS = [1.0, None, 0.5, 0.25, 1.0, 0.75, 0.1, 0.3]      # one per block of six (class x built-by) cases
ROUTE_KEYWORD = {'nestle': 'nestle', 'multinest': 'multinest', 'polychord': 'polychord'}


def route_classes():
    """the concrete optimizer classes of the tree, bound to the recording sampler doubles"""
    if 'classes' not in _ROUTE:
        import tempfile
        import logging
        from taurex.log import setLogLevel
        from harness import doubles
        setLogLevel(logging.CRITICAL)
        N, M, Pc = doubles.install()
        # taurex/optimizer/__init__.py binds a wrapper only when its sampler imports; if the package was imported before the
        # doubles were in place, finish what its own __init__ does now that they are (the class factory scans the package)
        import taurex.optimizer as pkg
        for name, klass in (('NestleOptimizer', N), ('MultiNestOptimizer', M), ('PolyChordOptimizer', Pc)):
            if getattr(pkg, name, None) is not klass:
                setattr(pkg, name, klass)
        from taurex.parameter.classfactory import ClassFactory
        ClassFactory().reload_plugins()         # public: re-scan the packages (the singleton may predate the doubles)
        _ROUTE['classes'] = {'nestle': N, 'multinest': M, 'polychord': Pc}
        _ROUTE['dir'] = tempfile.mkdtemp(prefix='verif_c18_')
    return _ROUTE['classes']


def route_cleanup():
    import shutil
    if 'dir' in _ROUTE:
        shutil.rmtree(_ROUTE.pop('dir'), ignore_errors=True)
        _ROUTE.pop('classes', None)


def make_route_optimizer(cname, how, fraction, samples, weights):
    """an optimizer of class `cname` built the way a user builds it, given the posterior (samples, weights)"""
    import os
    classes = route_classes()
    m, obs = small_model()
    kw = {}
    if fraction is not None:
        kw['sigma_fraction'] = float(fraction)
    if cname == 'multinest':
        kw['multi_nest_path'] = os.path.join(_ROUTE['dir'], 'mn')
    elif cname == 'polychord':
        kw['polychord_path'] = os.path.join(_ROUTE['dir'], 'pc')
    if cname != 'nestle' or how == 'par':
        kw['num_live_points'] = 50
    used = how
    if how == 'ctor':
        o = classes[cname](observed=obs, model=m, **kw)
    else:
        # what `taurex -R` does with an [Optimizer] section: the class looked up by its keyword, the other entries handed to
        # it as keywords, then set_model / set_observed
        from taurex.parameter.factory import create_optimizer
        try:
            o = create_optimizer(dict(kw, optimizer=ROUTE_KEYWORD[cname]))
        except NotImplementedError:        # class not offered by the class factory of this interpreter (sampler missing)
            o = classes[cname](**kw)
            used = 'par(keywords only)'
        o.set_model(m)
        o.set_observed(obs)
    o.get_samples = lambda solution: samples
    o.get_weights = lambda solution: weights
    o.seen = []
    inner = o.update_model

    def update_model(fit_params):
        o.seen.append([float(v) for v in fit_params])
        return inner(fit_params)

    o.update_model = update_model
    for p_ in list(m.fittingParameters):
        o.disable_fit(p_)
    o.enable_fit('planet_radius')
    o.enable_fit('T')
    o.enable_fit('H2O')
    o.compile_params()
    assert o.fit_names == ['planet_radius', 'T', 'log_H2O'], o.fit_names
    return o, used


def route_run(o, seed, rank=0):
    _, obs = small_model()
    random.seed(seed if rank == 0 else (seed * 1000003 + 7919 * rank) % (2 ** 31))
    o.seen = []
    pd, sd = o.generate_profiles(0, obs.wavenumberGrid)
    flat = {}
    for k, v in list(pd.items()) + list(sd.items()):
        flat[k] = np.asarray(v, float)
    return dict(out=flat, seen=o.seen)


def gen_route_case(rng, k):
    cname = ['nestle', 'multinest', 'polychord'][k % 3]
    how = ['ctor', 'par'][(k // 3) % 2]
    fraction = ROUTE_FRACTIONS[(k // 6) % len(ROUTE_FRACTIONS)]
    n = int(rng.integers(10, 31))
    size = int(rng.integers(1, 6))
    samples = np.stack([rng.uniform(0.8, 1.3, n), rng.uniform(600.0, 2200.0, n), rng.uniform(-6.0, -2.0, n)], axis=1)
    w = np.sort(rng.uniform(0.05, 1.0, n))[rng.permutation(n)]
    if rng.random() < 0.3:
        w[rng.choice(n, size=max(1, n // 4), replace=False)] = 0.0         # underflowed posterior weights
    return dict(stream='route', cls=cname, how=how, fraction=fraction, samples=samples, weights=w, size=size,
                seed=int(rng.integers(0, 2 ** 31)))


def eval_route_case(ctx, c):
    cname, how = c['cls'], c['how']
    fraction = None if c.get('fraction') is None else float(c['fraction'])
    samples = np.asarray(c['samples'], float)
    weights = np.asarray(c['weights'], float)
    size, seed = int(c['size']), int(c['seed'])
    n = len(weights)
    small = dict(stream='route', cls=cname, how=how, fraction=fraction, samples=samples, weights=weights, size=size,
                 seed=seed)
    ftxt = 'default' if fraction is None else '%g' % fraction
    ctx.case(key=('route', cname, how, ftxt, size), sample=dict(cls=cname, how=how, sigma_fraction=ftxt, n=n, size=size),
             bucket='route:class:' + cname)
    ctx.bucket('route:built-by:' + how)
    ctx.bucket('route:sigma_fraction=' + ftxt)
    ctx.bucket('route:ranks=%d' % size)
    m = ctx.model()
    try:
        d = m.call('c18.draw', C.N(n), '0' if fraction is None else '1 ' + C.F(fraction))
    except C.ModelError:
        ctx.malformed_outcome('route:fraction-outside-[0,1]')
        return
    k_model = d.nat()
    if k_model > n:
        ctx.malformed_outcome('route:fraction-outside-[0,1]')
        return
    _MODEL.clear()
    try:
        o, used = make_route_optimizer(cname, how, fraction, samples, weights)
        ref = route_run(o, seed)
    except Exception as e:
        ctx.violation('raises:route:' + cname, 'building %s (%s, sigma_fraction=%s) or its post-processing raised %r'
                      % (cname, how, ftxt, e), small)
        return
    if used != how:
        ctx.bucket('route:built-by:' + used)

    def target(rank, nproc):
        _MODEL.clear()
        return route_run(make_route_optimizer(cname, how, fraction, samples, weights)[0], seed, rank)
    try:
        out = fakempi.run_ranks(size, target, timeout=300.0)
    except fakempi.FakeMPIError as e:
        ctx.violation('ranks-out-of-step', 'the simulated ranks did not enter the same collectives: %s' % e, small)
        return
    if any(o_['status'] != 'ok' for o_ in out):
        err = [o_['error'] for o_ in out if o_['status'] == 'exc']
        ctx.violation('raises:route:' + cname, 'post-processing raised on a rank: %s' % (err[:1],), small, dict(errors=err))
        return
    ctx.extra['exchanges'] = ctx.extra.get('exchanges', 0) + sum(o_['stats']['exchanges'] for o_ in out)
    ctx.extra['pickled_bytes'] = ctx.extra.get('pickled_bytes', 0) + sum(o_['stats']['pickled_bytes'] for o_ in out)
    vals = [o_['value'] for o_ in out]
    # -- correspondence: how many posterior samples the post-processing uses
    ctx.check_eq('number of posterior samples %s post-processes vs Variance.drawCount n (heldFraction 0.1 given)' % cname,
                 len(ref['seen']), k_model, small)
    # -- the property on the real code: each sample exactly once; with sigma_fraction = 1 that is every posterior sample
    index = {tuple(r): i for i, r in enumerate(samples.tolist())}
    single = [tuple(r) for r in ref['seen']]
    ranks = [tuple(r) for v in vals for r in v['seen']]
    whole = fraction is not None and fraction == 1.0
    what = ('sigma_fraction = 1: ' if whole else 'sigma_fraction = %s: ' % ftxt)
    if any(t not in index for t in single + ranks) or len(set(single)) != len(single) or len(set(ranks)) != len(ranks):
        ctx.violation('each-sample-once:route:' + cname, what + 'a posterior sample was processed more than once (or '
                      'something that is not a posterior sample was)', small,
                      dict(single=len(single), distinct_single=len(set(single)), ranks=len(ranks),
                           distinct_ranks=len(set(ranks))))
        return
    if sorted(ranks) != sorted(single):
        ctx.violation('each-sample-once:route:' + cname, what + 'the ranks together did not process the samples the single '
                      'process does, each exactly once', small, dict(single=len(single), ranks=len(ranks)))
    if whole and sorted(single) != sorted(index):
        ctx.violation('each-sample-once:route:' + cname, 'sigma_fraction = 1 (every posterior sample asked for) given to '
                      '%s (%s): the post-processing did not process every posterior sample exactly once' % (cname, how),
                      small, dict(processed=len(single), samples=n))
    # -- every rank's output equals the single-process output
    for key, rv in ref['out'].items():
        scale = float(np.max(np.abs(rv))) if rv.size and np.all(np.isfinite(rv)) else 1.0
        for r, v in enumerate(vals):
            pv = v['out'].get(key)
            if key.endswith('_std'):
                big = 2300.0 if key.startswith('temp') else (1.0 if 'mix' in key else 0.05)
                ok = pv is not None and pv.shape == rv.shape and close_std(pv.ravel(), rv.ravel(), 1e-7,
                                                                           1e-12 * big * big)
            else:
                ok = pv is not None and pv.shape == rv.shape and C.close(pv.ravel(), rv.ravel(), 1e-9,
                                                                         1e-12 * scale + 1e-300)
            ctx.disagreements_checked += 1
            if not ok:
                ctx.violation('post-processing:route:' + key, 'profile/spectrum standard deviation of %s on %d ranks '
                              'differs from the single-process run' % (cname, size), small,
                              dict(single=rv, rank=r, ranks=pv))
                break
    # -- the combined variance is the two-pass weighted variance of all samples (isothermal profile: the value is T_i)
    use = list(range(n)) if whole else [index[t] for t in single]
    tstd = np.asarray(vals[0]['out']['temp_profile_std'], float).ravel()
    got = float(tstd[0]) ** 2
    abs_ = 1e-9 * 2200.0 ** 2
    if len(use) >= 2:
        _, tv = two_pass(samples[use, 1], weights[use] + 1e-300)
        if not C.close(got, float(tv), 1e-7, abs_):
            ctx.violation('two-pass-all-samples:route:' + cname, what + 'temp_profile_std^2 of %s (%s) is not the two-pass '
                          'weighted variance of %s' % (cname, how, 'all %d posterior samples' % n if whole else
                                                       'the drawn samples'), small,
                          dict(std=float(tstd[0]), two_pass_std=float(np.sqrt(tv)), used=len(use)))
    elif got == got:
        ctx.violation('two-pass-all-samples:route:' + cname, what + 'fewer than two samples but a number came out', small)
    # -- correspondence with the model: the list drawn on rank 0 (external: random.sample), strided, pooled
    random.seed(seed)
    draw = random.sample(range(n), k_model)
    mv = res_of(m.call('c18.post', C.N(size), C.L(draw, C.N), C.F(1e-300), C.L(samples[:, 1]), C.L(weights)))
    ctx.check_close('generate_profiles temp_profile_std^2 of %s vs Variance.postProcess' % cname, got,
                    mv if mv != 'raises' else float('inf'), small, 1e-7, abs_)


# ----------------------------------------------------------------------------- assumptions / malformed
def validate_strided(ctx):
    rng = ctx.rng
    for _ in range(ctx.n(60, 600)):
        n = int(rng.integers(0, 50))
        size = int(rng.integers(1, 9))
        r = int(rng.integers(0, size))
        d = ctx.model().call('c18.strided', C.N(r), C.N(size), C.N(n))
        mod = d.list(d.nat)
        ctx.check_eq('list(range(n))[r::size] vs Variance.strided', list(range(n))[r::size], mod, dict(n=n, r=r, size=size))
        ctx.check_eq('range(r, n, size) vs Variance.strided', list(range(r, n, size)), mod, dict(n=n, r=r, size=size))
        ctx.bucket('strided')


def malformed(ctx):
    """outside the quantifier (non-positive weights): recorded, never judged"""
    from taurex.util.math import OnlineVariance
    rng = ctx.rng
    for k in range(ctx.n(12, 120)):
        kind = ['zero-first-npfloat', 'zero-first-pyfloat', 'negative', 'nan-value'][k % 4]
        xs = rng.standard_normal(4)
        ws = rng.uniform(0.1, 1, 4)
        if kind.startswith('zero-first'):
            ws[0] = 0.0
        if kind == 'negative':
            ws[int(rng.integers(0, 4))] *= -3
        if kind == 'nan-value':
            xs[1] = np.nan
        try:
            ov = OnlineVariance()
            with np.errstate(all='ignore'):
                for x, w in zip(xs, ws):
                    ov.update(float(x) if kind.endswith('pyfloat') else x, float(w) if kind.endswith('pyfloat') else w)
                v = ov.parallelVariance()
            ctx.malformed_outcome(kind + ':' + ('finite' if np.all(np.isfinite(v)) else 'nonfinite'))
        except Exception as e:
            ctx.malformed_outcome(kind + ':' + type(e).__name__)


# ----------------------------------------------------------------------------- entry points
def run(ctx):
    if not hasattr(ctx, 'extra') or ctx.extra is None:
        ctx.extra = {}
    route_classes()     # sampler doubles in place before taurex.optimizer is first imported: the class factory then offers all three
    validate_strided(ctx)
    for k in range(ctx.n(700, 9000)):
        eval_ov_case(ctx, gen_ov_case(ctx.rng, k))
    for k in range(ctx.n(120, 1200)):
        eval_opt_case(ctx, gen_opt_case(ctx.rng, k))
    for k in range(ctx.n(40, 400)):
        eval_opt_case(ctx, gen_opt_case(ctx.rng, k, tied=True))
    try:
        for k in range(ctx.n(30, 480)):
            eval_route_case(ctx, gen_route_case(ctx.rng, k))
    finally:
        route_cleanup()
    malformed(ctx)
    ctx.extra['fake_mpi'] = 'forked ranks + pipes, pickle round trip on every exchanged object'


def replay(ctx, case):
    if not hasattr(ctx, 'extra') or ctx.extra is None:
        ctx.extra = {}
    if isinstance(case.get('case'), dict) and 'samples' not in case and 'xs' not in case:
        case = case['case']          # a replay file written by ./check wraps the input
    if case.get('stream') == 'route':
        try:
            eval_route_case(ctx, case)
        finally:
            route_cleanup()
    elif 'samples' in case:
        eval_opt_case(ctx, case)
    else:
        eval_ov_case(ctx, case)
