"""C07 — retrieval set-up: a real taurex.optimizer.optimizer.Optimizer over a small real ForwardModel / BaseSpectrum
pair is driven with random operation sequences in lockstep with TaurexModel/OptimizerSM.lean `step`; after every
operation all public observables are compared, and the property's own predicates (history-freedom against a fresh
optimizer, consistency of spaces, write-back identity, frame conditions, unknown names) are evaluated on the real code."""
import math
import numpy as np
from harness import common as C

RULE = ('fixtures: 1-5 model parameters (decorated in both forms of the decorator + add_fittable_param in the subclass '
        'constructor, optionally collected from a sub-component as SimpleForwardModel does; optional Fittable.modify_bounds '
        'calls in / after the constructor; the table the optimizer reads is judged against the declarations first), a real '
        'TransmissionModel assembled from the repo\'s own components (isothermal / 1-3 node NPoint / Guillot / Rodgers; '
        'Constant / TwoLayer / TwoPoint / Power gas profiles; clouds / flat Mie / Lee Mie) with a random third of all its '
        'parameters fitted and written through (plus a quota of such models whose components are constructed with whole numbers '
        'as Python ints, scalars and node-list entries alike, ~70% of the parameters fitted and written non-integer values), '
        '0-3 observation parameters, 0-3 derived parameters, log and linear modes, default_fit on/'
        'off, bounds in either order incl. non-positive ones on log parameters; sequences of 3-12 (quick) / 3-60 (thorough) '
        'operations drawn from the 10 operations with unknown names, bad modes, wrong-length vectors, user priors of all four '
        'classes in both spaces, write-back of reported values. distinct non-trivial = distinct operation-kind sequences '
        'that change a setting after a first compile and compile again. sections: [Fitting]/[Derive] text over the same fixtures '
        '(1-4 mentioned parameters, random subsets of fit/bounds/mode/factor/prior lines in random order, yes/no words, prior '
        'strings from the C08 grammar, unknown names, misspelt options, keys without / with two colons, bad priors, shapes outside '
        'the documented ones), parsed by the real ParameterParser and applied by the real setup_optimizer; distinct = (option set, '
        'outcome)')
ASSUMPTIONS = ['math.log10 raises ValueError exactly for x <= 0; 10**x on Python floats is libm pow (compared to 1e-12)',
               'names are unique across the model and observation tables (hypothesis of compile_history_free)',
               'values, bounds and factors are finite floats, |exponent| <= 30 (NaN/inf/overflow: malformed stream)',
               'scipy ndtri supplies the 10%/90% quantiles behind Gaussian.boundaries()',
               'parameter getters/setters of the fixture are plain attribute accessors; those of the real forward model are the '
               'package\'s own closures / properties (planet_sma, a second name for the value behind planet_distance, is dropped '
               'from its table)',
               'sections: values enter the model as ParameterParser.transform typed them (ConfigObj parsing and transform are '
               'exercised, not modelled; the yes/no meaning of fit/compute values is checked against the written text); '
               'create_prior is the C08 model (parsePrior + createPrior, literals converted by Float.ofScientific); bounds/factor '
               'that are not a pair of numbers and a mode that is not a string are outside the documented shapes (malformed stream)',
               'derived-parameter names of model and observation are disjoint (hypothesis DisjD of the section theorems)']

KINDS = ['Uniform', 'LogUniform', 'Gaussian', 'LogGaussian']
OPCODE = dict(enable_fit=0, disable_fit=1, set_mode=2, set_boundary=3, set_factor_boundary=4, set_prior=5,
              enable_derived=6, disable_derived=7, compile=8, update_model=9)


# ----------------------------------------------------------------------------- source tie (harness/translate_py.py)
# The retrieval set-up code of taurex/optimizer/optimizer.py, regenerated as Lean on every run (TaurexModel/Gen/SrcC07.lean)
# and proved equal to TaurexModel/OptimizerSM.lean in Props/C07Src.lean.
#   ν names, L latex strings, G / S the bound getters / setters stored in the parameter tuples (opaque; calling one reads /
#   writes the WORLD `w : W`, the attribute values behind them), ρ prior objects (opaque: constructors, `prior`, `priorMode`
#   are function parameters, tied to taurex/core/priors.py by Props/C08Src.lean).
_OPT = 'taurex/optimizer/optimizer.py'
_PP = 'taurex/parameter/parameterparser.py'
_TV = {'ν': 'deq', 'L': '', 'G': dict(call=('read', [], 'α'), lean='call_fget'),
       'S': dict(call=('write', ['α'], 'unit'), lean='call_fset'), 'ρ': '', 'W': ''}
_TY = {'T7': '($ν, $L, $G, $S, str, bool, (α, α))', 'T4': '($ν, $L, $G, bool)'}
_AT = {'self._model.fittingParameters': ('model_fp', '{$ν: T7}'),
       'self._observed.fittingParameters': ('obs_fp', '{$ν: T7}'),
       'self._model.derivedParameters': ('model_dp', '{$ν: T4}'),
       'self._observed.derivedParameters': ('obs_dp', '{$ν: T4}'),
       'self._user_priors': ('user_priors', '{$ν: $ρ}'), 'self._fit_priors': ('fit_priors', '{$ν: $ρ}'),
       'self.fitting_parameters': ('fitting_parameters', '[T7]'), 'self.fitting_priors': ('fitting_priors', '[$ρ]'),
       'self.derived_parameters': ('derived_parameters', '[T4]')}
_REFS = {'self._model': 0, 'self._observed': 1}
_ENUM = {'PriorMode.LINEAR': ('PriorMode', 0), 'PriorMode.LOG': ('PriorMode', 1)}
_PRIOR_OBJ = dict(obj_attrs={'ρ': {'priorMode': dict(lean='priorMode', ty='enum:PriorMode')}},
                  obj_methods={'ρ': {'prior': dict(lean='prior_prior', args=['α'], ret='α')}}, enums=_ENUM)
_LOG10 = {'math.log10()': dict(lean='math_log10', args=['α'], ret='α', raises=True)}
_FP = ['self._model.fittingParameters', 'self._observed.fittingParameters']
_DP = ['self._model.derivedParameters', 'self._observed.derivedParameters']


def _m(func, **kw):
    d = dict(module=_OPT, cls='Optimizer', func=func, lean='Optimizer_' + func, dialect='py', tvars=_TV, types=_TY, attrs=_AT,
             refs=_REFS, world=('w', 'W'), params={})
    d.update(kw)
    return d


SRC_SPECS = [
    dict(module=_OPT, func='compile_params', lean='compile_params', callname='compile_params', dialect='py', tvars=_TV,
         types=_TY, params=dict(fitparams='{$ν: T7}', driveparams='{$ν: T4}', fit_priors='{$ν: $ρ}'),
         mutates=['fit_priors'],
         externals={'LogUniform(lin_bounds=)': dict(lean='LogUniform_lin', args=['(α, α)'], ret='$ρ', raises=True),
                    'Uniform(bounds=)': dict(lean='Uniform_bounds', args=['(α, α)'], ret='$ρ')}),
    _m('compile_params', state=['self._fit_priors', 'self.fitting_parameters', 'self.fitting_priors',
                                'self.derived_parameters']),
    _m('update_model', params=dict(fit_params='[α]'), writes_world=True, **_PRIOR_OBJ),
    _m('fit_values', externals=_LOG10, **_PRIOR_OBJ),
    _m('fit_boundaries', externals=_LOG10, **_PRIOR_OBJ),
    _m('fit_names', tvars=dict(_TV, **{'ν': None}), types={'T7': '(str, $L, $G, $S, str, bool, (α, α))'},
       attrs={'self._fit_priors': ('fit_priors', '{str: $ρ}'),
              'self.fitting_parameters': ('fitting_parameters', '[T7]')}, **_PRIOR_OBJ),
    _m('derived_names'),
    _m('enable_fit', params=dict(parameter='$ν'), state=_FP),
    _m('disable_fit', params=dict(parameter='$ν'), state=_FP),
    _m('enable_derived', params=dict(parameter='$ν'), state=_DP),
    _m('disable_derived', params=dict(parameter='$ν'), state=_DP),
    _m('set_boundary', params=dict(parameter='$ν', new_boundaries='(α, α)'), state=_FP),
    _m('set_factor_boundary', params=dict(parameter='$ν', factors='(α, α)'), state=_FP),
    _m('set_mode', params=dict(parameter='$ν', new_mode='str'), state=_FP),
    _m('set_prior', params=dict(parameter='$ν', prior='$ρ'), state=['self._user_priors', 'self._fit_priors']),
    # the glue between an input file and the optimizer (taurex/parameter/parameterparser.py), dialect `dyn`
    # (harness/translate_dyn.py): tied to TaurexModel/FittingSection.lean in Props/C07Src.lean (oracle: Proofs/C07SrcFitting.lean)
    dict(module=_PP, cls='ParameterParser', func='generate_fitting_parameters', lean='generate_fitting_parameters',
         callname='generate_fitting_parameters', dialect='dyn'),
    dict(module=_PP, cls='ParameterParser', func='generate_derived_parameters', lean='generate_derived_parameters',
         callname='generate_derived_parameters', dialect='dyn'),
    dict(module=_PP, cls='ParameterParser', func='setup_optimizer', lean='setup_optimizer', dialect='dyn',
         calls={'self.generate_fitting_parameters': 'generate_fitting_parameters',
                'self.generate_derived_parameters': 'generate_derived_parameters'}),
]


def z1090():
    from scipy.special import ndtri
    return float(ndtri(0.1)), float(ndtri(0.9))


# ----------------------------------------------------------------------------- fixture: real Fittable objects
class FixtureDefect(Exception):
    """the REAL objects built for a case do not hold what they declare (the table the optimizer reads lacks a declared
    parameter, carries other settings than declared, …): judged as a violation by the caller, never an infrastructure error"""

    def __init__(self, key, what, detail=None):
        super().__init__(what)
        self.key, self.what, self.detail = key, what, detail


def _make_props(params, derived):
    from taurex.core import fitparam, derivedparam
    ns = {}
    for i, (name, mode, fit, bounds, value) in enumerate(params):
        attr = '_v_' + name

        def getter(self, _a=attr):
            return getattr(self, _a)

        def setter(self, v, _a=attr):
            setattr(self, _a, v)
        kw = dict(param_name=name, param_latex='$%s$' % name, default_mode=mode, default_fit=fit, default_bounds=list(bounds))
        # both documented forms of the decorator: direct `fitparam(f, …)` and keyword-only `@fitparam(…)`
        prop = fitparam(getter, **kw) if i % 2 == 0 else fitparam(**kw)(getter)
        ns['p_' + name] = prop.setter(setter)
    for name, compute in derived:
        def dget(self):
            return 1.0
        ns['d_' + name] = derivedparam(dget, param_name=name, param_latex='$%s$' % name, compute=compute)
    return ns


def make_pair(cfg):
    """cfg: dict(model=[(name, mode, fit, (b0, b1), value)], obs=[…], dmodel=[(name, compute)], dobs=[…], ndyn, composite)
    Returns (model, observation) built from the repo's own ForwardModel / BaseSpectrum / Fittable machinery."""
    from taurex.model import ForwardModel
    from taurex.spectrum import BaseSpectrum
    from taurex.data.fittable import Fittable
    if cfg.get('real'):
        return make_real_pair(cfg)
    mparams = [tuple(p) for p in cfg['model']]
    modb = [tuple(h) for h in (cfg.get('modb') or [])]      # (owner, name, (b0, b1), when): Fittable.modify_bounds calls
    ndyn = min(int(cfg.get('ndyn', 0)), len(mparams))
    composite = bool(cfg.get('composite')) and len(mparams) - ndyn >= 2
    deco = mparams[:len(mparams) - ndyn]
    dyn = mparams[len(mparams) - ndyn:]
    comp_part = deco[len(deco) // 2:] if composite else []
    own_part = deco[:len(deco) // 2] if composite else deco

    def init_values(self, ps):
        for name, mode, fit, bounds, value in ps:
            setattr(self, '_v_' + name, value)

    class Component(Fittable):
        def __init__(self):
            init_values(self, comp_part)
            super().__init__()
    for k, v in _make_props(comp_part, []).items():
        setattr(Component, k, v)

    class VModel(ForwardModel):
        def __init__(self):
            init_values(self, own_part + dyn)
            super().__init__('VModel')
            for name, mode, fit, bounds, value in dyn:
                attr = '_v_' + name

                def fget(s, _a=attr):
                    return getattr(s, _a)

                def fset(s, v, _a=attr):
                    setattr(s, _a, v)
                self.add_fittable_param(name, '$%s$' % name, fget, fset, mode, fit, list(bounds))
            if composite:
                self._component = Component()
            # boundaries the object derives for itself in its constructor (as LightCurveModel does from its data)
            for owner, name, b, when in modb:
                if owner == 'model' and when == 'init':
                    tgt = self._component if (composite and name in [p[0] for p in comp_part]) else self
                    tgt.modify_bounds(name, list(b))
            if composite:
                # same collection scheme as SimpleForwardModel.collect_fitting_parameters
                self._fitting_parameters = {}
                self._fitting_parameters.update(self.fitting_parameters())
                self._fitting_parameters.update(self._component.fitting_parameters())
                # keep the table order of the configuration
                order = [p[0] for p in mparams]
                self._fitting_parameters = {k: self._fitting_parameters[k] for k in order}

        def build(self):
            pass

        def model(self, wngrid=None, cutoff_grid=True):
            x = np.linspace(1, 2, 3)
            return x, x * 0, None, None
    for k, v in _make_props(own_part, [tuple(d) for d in cfg['dmodel']]).items():
        setattr(VModel, k, v)

    class VObs(BaseSpectrum):
        def __init__(self):
            init_values(self, [tuple(p) for p in cfg['obs']])
            super().__init__('VObs')
            for owner, name, b, when in modb:
                if owner == 'obs' and when == 'init':
                    self.modify_bounds(name, list(b))

        def create_binner(self):
            from taurex.binning import NativeBinner
            return NativeBinner()
        spectrum = property(lambda self: np.zeros(3))
        wavenumberGrid = property(lambda self: np.linspace(1, 2, 3))
        errorBar = property(lambda self: np.ones(3))
    for k, v in _make_props([tuple(p) for p in cfg['obs']], [tuple(d) for d in cfg['dobs']]).items():
        setattr(VObs, k, v)
    m = VModel()
    o = VObs()
    for owner, name, b, when in modb:
        if when == 'later':
            (m if owner == 'model' else o).modify_bounds(name, list(b))
    for what, obj, decl in (('model', m, mparams), ('observation', o, [tuple(p) for p in cfg['obs']])):
        if list(obj.fittingParameters) != [p[0] for p in decl]:
            raise FixtureDefect('declared-table:names:' + what,
                                'the table the optimizer reads (%s.fittingParameters) does not hold the parameters the %s '
                                'declares (decorated ones, then those added with add_fittable_param in its constructor)'
                                % (what, what), dict(table=list(obj.fittingParameters), declared=[p[0] for p in decl]))
    return m, o


def declared_rows(cfg, owner):
    """(name, mode, fit, b0, b1) the object of `owner` declares: its declarations with the last modify_bounds applied"""
    rows = []
    for name, mode, fit, bounds, value in (cfg['model'] if owner == 'model' else cfg['obs']):
        b = tuple(bounds)
        for ow, n, nb, when in (cfg.get('modb') or []):
            if ow == owner and n == name:
                b = tuple(nb)
        rows.append((name, 0 if mode == 'linear' else 1, bool(fit), float(b[0]), float(b[1])))
    return rows


def check_declared(ctx, cfg, model, obs, case):
    """the tables the optimizer is going to read are the declared ones: names and order, mode, fit flag, and the bounds of
    the last modify_bounds — against FittableTable.declaredTable (driver) and directly.  False = a violation was raised."""
    ok = True
    for owner, obj in (('model', model), ('obs', obs)):
        if owner == 'model' and cfg.get('real'):
            continue
        rows = declared_rows(cfg, owner)
        decls = cfg['model'] if owner == 'model' else cfg['obs']
        hist = [(n, b) for ow, n, b, when in (cfg.get('modb') or []) if ow == owner]
        got = [(n, m, f, b0, b1) for n, m, f, b0, b1, v in table_view(obj)]
        d = ctx.model().call('c07.table',
                             C.L(decls, lambda p: ' '.join([C.S(p[0]), '1 ' + C.N(0 if p[1] == 'linear' else 1),
                                                            '1 ' + C.N(1 if p[2] else 0),
                                                            '1 %s %s' % (C.F(p[3][0]), C.F(p[3][1]))])),
                             C.L(hist, lambda h: ' '.join([C.S(h[0]), C.F(h[1][0]), C.F(h[1][1])])))
        mt = d.list(lambda: (d.str(), d.nat(), d.bool(), d.flt(), d.flt())) if d.nat() else None
        ctx.check_eq('%s table (names, modes, fit flags, bounds) vs FittableTable.declaredTable' % owner, got, mt,
                     dict(cfg=cfg, owner=owner))
        if got != rows:
            bad = [(g, w) for g, w in zip(got, rows) if g != w][:1]
            what = 'bounds' if bad and bad[0][0][:3] == bad[0][1][:3] else 'settings'
            ctx.violation('declared-table:%s:%s' % (what, owner if owner == 'model' else 'observation'),
                          'the table the optimizer reads does not carry the declared settings (mode, fit flag, and the '
                          'boundaries of the last modify_bounds) of every declared parameter', case,
                          dict(table=got, declared=rows))
            ok = False
        for ow, n, b, when in (cfg.get('modb') or []):
            if ow == owner:
                ctx.bucket('declared:modify_bounds:%s:%s' % (owner, when))
    if not cfg.get('real'):
        ctx.bucket('declared:dynamic-params:%d' % min(int(cfg.get('ndyn', 0)), len(cfg['model'])))
    return ok


REAL_T = ['isothermal', 'npoint1', 'npoint2', 'npoint3', 'guillot', 'rodgers']
REAL_GAS = ['constant', 'twolayer', 'twopoint', 'power']
REAL_MOL = ['H2O', 'CH4', 'CO2', 'TiO']
REAL_CONTRIB = ['clouds', 'flatmie', 'leemie']


def gen_real_variant(rng):
    """which of the repo's own components make up the real forward model: every component that declares fitting parameters
    through closures over its own attributes (add_fittable_param: gas profiles, N-point / Rodgers temperature nodes, the
    fill-gas ratio) or through the decorator (planet, pressure, Guillot, clouds, Mie)"""
    ngas = int(rng.integers(1, 4))
    mols = [REAL_MOL[i] for i in rng.permutation(4)[:ngas]]
    gases = [[m, REAL_GAS[int(rng.integers(0, 4))]] for m in mols]
    contribs = [c for c in REAL_CONTRIB if rng.random() < 0.35]
    return dict(t=REAL_T[int(rng.integers(0, len(REAL_T)))], gases=gases, contribs=contribs,
                fill=['H2', 'He'] if rng.random() < 0.7 else ['H2', 'He', 'N2'])


def build_real_model(variant):
    from taurex.model import TransmissionModel
    from taurex.planet import Planet
    from taurex.stellar import BlackbodyStar
    from taurex.temperature import Isothermal, NPoint, Guillot2010, Rodgers2000
    from taurex.chemistry import TaurexChemistry, ConstantGas, TwoLayerGas
    from taurex.data.profiles.chemistry import PowerGas
    from taurex.data.profiles.chemistry.gas.twopointgas import TwoPointGas
    from taurex.pressure import SimplePressureProfile
    from taurex.contributions import SimpleCloudsContribution, FlatMieContribution, LeeMieContribution
    if variant is True:
        variant = dict(t='isothermal', gases=[['H2O', 'constant'], ['CH4', 'constant']], contribs=[], fill=['H2', 'He'],
                       legacy=True)
    t = variant['t']
    # variant['numeric'] == 'ints': every whole-valued number is handed to the component constructors as a Python int
    # (scalars and the entries of node lists alike), as a script author types them; the default is floats throughout
    W = (lambda x: int(x)) if variant.get('numeric') == 'ints' else (lambda x: float(x))
    if t == 'isothermal':
        tp = Isothermal(T=W(1200))
    elif t.startswith('npoint'):
        k = int(t[-1])
        tp = NPoint(T_surface=W(1500), T_top=W(300), P_surface=W(10 ** 6), P_top=1e-2,
                    temperature_points=[W(1100), W(900), W(700)][:k], pressure_points=[W(10 ** 4), W(10 ** 3), W(10 ** 2)][:k])
    elif t == 'guillot':
        tp = Guillot2010(T_irr=W(1500), kappa_irr=0.01, kappa_v1=0.005, kappa_v2=0.004, alpha=0.5, T_int=W(100))
    else:
        tp = Rodgers2000(temperature_layers=[W(1000), W(900), W(800)], correlation_length=W(5))    # one per layer (3 layers)
    fill = list(variant.get('fill') or ['H2', 'He'])
    chem = TaurexChemistry(fill_gases=fill, ratio=0.17 if len(fill) == 2 else [0.17, 0.02])
    for j, (mol, kind) in enumerate(variant['gases']):
        if variant.get('legacy'):
            chem.addGas(ConstantGas(mol, [1e-4, 1e-5][j]))
        elif kind == 'constant':
            chem.addGas(ConstantGas(mol, mix_ratio=1e-4 / (j + 1)))
        elif kind == 'twolayer':
            chem.addGas(TwoLayerGas(mol, mix_ratio_surface=1e-4, mix_ratio_top=1e-6 / (j + 1), mix_ratio_P=W(1000)))
        elif kind == 'twopoint':
            chem.addGas(TwoPointGas(mol, mix_ratio_surface=2e-4, mix_ratio_top=1e-7 / (j + 1)))
        else:
            chem.addGas(PowerGas(mol, profile_type='TiO', mix_ratio_surface=1e-7, alpha=1.5, beta=W(20000), gamma=12.0))   # (an int gamma makes build() raise in np.power(10, -gamma): not this property)
    tm = TransmissionModel(planet=Planet(), star=BlackbodyStar(), temperature_profile=tp, chemistry=chem,
                           pressure_profile=SimplePressureProfile(nlayers=3), nlayers=3)
    for c in variant['contribs']:
        tm.add_contribution(dict(clouds=lambda: SimpleCloudsContribution(clouds_pressure=W(1000)),
                                 flatmie=lambda: FlatMieContribution(flat_mix_ratio=1e-10, flat_bottomP=W(10000), flat_topP=W(10)),
                                 leemie=lambda: LeeMieContribution(lee_mie_radius=0.01, lee_mie_q=W(40), lee_mie_mix_ratio=1e-10,
                                                                   lee_mie_bottomP=W(10000), lee_mie_topP=W(10)))[c]())
    tm.build()
    return tm


def make_real_pair(cfg):
    """a real TransmissionModel (planet, star, a temperature profile, TaurexChemistry with one to three gas profiles of the
    repo's own kinds, optional cloud / Mie contributions; no opacity data is needed to build it) whose table is assembled by
    SimpleForwardModel.collect_fitting_parameters, and the fixture observation.  `cfg['real']` is True (isothermal, two
    ConstantGas: the first fixture) or a variant description (gen_real_variant).  `planet_sma` is dropped from the table:
    it is a second name for the attribute behind `planet_distance`, and two names for one value are outside the
    one-value-per-name state of the model."""
    tm = build_real_model(cfg['real'])
    del tm.fittingParameters['planet_sma']
    if cfg.get('model'):
        if [p[0] for p in cfg['model']] != list(tm.fittingParameters):
            raise FixtureDefect('parameter-table-changed:real-model',
                                'the real forward model built from the same components no longer collects the parameters the '
                                'case was recorded with', dict(table=list(tm.fittingParameters),
                                                               recorded=[p[0] for p in cfg['model']]))
        for name, mode, fit, bounds, value in cfg['model']:
            t = tm.fittingParameters[name]
            tm.fittingParameters[name] = (t[0], t[1], t[2], t[3], mode, bool(fit), list(bounds))
            if t[2]() != value:
                t[3](value)
    if cfg.get('dmodel'):
        for name, compute in cfg['dmodel']:
            t = tm.derivedParameters[name]
            tm.derivedParameters[name] = (t[0], t[1], t[2], bool(compute))
    _, o = make_pair(dict(cfg, real=False, model=[], dmodel=[], ndyn=0, composite=False))
    return tm, o


def build_prior(ctor):
    from taurex.core.priors import Uniform, LogUniform, Gaussian, LogGaussian
    k = ctor['k']
    if k == 0:
        return Uniform(bounds=list(ctor['a']))
    if k == 1:
        return LogUniform(bounds=list(ctor['a']))
    if k == 2:
        return LogUniform(lin_bounds=list(ctor['a']))
    if k == 3:
        return Gaussian(mean=ctor['a'][0], std=ctor['a'][1])
    if k == 4:
        return LogGaussian(mean=ctor['a'][0], std=ctor['a'][1])
    if k == 5:
        return LogGaussian(lin_mean=ctor['a'][0], std=ctor['a'][1])
    raise ValueError(k)


# ----------------------------------------------------------------------------- observation of the real objects
def table_view(obj):
    return [(t[0], 0 if t[4] == 'linear' else (1 if t[4] == 'log' else 2), bool(t[5]), float(t[6][0]), float(t[6][1]),
             float(t[2]())) for t in obj.fittingParameters.values()]


def derived_view(obj):
    return [(t[0], bool(t[3])) for t in obj.derivedParameters.values()]


def observe(opt, model, obs):
    from taurex.core.priors import PriorMode
    o = dict(model=table_view(model), obs=table_view(obs), dmodel=derived_view(model), dobs=derived_view(obs))
    try:
        o['names'] = list(opt.fit_names)
    except KeyError:
        o['names'] = None
    try:
        o['values'] = [float(v) for v in opt.fit_values]
    except ValueError:
        o['values'] = None
    try:
        o['bounds'] = [(float(b[0]), float(b[1])) for b in opt.fit_boundaries]
    except ValueError:
        o['bounds'] = None
    pri = []
    for p in opt.fitting_priors:
        lo, hi = p.boundaries()
        pri.append((KINDS.index(type(p).__name__), float(lo), float(hi)))
    o['priors'] = pri
    try:
        o['derived'] = list(opt.derived_names)
    except AttributeError:
        # `derived_parameters` only exists after the first compile_params(); before it the view is empty
        o['derived'] = []
    return o


def read_obs(d):
    o = dict(out=d.nat())

    def par():
        return (d.nat(), d.bool(), d.flt(), d.flt(), d.flt())
    o['model'] = d.list(par)
    o['obs'] = d.list(par)
    o['dmodel'] = d.list(d.bool)
    o['dobs'] = d.list(d.bool)
    o['names'] = d.opt(lambda: d.list(d.str))
    o['values'] = d.opt(lambda: d.list(d.flt))
    o['bounds'] = d.opt(lambda: d.list(lambda: (d.flt(), d.flt())))

    def pri():
        k = d.nat()
        d.flt()
        d.flt()
        return (k, d.flt(), d.flt())
    o['priors'] = d.list(pri)
    o['derived'] = d.list(d.str)
    return o


def param_tok(p):
    name, mode, fit, bounds, value = p
    return ' '.join([C.S(name), C.N(0 if mode == 'linear' else 1), C.N(1 if fit else 0), C.F(bounds[0]), C.F(bounds[1]),
                     C.F(value)])


def op_tok(op):
    k = op[0]
    c = C.N(OPCODE[k])
    if k in ('enable_fit', 'disable_fit', 'enable_derived', 'disable_derived'):
        return c + ' ' + C.S(op[1])
    if k == 'set_mode':
        return ' '.join([c, C.S(op[1]), C.S(op[2])])
    if k in ('set_boundary', 'set_factor_boundary'):
        return ' '.join([c, C.S(op[1]), C.F(op[2][0]), C.F(op[2][1])])
    if k == 'set_prior':
        return ' '.join([c, C.S(op[1]), C.N(op[2]['k']), C.F(op[2]['a'][0]), C.F(op[2]['a'][1])])
    if k == 'compile':
        return c
    if k == 'update_model':
        return c + ' ' + C.L(op[1])
    raise ValueError(k)


def model_trace(ctx, cfg, ops, pinned=False):
    z10, z90 = z1090()
    d = ctx.model().call('c07.run_pinned' if pinned else 'c07.run', C.F(z10), C.F(z90),
                         C.L(cfg['model'], param_tok), C.L(cfg['obs'], param_tok),
                         C.L(cfg['dmodel'], lambda x: C.S(x[0]) + ' ' + C.N(1 if x[1] else 0)),
                         C.L(cfg['dobs'], lambda x: C.S(x[0]) + ' ' + C.N(1 if x[1] else 0)),
                         C.L(ops, op_tok))
    n = d.nat()
    return [read_obs(d) for _ in range(n)]


def cmp_obs(ctx, what, impl, mod, case):
    """model observation vs real observation after one step"""
    ok = True
    for tab in ('model', 'obs'):
        a = [(m, f) for _, m, f, _, _, _ in impl[tab]]
        b = [(m, f) for m, f, _, _, _ in mod[tab]]
        ok &= ctx.check_eq(what + ': %s table modes and fit flags' % tab, a, b, case)
        a = [x for t in impl[tab] for x in t[3:]]
        b = [x for t in mod[tab] for x in t[2:]]
        ok &= ctx.check_close(what + ': %s table bounds and values' % tab, a, b, case, rel=1e-11)
    ok &= ctx.check_eq(what + ': derived flags', ([c for _, c in impl['dmodel']], [c for _, c in impl['dobs']]),
                       (mod['dmodel'], mod['dobs']), case)
    ok &= ctx.check_eq(what + ': fit_names', impl['names'], mod['names'], case)
    for k in ('values', 'bounds'):
        if impl[k] is None or mod[k] is None:
            ok &= ctx.check_eq(what + ': fit_%s raises' % k, impl[k] is None, mod[k] is None, case)
        else:
            ok &= ctx.check_close(what + ': fit_' + k, [x for t in impl[k] for x in (t if isinstance(t, tuple) else (t,))],
                                  [x for t in mod[k] for x in (t if isinstance(t, tuple) else (t,))], case, rel=1e-11,
                                  abs_=1e-13)
    ok &= ctx.check_eq(what + ': prior classes', [p[0] for p in impl['priors']], [p[0] for p in mod['priors']], case)
    ok &= ctx.check_close(what + ': prior boundaries()', [x for p in impl['priors'] for x in p[1:]],
                          [x for p in mod['priors'] for x in p[1:]], case, rel=1e-11, abs_=1e-13)
    ok &= ctx.check_eq(what + ': derived_names', impl['derived'], mod['derived'], case)
    return ok


# ----------------------------------------------------------------------------- generators
def rnd_val(rng, positive=False):
    r = rng.random()
    if r < 0.3:
        v = float(rng.integers(1, 20))
    elif r < 0.7:
        v = float(rng.uniform(0.05, 50))
    else:
        v = float(10 ** rng.uniform(-8, 8))
    if not positive and rng.random() < 0.3:
        v = -v
    return v


def rnd_bounds(rng, positive):
    a, b = rnd_val(rng, positive), rnd_val(rng, positive)
    if a == b:
        b = a * 2
    if rng.random() < 0.5:
        a, b = min(a, b), max(a, b)
    return (a, b)


def gen_cfg(rng, real_variants=False):
    nm = int(rng.integers(1, 6))
    no = int(rng.integers(0, 4))

    def par(name):
        mode = 'log' if rng.random() < 0.45 else 'linear'
        positive = mode == 'log' and rng.random() < 0.93
        return (name, mode, bool(rng.random() < 0.45), rnd_bounds(rng, positive), rnd_val(rng, positive or rng.random() < 0.5))
    names = ['T', 'H2O', 'planet_radius', 'm3', 'm4'][:nm]
    onames = ['Offset_1', 'Slope_1', 'o2'][:no]
    dm = [('mu', bool(rng.random() < 0.5)), ('logg', bool(rng.random() < 0.3))][:int(rng.integers(0, 3))]
    do = [('avg_err', bool(rng.random() < 0.5))][:int(rng.integers(0, 2))]
    if rng.random() < 0.12:
        real = gen_real_variant(rng) if (real_variants and rng.random() < 0.8) else True
        return dict(real=real, model=None, obs=[par(n) for n in onames], dmodel=None, dobs=do, ndyn=0, composite=False)
    cfg = dict(model=[par(n) for n in names], obs=[par(n) for n in onames], dmodel=dm, dobs=do,
               ndyn=int(rng.integers(0, nm + 1)), composite=bool(rng.random() < 0.4))
    if rng.random() < 0.35:
        # the object changes boundaries of its own parameters with Fittable.modify_bounds: in its constructor ('init') or
        # afterwards ('later'; a collected table - composite - is a snapshot taken at build time, as SimpleForwardModel's)
        modb = []
        for _ in range(int(rng.integers(1, 3))):
            owner = 'obs' if (onames and rng.random() < 0.3) else 'model'
            rows = cfg['obs'] if owner == 'obs' else cfg['model']
            row = rows[int(rng.integers(0, len(rows)))]
            when = 'init' if (rng.random() < 0.5 or (owner == 'model' and cfg['composite'])) else 'later'
            modb.append([owner, row[0], list(rnd_bounds(rng, row[1] == 'log' and rng.random() < 0.93)), when])
        modb.sort(key=lambda h: h[3])      # executed: constructor calls first
        cfg['modb'] = modb
    return cfg


def gen_prior_ctor(rng):
    k = int(rng.integers(0, 6))
    if k in (0,):
        return dict(k=k, a=list(rnd_bounds(rng, False)))
    if k == 1:
        return dict(k=k, a=sorted([float(rng.uniform(-12, 3)), float(rng.uniform(-12, 3))], reverse=bool(rng.random() < 0.3)))
    if k == 2:
        return dict(k=k, a=list(rnd_bounds(rng, True)))
    if k == 3:
        return dict(k=k, a=[rnd_val(rng), abs(rnd_val(rng))])
    if k == 4:
        return dict(k=k, a=[float(rng.uniform(-8, 3)), float(rng.uniform(0.1, 3))])
    return dict(k=k, a=[rnd_val(rng, True), float(rng.uniform(0.1, 3))])


def gen_op(rng, cfg, opt, model, obs, compiled_once, force=None):
    """next operation, looking at the live objects only to stay mostly valid; `force` = 'compile' / 'update_model' fixes
    the kind (directed prefix of the sequences over the real forward model)"""
    fitn = [p[0] for p in cfg['model']] + [p[0] for p in cfg['obs']]
    dern = [d[0] for d in cfg['dmodel']] + [d[0] for d in cfg['dobs']]

    def name(pool, other):
        r = rng.random()
        if r < 0.06:
            return 'no_such_param'
        if r < 0.09 and other:
            return other[int(rng.integers(0, len(other)))]
        if not pool:
            return 'no_such_param'
        return pool[int(rng.integers(0, len(pool)))]
    r = rng.random()
    if force == 'compile':
        return ['compile']
    if force == 'update_model':
        r = 0.95
    if not compiled_once and r < 0.25:
        return ['compile']
    if r < 0.20:
        return ['compile']
    if r < 0.30:
        return ['enable_fit', name(fitn, dern)]
    if r < 0.36:
        return ['disable_fit', name(fitn, dern)]
    if r < 0.46:
        m = ['log', 'linear', 'LOG', 'Linear', 'LoG', 'logarithmic', '', 'lin'][int(rng.choice(8, p=[.3, .3, .1, .1, .05, .05, .05, .05]))]
        return ['set_mode', name(fitn, dern), m]
    if r < 0.57:
        n = name(fitn, dern)
        positive = rng.random() < 0.8
        b = rnd_bounds(rng, positive)
        return ['set_boundary', n, list(b) if rng.random() < 0.5 else list(b)]
    if r < 0.63:
        f = sorted([float(rng.uniform(0.01, 1.0)), float(rng.uniform(1.0, 20))], reverse=bool(rng.random() < 0.2))
        if rng.random() < 0.1:
            f[0] = -f[0]
        return ['set_factor_boundary', name(fitn, dern), f]
    if r < 0.73:
        return ['set_prior', name(fitn, dern), gen_prior_ctor(rng)]
    if r < 0.78:
        return ['enable_derived', name(dern, fitn)]
    if r < 0.82:
        return ['disable_derived', name(dern, fitn)]
    if r < 0.90 and compiled_once:
        return ['writeback']
    # update_model with a vector in the priors' spaces
    from taurex.core.priors import PriorMode
    v = []
    for p in opt.fitting_priors:
        if p.priorMode is PriorMode.LOG:
            v.append(float(rng.uniform(-9, 9)))
        else:
            v.append(rnd_val(rng))
    r = rng.random()
    if force:
        return ['update_model', v]
    if r < 0.08:
        v = v + [1.0]
    elif r < 0.14 and v:
        v = v[:-1]
    # how the vector is handed over (chosen from the drawn numbers themselves, so that no further random draw is used):
    # a list of Python floats, whole numbers as Python ints (all of them / only some), a tuple, a float64 array
    form = VECTOR_FORMS[int(abs(v[0]) * 7919) % len(VECTOR_FORMS)] if v and math.isfinite(v[0]) else 'floats'
    if form in ('ints', 'tuple-of-ints'):
        v = [float(round(x)) for x in v]
    elif form == 'ints-and-floats':
        v = [float(round(x)) if i % 2 == 0 else x for i, x in enumerate(v)]
    return ['update_model', v] if form == 'floats' else ['update_model', v, form]


VECTOR_FORMS = ['floats', 'ints', 'floats', 'float64-array', 'floats', 'tuple-of-ints', 'floats', 'ints-and-floats', 'floats',
                'tuple']


def vector_as(v, form):
    """the parameter vector `v` (floats) as the caller hands it to update_model"""
    if form in ('ints', 'tuple-of-ints'):
        w = [int(x) for x in v]
        assert [float(x) for x in w] == [float(x) for x in v]
        return w if form == 'ints' else tuple(w)
    if form == 'ints-and-floats':
        return [int(x) if float(x) == int(x) and i % 2 == 0 else float(x) for i, x in enumerate(v)]
    if form == 'float64-array':
        return np.array(v, dtype=np.float64)
    if form == 'tuple':
        return tuple(float(x) for x in v)
    return list(v)


# ----------------------------------------------------------------------------- execution on the real code
def apply_real(opt, op, priors_made):
    """returns (out code, exception text)"""
    k = op[0]
    try:
        if k == 'compile':
            opt.compile_params()
        elif k == 'update_model':
            opt.update_model(vector_as(op[1], op[2] if len(op) > 2 else 'floats'))
        elif k == 'set_prior':
            opt.set_prior(op[1], priors_made[id(op)])
        elif k in ('set_boundary', 'set_factor_boundary'):
            getattr(opt, k)(op[1], tuple(op[2]))
        elif k == 'set_mode':
            opt.set_mode(op[1], op[2])
        else:
            getattr(opt, k)(op[1])
        return 0, None
    except KeyError as e:
        return 1, repr(e)
    except ValueError as e:
        return 2, repr(e)
    except Exception as e:
        return 3, repr(e)


def settings_of(model, obs):
    def tab(obj):
        return [(t[0], t[4], bool(t[5]), (t[6][0], t[6][1]), t[2]()) for t in obj.fittingParameters.values()]
    return tab(model), tab(obs)


def fresh_view(cfg, model, obs, user):
    """history-freedom oracle: a brand-new pair + optimizer put directly into the current settings, compiled once"""
    from taurex.optimizer.optimizer import Optimizer
    mt, ot = settings_of(model, obs)
    # the fresh pair is built in the collection order of the configuration, not in whatever order the used object's
    # table has now: a history that re-orders (or drops an entry of) the shared table must show up as a difference between
    # the used optimizer and the fresh one, not as an assertion of ours
    def canon(tab, ref):
        names = [p[0] for p in ref]
        if sorted(names) == sorted(t[0] for t in tab):
            return sorted(tab, key=lambda t: names.index(t[0]))
        return tab
    if cfg.get('model'):
        mt = canon(mt, cfg['model'])
    if cfg.get('obs'):
        ot = canon(ot, cfg['obs'])
    cfg2 = dict(cfg, model=mt, obs=ot, dmodel=derived_view(model), dobs=derived_view(obs), modb=[])
    m2, o2 = make_pair(cfg2)
    opt2 = Optimizer('fresh', observed=o2, model=m2)
    for n, p in user.items():
        opt2.set_prior(n, p)
    try:
        opt2.compile_params()
        out = 0
    except ValueError:
        out = 2
    v = observe(opt2, m2, o2)
    v['prior_objs'] = list(opt2.fitting_priors)
    return out, v


def run_sequence(ctx, case, gen=None):
    """execute (and, when `gen` is given, generate) one operation sequence; compare with the model; judge predicates"""
    from taurex.optimizer.optimizer import Optimizer
    from taurex.core.priors import PriorMode
    cfg = case['cfg']
    cfg = dict(cfg, model=[(p[0], p[1], bool(p[2]), tuple(p[3]), float(p[4])) for p in (cfg.get('model') or [])],
               obs=[(p[0], p[1], bool(p[2]), tuple(p[3]), float(p[4])) for p in cfg['obs']],
               dmodel=[tuple(d) for d in (cfg.get('dmodel') or [])], dobs=[tuple(d) for d in cfg['dobs']])
    case0 = dict(cfg=cfg, ops=[list(o) for o in case.get('ops', [])])
    try:
        model, obs = make_pair(cfg)
    except FixtureDefect as e:
        ctx.violation(e.key, e.what, case0, e.detail)
        ctx.case(key=None, bucket='aborted')
        return case0
    if not check_declared(ctx, cfg, model, obs, case0):
        ctx.case(key=None, bucket='aborted')
        return case0
    # the initial state handed to the model is read from the objects (for the real forward model: its own defaults)
    mt, ot = settings_of(model, obs)
    cfg = dict(cfg, model=[(n, m, f, (float(b[0]), float(b[1])), float(v)) for n, m, f, b, v in mt],
               obs=[(n, m, f, (float(b[0]), float(b[1])), float(v)) for n, m, f, b, v in ot],
               dmodel=derived_view(model), dobs=derived_view(obs))
    opt = Optimizer('verif', observed=obs, model=model)
    ops_in = None if gen else [list(o) for o in case['ops']]
    n_ops = gen['n'] if gen else len(ops_in)
    done = []            # operations as executed (writeback resolved into update_model)
    recorded = []        # operations as stored in the case
    real = [observe(opt, model, obs)]
    outs = [0]
    user = {}
    priors_made = {}
    compiled_once = False
    changed_after_compile = False
    recompiled_after_change = False
    small = dict(cfg=cfg)
    fitnames = set(p[0] for p in cfg['model']) | set(p[0] for p in cfg['obs'])
    dernames = set(d[0] for d in cfg['dmodel']) | set(d[0] for d in cfg['dobs'])
    for i in range(n_ops):
        forced = (gen.get('force') or []) if gen else []
        op = gen_op(gen['rng'], cfg, opt, model, obs, compiled_once, force=forced[i] if i < len(forced) else None) \
            if gen else ops_in[i]
        recorded.append(op)
        before = real[-1]
        ex = op
        if op[0] == 'writeback':
            try:
                ex = ['update_model', [float(v) for v in opt.fit_values]]
            except ValueError:
                ex = ['compile']
        if ex[0] == 'set_prior':
            try:
                priors_made[id(ex)] = build_prior(ex[2])
            except ValueError:
                ctx.malformed_outcome('prior-ctor-domain')
                recorded.pop()
                continue
        out, err = apply_real(opt, ex, priors_made)
        done.append(ex)
        outs.append(out)
        here = dict(small, ops=recorded[:], step=len(done), op=ex)
        k = ex[0]
        if out == 3:
            ctx.violation('unexpected-exception:' + ('writeback' if op[0] == 'writeback' else k),
                          'an operation inside the quantifier raised something other than KeyError/ValueError', here,
                          dict(error=err))
            ctx.case(key=None, bucket='aborted')
            return dict(cfg=cfg, ops=recorded)
        try:
            after = observe(opt, model, obs)
        except Exception as e:   # a table entry or a public view is no longer well formed
            ctx.violation('observable-raises:' + k, 'after this operation a parameter tuple is malformed or a public view '
                          '(fit_names/fit_values/fit_boundaries/boundaries()/derived_names) raises an unexpected exception',
                          here, dict(error=repr(e)))
            ctx.case(key=None, bucket='aborted')
            return dict(cfg=cfg, ops=recorded)
        real.append(after)
        ctx.bucket('op:%s:%s' % (k, ['ok', 'KeyError', 'ValueError'][out]))
        # ------------------------------------------------ predicates on the implementation
        settings_b = (before['model'], before['obs'], before['dmodel'], before['dobs'])
        settings_a = (after['model'], after['obs'], after['dmodel'], after['dobs'])
        compiled_b = (before['names'], before['bounds'], before['priors'], before['derived'])
        compiled_a = (after['names'], after['bounds'], after['priors'], after['derived'])
        if k in ('enable_fit', 'disable_fit', 'set_mode', 'set_boundary', 'set_factor_boundary', 'set_prior'):
            unknown = ex[1] not in fitnames
        elif k in ('enable_derived', 'disable_derived'):
            unknown = ex[1] not in dernames
        else:
            unknown = False
        if unknown:
            if out == 0:
                ctx.violation('unknown-name-accepted:' + k, 'an operation naming an unknown parameter did not raise', here)
            if settings_a != settings_b or compiled_a != compiled_b:
                ctx.violation('unknown-name-mutates:' + k, 'a failing operation on an unknown name changed the set-up', here)
        elif k in ('enable_fit', 'disable_fit', 'set_mode', 'set_boundary', 'set_factor_boundary'):
            # settings operations: exactly the named slot of the named parameter changes
            want = []
            for tab in ('model', 'obs'):
                rows = []
                for (n, m, f, b0, b1, v) in before[tab]:
                    first_owner = 'model' if any(r[0] == ex[1] for r in before['model']) else 'obs'
                    if n == ex[1] and tab == first_owner and out == 0:
                        if k == 'enable_fit':
                            f = True
                        elif k == 'disable_fit':
                            f = False
                        elif k == 'set_mode':
                            m = 0 if ex[2].lower() == 'linear' else 1
                        elif k == 'set_boundary':
                            b0, b1 = float(ex[2][0]), float(ex[2][1])
                        else:
                            b0, b1 = ex[2][0] * v, ex[2][1] * v
                    rows.append((n, m, f, b0, b1, v))
                want.append(rows)
            bad_mode = k == 'set_mode' and ex[2].lower() not in ('log', 'linear')
            if (out != 0) != bad_mode:
                ctx.violation('settings-op-outcome:' + k, 'wrong outcome of a settings operation on a known parameter', here,
                              dict(out=out))
            if [after['model'], after['obs']] != want or (after['dmodel'], after['dobs']) != (before['dmodel'], before['dobs']):
                ctx.violation('settings-op-frame:' + k, 'a settings operation changed something other than the named slot '
                              'of the named parameter (or did not change that)', here,
                              dict(got=[after['model'], after['obs']], want=want))
            if compiled_a != compiled_b:
                ctx.violation('settings-op-compiled:' + k, 'a settings operation changed the compiled view', here)
        elif k in ('enable_derived', 'disable_derived'):
            want = [[(n, (k == 'enable_derived') if (n == ex[1] and out == 0) else c) for n, c in before[t]]
                    for t in ('dmodel', 'dobs')]
            if out != 0 or [after['dmodel'], after['dobs']] != want or (after['model'], after['obs']) != (before['model'], before['obs']):
                ctx.violation('derived-op:' + k, 'enable/disable_derived did not set exactly the named compute flag', here,
                              dict(out=out, got=[after['dmodel'], after['dobs']], want=want))
        elif k == 'set_prior':
            if out != 0 or settings_a != settings_b:
                ctx.violation('set-prior', 'set_prior on a known parameter failed or changed parameter settings', here)
        if k == 'set_prior' and out == 0:
            user[ex[1]] = priors_made[id(ex)]
        if k == 'update_model':
            nfit = len(opt.fitting_parameters)
            ctx.bucket('update_model:vector-given-as:' + (ex[2] if len(ex) > 2 else 'floats') +
                       (':with-negative-entry-for-a-log-space-prior' if len(ex[1]) == nfit and any(
                           v < 0 and p.priorMode is PriorMode.LOG for v, p in zip(ex[1], opt.fitting_priors)) else ''))
            if len(ex[1]) != nfit:
                if out != 2 or settings_a != settings_b:
                    ctx.violation('update-length', 'update_model with a vector of the wrong length must raise ValueError and '
                                  'change nothing', here, dict(out=out))
            else:
                # frame condition: fitted parameters get prior(v_i), nothing else moves
                targets = {}
                for v, c, p in zip(ex[1], opt.fitting_parameters, opt.fitting_priors):
                    owner = 'model' if c[0] in model.fittingParameters and model.fittingParameters[c[0]][2] == c[2] else 'obs'
                    targets[(owner, c[0])] = 10 ** v if p.priorMode is PriorMode.LOG else v
                for tab in ('model', 'obs'):
                    for rb, ra in zip(before[tab], after[tab]):
                        if rb[:5] != ra[:5]:
                            ctx.violation('update-frame:settings', 'update_model changed a mode/fit flag/bound', here,
                                          dict(before=rb, after=ra))
                        if (tab, rb[0]) in targets:
                            if not C.close(ra[5], targets[(tab, rb[0])], rel=1e-12):
                                ctx.violation('update-value', 'update_model did not store the prior-transformed value', here,
                                              dict(name=rb[0], got=ra[5], want=targets[(tab, rb[0])]))
                        elif ra[5] != rb[5]:
                            ctx.violation('update-frame:value', 'update_model changed a parameter that is not fitted', here,
                                          dict(name=rb[0], before=rb[5], after=ra[5]))
                if out != 0:
                    ctx.violation('update-raises', 'update_model raised on a vector of the right length', here, dict(err=err))
                if op[0] == 'writeback':
                    for tab in ('model', 'obs'):
                        for rb, ra in zip(before[tab], after[tab]):
                            if not C.close(ra[5], rb[5], rel=1e-12):
                                ctx.violation('writeback', 'writing the reported fit_values back changed a parameter', here,
                                              dict(name=rb[0], before=rb[5], after=ra[5]))
                    ctx.bucket('writeback')
        if k == 'compile':
            if compiled_once and changed_after_compile:
                recompiled_after_change = True
            compiled_once = True
            judge_compile(ctx, cfg, opt, model, obs, user, out, after, here)
        elif out == 0 and k != 'update_model' and compiled_once:
            changed_after_compile = True
    # ---------------------------------------------------- correspondence with the model
    case_out = dict(cfg=cfg, ops=recorded)
    try:
        mod = model_trace(ctx, cfg, done)
    except C.ModelError as e:
        ctx.mismatch('model driver accepts the sequence', case_out, dict(error=str(e)))
        mod = []
    good = len(mod) == len(real)
    for i, (r, m) in enumerate(zip(real, mod)):
        what = 'after %s' % (done[i - 1][0] if i else 'init')
        c = dict(case_out, step=i)
        good &= ctx.check_eq(what + ': outcome (ok/KeyError/ValueError)', outs[i], m['out'], c)
        good &= cmp_obs(ctx, what, r, m, c)
        if not good:
            break
    kinds = tuple(o[0] for o in recorded)
    ctx.case(key=kinds if recompiled_after_change else None,
             sample=dict(cfg=cfg, ops=recorded[:6], names=real[-1]['names'], values=real[-1]['values']),
             bucket='len:%d' % (10 * (len(recorded) // 10)))
    if recompiled_after_change:
        ctx.bucket('recompiled-after-change')
    ctx.bucket('fixture:' + ('TransmissionModel' if cfg.get('real') else ('composite' if cfg.get('composite') else 'flat')))
    if isinstance(cfg.get('real'), dict):
        v = cfg['real']
        ctx.bucket('real:temperature:' + v['t'])
        if v.get('numeric'):
            ctx.bucket('real:constructed-with:%s:%s' % (v['numeric'], v['t']))
        for mol, kind in v['gases']:
            ctx.bucket('real:gas:' + kind)
        for c in v['contribs']:
            ctx.bucket('real:contribution:' + c)
        written = set()
        for o in done:
            if o[0] == 'update_model' and len(o[1]) == len(opt.fitting_parameters):
                written.update(c[0] for c in opt.fitting_parameters)
        gas = {mol: kind for mol, kind in v['gases']}
        for n in sorted(written):
            mol = n.split('_')[0]
            if mol in gas:
                n = 'gas:%s:<mol>%s' % (gas[mol], n[len(mol):])
            ctx.bucket('real:written:' + (n if not n[-1].isdigit() else n.rstrip('0123456789') + 'N'))
    return case_out


def judge_compile(ctx, cfg, opt, model, obs, user, out, after, here):
    """the property's statements about a compilation, on the real objects"""
    from taurex.core.priors import PriorMode, Uniform, LogUniform
    # (1) history freedom: same as a fresh optimizer put into the current settings
    # the tables of parameters are fixed by the objects: no settings operation adds, drops or moves an entry between the
    # model's and the observation's table
    for what, tab, ref in (('model', model.fittingParameters, cfg.get('model')), ('observation', obs.fittingParameters,
                                                                              cfg.get('obs'))):
        if ref and sorted(p[0] for p in ref) != sorted(tab):
            ctx.violation('parameter-table-changed:' + what,
                          'the history of settings operations changed WHICH parameters the %s owns (its table now has %r, the '
                          'object declares %r)' % (what, sorted(tab), sorted(p[0] for p in ref)), here)
            return
    fout, fresh = fresh_view(cfg, model, obs, user)
    keys = ('names', 'values', 'bounds', 'priors', 'derived')
    same = fout == out and all(
        (fresh[k] == after[k]) if k in ('names', 'derived') or fresh[k] is None or after[k] is None
        else C.close([x for t in fresh[k] for x in (t if isinstance(t, tuple) else (t,))],
                     [x for t in after[k] for x in (t if isinstance(t, tuple) else (t,))], rel=1e-13)
        for k in keys)
    if same:
        for a, b in zip(opt.fitting_priors, fresh['prior_objs']):
            if type(a) is not type(b):
                same = False
    if not same:
        ctx.violation('history-dependence', 'compile_params gives a different set-up than a fresh optimizer in the same '
                      'settings', here, dict(got={k: after[k] for k in keys}, fresh={k: fresh[k] for k in keys},
                                             out=out, fresh_out=fout))
    if out != 0:
        ctx.bucket('compile:ValueError')
        return
    # (2) the set-up is the one the settings imply, and all views live in the space of the prior
    want = [('model', r) for r in after['model'] if r[2]] + [('obs', r) for r in after['obs'] if r[2]]
    pri = list(opt.fitting_priors)
    if len(pri) != len(want) or after['names'] is None or len(after['names']) != len(want):
        ctx.violation('compile-rows', 'fitted rows are not the parameters with the fit flag, model first', here,
                      dict(names=after['names'], want=[r[0] for _, r in want]))
        return
    for i, ((tab, (n, m, f, b0, b1, v)), p) in enumerate(zip(want, pri)):
        is_log = p.priorMode is PriorMode.LOG
        if after['names'][i] != ('log_' + n if is_log else n):
            ctx.violation('space:name', 'reported name is not in the space of the prior / wrong order', here,
                          dict(i=i, got=after['names'][i], name=n, log=is_log))
        if n in user:
            if p is not user[n]:
                ctx.violation('prior:user', 'a prior set with set_prior is not the one used', here, dict(name=n))
        else:
            cls = LogUniform if m == 1 else Uniform
            lo, hi = p.boundaries()
            if m == 1 and not (b0 > 0 and b1 > 0):
                bb = None     # no default prior exists for these settings: compile_params had to raise
            else:
                bb = (math.log10(b0), math.log10(b1)) if m == 1 else (b0, b1)
            if bb is None or type(p) is not cls or not C.close([lo, hi], [min(bb), max(bb)], rel=1e-13):
                ctx.violation('prior:default', 'default prior does not derive from the current mode and bounds', here,
                              dict(name=n, mode=m, bounds=(b0, b1), got=(type(p).__name__, lo, hi)))
        if after['values'] is not None:
            wv = (math.log10(v) if v > 0 else float('nan')) if is_log else v
            if not C.close(after['values'][i], wv, rel=1e-13):
                ctx.violation('space:value', 'reported value is not the current value in the space of the prior', here,
                              dict(name=n, got=after['values'][i], want=wv))
        elif not any((q.priorMode is PriorMode.LOG) and r[5] <= 0 for (_, r), q in zip(want, pri)):
            ctx.violation('space:value-raises', 'fit_values raised although every log-space value is positive', here)
        if after['bounds'] is not None:
            wb = tuple(math.log10(b) if b > 0 else float('nan') for b in (b0, b1)) if is_log else (b0, b1)
            if not C.close(list(after['bounds'][i]), list(wb), rel=1e-13):
                ctx.violation('space:bounds', 'reported boundaries are not the current bounds in the space of the prior',
                              here, dict(name=n, got=after['bounds'][i], want=wb))
    want_d = [n for n, c in after['dmodel'] if c] + [n for n, c in after['dobs'] if c]
    if after['derived'] != want_d:
        ctx.violation('derived-names', 'derived_names are not the parameters with the compute flag', here,
                      dict(got=after['derived'], want=want_d))


# ============================================================================= [Fitting] / [Derive] sections
SETUP_OUT = ['ok', 'KeyError', 'ValueError', 'prior-error', 'unsupported']
OPNAME = ['enable_fit', 'disable_fit', 'set_mode', 'set_boundary', 'set_factor_boundary', 'set_prior', 'enable_derived',
          'disable_derived', 'compile', 'update_model']


def typed_tok(key, v):
    """one section entry as ParameterParser.transform typed it"""
    k = C.S(key)
    if isinstance(v, bool):
        return '%s 0 %s' % (k, C.N(1 if v else 0))
    if isinstance(v, float):
        return '%s 1 %s' % (k, C.F(v))
    if isinstance(v, str):
        return '%s 2 %s' % (k, C.S(v))
    if isinstance(v, list) and all(isinstance(x, float) for x in v):
        return '%s 3 %s' % (k, C.L(v))
    if isinstance(v, list) and all(isinstance(x, str) for x in v):
        return '%s 4 %s' % (k, C.L(v, C.S))
    raise C.InfraError('untyped section value %r' % (v,))


def read_ops(d):
    def one():
        k = d.nat()
        name = d.str()
        a, b = d.flt(), d.flt()
        text = d.str()
        pk, pa, pb = d.nat(), d.flt(), d.flt()
        if k in (3, 4):
            return (OPNAME[k], name, (a, b))
        if k == 2:
            return (OPNAME[k], name, text)
        if k == 5:
            return (OPNAME[k], name, (pk, pa, pb))
        return (OPNAME[k], name)
    return d.list(one)


def truthy(v):
    return bool(v)


def text_truth(text):
    """what a yes/no value written in an input file means (the documented words plus 0/1), independent of the parser's typing"""
    t = text.strip().strip('"').lower()
    if t in ('false', 'no', 'nope', 'no-way', 'hell-no', '0', '0.0', ''):
        return False
    return True


def gen_section(rng, cfg):
    """lines of a [Fitting] and a [Derive] section over the fixture's parameters (text as written in an input file)"""
    from harness import c08
    fitn = [p[0] for p in cfg['model']] + [p[0] for p in cfg['obs']]
    dern = [d[0] for d in cfg['dmodel']] + [d[0] for d in cfg['dobs']]
    npar = int(rng.integers(1, min(4, len(fitn)) + 1))
    chosen = [fitn[i] for i in rng.permutation(len(fitn))[:npar]]
    if rng.random() < 0.07:
        chosen.append('no_such_param')
    lines = []

    def num(v):
        return repr(float(v))
    for n in chosen:
        opts = [o for o in ('fit', 'bounds', 'mode', 'factor', 'prior') if rng.random() < 0.5]
        if not opts:
            opts = ['fit']
        for o in opts:
            if o == 'fit':
                v = str(rng.choice(['True', 'False', 'true', 'yes', 'no', 'Yup', 'nope', '1', '0', 'maybe']))
            elif o == 'bounds':
                b = rnd_bounds(rng, rng.random() < 0.8)
                v = '%s, %s' % (num(b[0]), num(b[1]))
            elif o == 'factor':
                v = '%s, %s' % (num(rng.uniform(0.01, 1)), num(rng.uniform(1, 20)))
            elif o == 'mode':
                v = str(rng.choice(['log', 'linear', 'LOG', 'Linear', 'logarithmic'], p=[.36, .36, .12, .12, .04]))
            else:
                call = c08.gen_call(rng, int(rng.integers(0, 4)))
                v = '"%s"' % c08.render(rng, call).strip()
                r = rng.random()
                if r < 0.03:
                    v = '"UniForm(bounds=(1, 2))"'             # unknown class
                elif r < 0.06:
                    v = '"LogUniform(-1, 2)"'                  # positional arguments
                elif r < 0.09:
                    v = '"LogUniform(lin_bounds=(-1, 2))"'     # domain error
                elif r < 0.11:
                    v = '"Uniform(mean=1)"'                    # bad keyword
            key = n + ':' + o
            r = rng.random()
            if r < 0.03:
                key = n + ':' + o + 's' if o != 'bounds' else n + ':bound'      # misspelt option
            elif r < 0.04:
                key = n + o                                                       # no colon
            elif r < 0.05:
                key = n + ':' + o + ':x'                                          # two colons
            elif r < 0.06 and o in ('bounds', 'factor'):
                v = v + ', 3.0' if rng.random() < 0.5 else v.split(',')[0] + ','  # not a pair: outside the documented shapes
            elif r < 0.07 and o == 'mode':
                v = 'true'                                                        # typed as a bool, not a string
            lines.append((key, v))
    lines = [lines[i] for i in rng.permutation(len(lines))]
    dlines = []
    for n in dern + (['no_such_derived'] if rng.random() < 0.06 else []):
        if rng.random() < 0.6:
            key = n + (':compute' if rng.random() < 0.93 else ':computed')
            dlines.append((key, str(rng.choice(['True', 'False', 'yes', 'no', '0']))))
    dlines = [dlines[i] for i in rng.permutation(len(dlines))]
    return lines, dlines


def parse_sections(lines, dlines):
    """write the input file, read it with the real ParameterParser; returns (parser, typed fitting, typed derive)"""
    import tempfile
    import shutil
    import os
    from taurex.parameter import ParameterParser
    d = tempfile.mkdtemp()
    try:
        fn = os.path.join(d, 'verif.par')
        with open(fn, 'w') as fh:
            fh.write('[Fitting]\n')
            for k, v in lines:
                fh.write('%s = %s\n' % (k, v))
            fh.write('[Derive]\n')
            for k, v in dlines:
                fh.write('%s = %s\n' % (k, v))
        pp = ParameterParser()
        pp.read(fn)
    finally:
        shutil.rmtree(d, ignore_errors=True)
    return pp, list(pp._raw_config['Fitting'].items()), list(pp._raw_config['Derive'].items())


def make_recording_optimizer(model, obs):
    from taurex.optimizer.optimizer import Optimizer
    calls = []

    class Recording(Optimizer):
        pass
    for name in ('enable_fit', 'disable_fit', 'set_mode', 'set_boundary', 'set_factor_boundary', 'set_prior',
                 'enable_derived', 'disable_derived'):
        def wrap(self, *a, _n=name):
            calls.append((_n,) + a)
            return getattr(Optimizer, _n)(self, *a)
        setattr(Recording, name, wrap)
    return Recording('verif', observed=obs, model=model), calls


def real_setup(pp, opt):
    """run the real setup_optimizer; classify the outcome"""
    import traceback
    try:
        pp.setup_optimizer(opt)
        return 0, None
    except Exception as e:
        names = [f.name for f in traceback.extract_tb(e.__traceback__)]
        if 'create_prior' in names:
            return 3, repr(e)
        if isinstance(e, KeyError):
            return 1, repr(e)
        if isinstance(e, ValueError):
            return 2, repr(e)
        return 4, repr(e)


def norm_calls(calls):
    out = []
    for c in calls:
        if c[0] in ('set_boundary', 'set_factor_boundary'):
            out.append((c[0], c[1], (float(c[2][0]), float(c[2][1]))))
        elif c[0] == 'set_prior':
            lo_hi = (KINDS.index(type(c[2]).__name__) if type(c[2]).__name__ in KINDS else -1,)
            out.append((c[0], c[1], lo_hi))
        else:
            out.append(tuple(c))
    return out


def run_section(ctx, case, check_order=True):
    from taurex.core.priors import PriorMode
    cfg = case['cfg']
    cfg = dict(cfg, model=[(p[0], p[1], bool(p[2]), tuple(p[3]), float(p[4])) for p in (cfg.get('model') or [])],
               obs=[(p[0], p[1], bool(p[2]), tuple(p[3]), float(p[4])) for p in cfg['obs']],
               dmodel=[tuple(d) for d in (cfg.get('dmodel') or [])], dobs=[tuple(d) for d in cfg['dobs']])
    case0 = dict(type='section', cfg=cfg, fitting=case['fitting'], derive=case['derive'])
    try:
        model, obs = make_pair(cfg)
    except FixtureDefect as e:
        ctx.violation(e.key, e.what, case0, e.detail)
        return
    if not check_declared(ctx, cfg, model, obs, case0):
        return
    mt, ot = settings_of(model, obs)
    cfg = dict(cfg, model=[(n, m, f, (float(b[0]), float(b[1])), float(v)) for n, m, f, b, v in mt],
               obs=[(n, m, f, (float(b[0]), float(b[1])), float(v)) for n, m, f, b, v in ot],
               dmodel=derived_view(model), dobs=derived_view(obs))
    lines = [tuple(x) for x in case['fitting']]
    dlines = [tuple(x) for x in case['derive']]
    small = dict(type='section', cfg=cfg, fitting=lines, derive=dlines)
    try:
        pp, tf, td = parse_sections(lines, dlines)
    except Exception as e:
        ctx.malformed_outcome('section:configobj:' + type(e).__name__)
        return
    opt, calls = make_recording_optimizer(model, obs)
    init = observe(opt, model, obs)
    out, err = real_setup(pp, opt)
    # ---- the model
    z10, z90 = z1090()
    try:
        d = ctx.model().call('c07.setup', C.F(z10), C.F(z90), C.L(cfg['model'], param_tok), C.L(cfg['obs'], param_tok),
                             C.L(cfg['dmodel'], lambda x: C.S(x[0]) + ' ' + C.N(1 if x[1] else 0)),
                             C.L(cfg['dobs'], lambda x: C.S(x[0]) + ' ' + C.N(1 if x[1] else 0)),
                             C.L(tf, lambda kv: typed_tok(kv[0], kv[1])), C.L(td, lambda kv: typed_tok(kv[0], kv[1])))
    except C.ModelError as e:
        ctx.mismatch('model driver accepts the section', small, dict(error=str(e)))
        return
    mout = d.nat()
    mops = read_ops(d)
    m_after = read_obs(d)
    m_comp = read_obs(d)
    has_spec = d.nat()
    if mout == 4:
        # value shapes outside the documented ones (bounds/factor not a pair of numbers, mode not a string): recorded only
        ctx.malformed_outcome('section:unsupported-shape:' + (SETUP_OUT[out] if out < 4 else (err or '').split('(')[0]))
        return
    if out == 4:
        ctx.violation('section:unexpected-exception', 'setup_optimizer raised something other than KeyError/ValueError/a prior '
                      'error on a section with documented value shapes', small, dict(error=err))
        return
    try:
        after = observe(opt, model, obs)
    except Exception as e:
        ctx.violation('section:observable-raises', 'after setup_optimizer a parameter tuple is malformed or a public view raises',
                      small, dict(error=repr(e)))
        return
    user = {c[1]: c[2] for c in calls if c[0] == 'set_prior'}
    ctx.bucket('section:' + SETUP_OUT[out])
    ctx.check_eq('setup_optimizer outcome (ok/KeyError/ValueError/prior error)', out, mout, small)
    rc = norm_calls(calls)
    mc = [(o[0], o[1], (o[2][0],)) if o[0] == 'set_prior' else o for o in mops]
    ok_calls = len(rc) == len(mc) and all(
        a[:2] == b[:2] and (len(a) < 3 or (C.close(list(a[2]), list(b[2]), rel=1e-12) if isinstance(a[2], tuple) else a[2] == b[2]))
        for a, b in zip(rc, mc))
    ctx.disagreements_checked += 1
    if not ok_calls:
        ctx.mismatch('setup_optimizer: optimizer calls made (kind, name, arguments, order)', small, dict(impl=rc, model=mc))
    cmp_obs(ctx, 'after setup_optimizer', after, m_after, small)
    # ---- compile afterwards (what fit() does next)
    try:
        opt.compile_params()
        cout = 0
    except ValueError:
        cout = 2
    except Exception as e:
        ctx.violation('section:compile-raises', 'compile_params after setup_optimizer raised something other than ValueError',
                      small, dict(error=repr(e)))
        return
    comp = observe(opt, model, obs)
    ctx.check_eq('after setup_optimizer + compile: outcome', cout, m_comp['out'], small)
    cmp_obs(ctx, 'after setup_optimizer + compile', comp, m_comp, small)
    nontrivial = out == 0 and len(calls) >= 3
    ctx.case(key=('section', tuple(sorted(set(k.split(':')[-1] for k, _ in tf))), out, cout) if nontrivial else None,
             sample=dict(fitting=lines, derive=dlines, calls=[c[:2] for c in calls], names=comp['names']),
             bucket='section')
    if has_spec and out == 0:
        s_out = d.nat()
        s_entries = d.list(lambda: (d.nat(), d.str(), d.nat(), d.flt(), d.flt()))
        s_pri = d.list(lambda: (d.nat(), d.flt(), d.flt(), d.flt(), d.flt()))
        s_der = d.list(d.str)
        s_names = d.list(d.str)
        # the specification evaluated by the driver agrees with what the real code compiled
        ctx.check_eq('implied (sectionSettings): outcome', cout, s_out, small)
        if cout == 0:
            ctx.check_eq('implied (sectionSettings): names', comp['names'], s_names, small)
            ctx.check_eq('implied (sectionSettings): derived', comp['derived'], s_der, small)
            ctx.check_eq('implied (sectionSettings): prior classes', [p[0] for p in comp['priors']], [p[0] for p in s_pri], small)
            ctx.check_close('implied (sectionSettings): prior boundaries', [x for p in comp['priors'] for x in p[1:]],
                            [x for p in s_pri for x in p[3:]], small, rel=1e-11, abs_=1e-13)
    # ---------------------------------------------------- predicates on the implementation
    fitnames = set(r[0] for r in init['model']) | set(r[0] for r in init['obs'])
    dernames = set(r[0] for r in init['dmodel']) | set(r[0] for r in init['dobs'])
    wellkeyed = all(k.count(':') == 1 for k, _ in tf) and all(k.count(':') == 1 for k, _ in td)
    mentioned = [k.split(':')[0] for k, _ in tf] if wellkeyed else []
    mentioned_d = [k.split(':')[0] for k, v in td if k.split(':')[1] == 'compute'] if wellkeyed else []
    unknown = [n for n in mentioned if n not in fitnames] + [n for n in mentioned_d if n not in dernames]
    if out == 0 and unknown:
        ctx.violation('section:unknown-name-accepted', 'setup_optimizer accepted a section naming an unknown parameter', small,
                      dict(unknown=unknown))
    if out == 0 and not wellkeyed:
        ctx.violation('section:bad-key-accepted', 'setup_optimizer accepted a key that is not name:option', small)
    ignored = [k for k, _ in tf if k.count(':') == 1 and k.split(':')[1] not in ('fit', 'bounds', 'mode', 'factor', 'prior')]
    ignored += [k for k, _ in td if k.count(':') == 1 and k.split(':')[1] != 'compute']
    if out == 0 and ignored:
        ctx.bucket('section:unknown-option-silently-ignored')
    if out == 0:
        # the section describes the settings: every mentioned parameter as written, everything else untouched
        opts = {}
        for k, v in tf:
            n, o = k.split(':')
            opts.setdefault(n, {})[o] = v
        raw_fit = {k.split(':')[0]: v for k, v in lines if k.endswith(':fit')}
        raw_comp = {k.split(':')[0]: v for k, v in dlines if k.endswith(':compute')}
        for tab in ('model', 'obs'):
            for rb, ra in zip(init[tab], after[tab]):
                n = rb[0]
                if n not in opts:
                    if ra != rb:
                        ctx.violation('section:frame', 'setup_optimizer changed a parameter the section does not mention', small,
                                      dict(name=n, before=rb, after=ra))
                    continue
                o = opts[n]
                want_fit = text_truth(raw_fit[n]) if n in raw_fit else False
                b0, b1 = rb[3], rb[4]
                if truthy(o.get('factor')):
                    b0, b1 = o['factor'][0] * rb[5], o['factor'][1] * rb[5]
                if truthy(o.get('bounds')):
                    b0, b1 = o['bounds'][0], o['bounds'][1]
                mode = rb[1]
                if truthy(o.get('mode')):
                    mode = 0 if o['mode'].lower() == 'linear' else 1
                want = (n, mode, want_fit, float(b0), float(b1), rb[5])
                if not (ra[:3] == want[:3] and C.close(list(ra[3:]), list(want[3:]), rel=1e-13)):
                    ctx.violation('section:as-written', 'after setup_optimizer a mentioned parameter is not as the section says',
                                  small, dict(name=n, got=ra, want=want))
                if 'prior' in o:
                    from taurex.parameter.factory import create_prior
                    ref = create_prior(o['prior'])
                    got = user.get(n)
                    if got is None or type(got) is not type(ref) or got.params() != ref.params():
                        ctx.violation('section:prior', 'the prior written in the section is not the one set', small, dict(name=n))
        dopts = {k.split(':')[0]: v for k, v in td if k.split(':')[1] == 'compute'}
        for tab in ('dmodel', 'dobs'):
            for rb, ra in zip(init[tab], after[tab]):
                want = text_truth(raw_comp[rb[0]]) if rb[0] in raw_comp else rb[1]
                if ra[1] != want:
                    ctx.violation('section:derive', 'compute flag of a derived parameter is not as the [Derive] section says',
                                  small, dict(name=rb[0], got=ra[1], want=want))
        judge_compile(ctx, cfg, opt, model, obs, user, cout, comp, small)
        # independence of the order of the lines
        if check_order and len(lines) > 1:
            perm = case.get('perm')
            if perm is None:
                perm = [int(i) for i in ctx.rng.permutation(len(lines))]
            m2, o2 = make_pair(cfg)
            l2 = [lines[i] for i in perm]
            pp2, _, _ = parse_sections(l2, list(reversed(dlines)))
            opt2, _ = make_recording_optimizer(m2, o2)
            out2, _ = real_setup(pp2, opt2)
            try:
                opt2.compile_params()
                cout2 = 0
            except ValueError:
                cout2 = 2
            v2 = observe(opt2, m2, o2)
            same = (out2, cout2) == (out, cout) and all(v2[k] == comp[k] for k in ('model', 'obs', 'dmodel', 'dobs', 'names',
                                                                                   'values', 'bounds', 'priors', 'derived'))
            if not same:
                ctx.violation('section:order-dependence', 'the set-up depends on the order of the lines of the section',
                              dict(small, perm=perm), dict(first={k: comp[k] for k in ('names', 'bounds', 'priors')},
                                                          second={k: v2[k] for k in ('names', 'bounds', 'priors')}))


def run(ctx):
    from taurex.log.logger import root_logger
    import logging
    root_logger.setLevel(logging.CRITICAL)
    rng = ctx.rng
    maxlen = ctx.n(12, 60)
    for _ in range(ctx.n(1500, 20000)):
        cfg = gen_cfg(rng, real_variants=True)
        n = int(rng.integers(3, maxlen + 1))
        force = None
        if cfg.get('real'):
            # the real forward model: a random third of ALL the parameters its components declare is fitted from the start,
            # and every sequence begins with compile + update_model, so that the getter / setter pair of every kind of
            # parameter the package declares (closures of the gas profiles and temperature nodes, decorated properties of
            # planet, pressure, clouds, …) is written through and read back in every run
            cfg = randomise_real(rng, cfg)
            force = ['compile', 'update_model']
            n = max(n, 4)
        run_sequence(ctx, dict(cfg=cfg), gen=dict(rng=rng, n=n, force=force))
    for _ in range(ctx.n(500, 6000)):
        cfg = gen_cfg(rng, real_variants=True)
        if cfg.get('real'):
            m, o = make_pair(cfg)
            mt, ot = settings_of(m, o)
            cfg = dict(cfg, model=mt, obs=ot, dmodel=derived_view(m), dobs=derived_view(o))
        lines, dlines = gen_section(rng, cfg)
        run_section(ctx, dict(cfg=cfg, fitting=lines, derive=dlines))
    # the repo's own components constructed the way a script author types the numbers: whole values as Python ints (scalars
    # and the entries of node lists).  The property is over ALL values; what a parameter is constructed with must not decide
    # whether a later write through its fitting parameter is stored as given.  Most parameters fitted, compile + update_model
    # first, so every getter / setter pair is written a non-integer value and read back.
    for _ in range(ctx.n(48, 480)):
        variant = dict(gen_real_variant(rng), numeric='ints')
        # (pinned tree: Rodgers2000 kept np.array(temperature_layers) — integer layers gave an integer array and every write
        # through T_<i> was truncated, T_1 <- 1234.56 read back 1234; found by this stream, repaired in /repo, DESIGN §6)
        cfg = dict(real=variant, model=None, obs=[], dmodel=None, dobs=[], ndyn=0, composite=False)
        cfg = randomise_real(rng, cfg, p_fit=0.7)
        run_sequence(ctx, dict(cfg=cfg), gen=dict(rng=rng, n=int(rng.integers(4, 9)), force=['compile', 'update_model']))
    malformed(ctx)


def randomise_real(rng, cfg, p_fit=0.3):
    m, o = make_pair(cfg)
    mt, ot = settings_of(m, o)
    rows = []
    for name, mode, fit, bounds, value in mt:
        rows.append((name, mode, bool(fit) or bool(rng.random() < p_fit), (float(bounds[0]), float(bounds[1])), float(value)))
    return dict(cfg, model=rows, obs=ot, dmodel=derived_view(m), dobs=derived_view(o))


def malformed(ctx):
    """outside the quantifier: recorded, never judged"""
    from taurex.optimizer.optimizer import Optimizer
    cfg = dict(model=[('a', 'log', True, (1.0, 10.0), 2.0), ('b', 'linear', True, (0.0, 1.0), 0.5)], obs=[], dmodel=[], dobs=[],
               ndyn=0, composite=False)

    def rec(tag, f):
        try:
            ctx.malformed_outcome('%s:%s' % (tag, f()))
        except Exception as e:
            ctx.malformed_outcome('%s:%s' % (tag, type(e).__name__))
    for tag, vec in [('update-overflow', [400.0, 0.5]), ('update-nan', [float('nan'), 0.5]), ('update-inf', [float('inf'), 0.5])]:
        m, o = make_pair(cfg)
        opt = Optimizer('mal', observed=o, model=m)
        opt.compile_params()

        def f():
            opt.update_model(vec)
            return repr(m['a'])
        rec(tag, f)
    m, o = make_pair(cfg)
    opt = Optimizer('mal', observed=o, model=m)
    rec('set_boundary-3-tuple', lambda: (opt.set_boundary('a', (1.0, 2.0, 3.0)), opt.compile_params(), 'ok')[-1])
    rec('set_mode-non-string', lambda: (opt.set_mode('a', 3), 'ok')[-1])


def replay(ctx, case):
    from taurex.log.logger import root_logger
    import logging
    root_logger.setLevel(logging.CRITICAL)
    if 'cfg' not in case and 'case' in case:
        case = case['case']
    if case.get('type') == 'section':
        run_section(ctx, case)
    else:
        run_sequence(ctx, case)
