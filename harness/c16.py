"""C16 — output files hold what was computed and reload to the same model.

Streams (all through the real code, in process, scratch files under a mkdtemp directory):
  dict      random nested result dictionaries -> HDF5Output.store_dictionary -> file re-read with h5py;
            stored tree vs Output.store, decoded content vs Output.load . Output.store (model driver);
            the property's predicate (every array / scalar / string back unchanged under the same nested
            name) evaluated on the file itself.  Sub-streams: wf, regular (tuples, numeric lists, 0-d arrays),
            expansion (ragged lists -> key0,key1,...),
            error (unsupported types / mixed string lists: must raise), malformed (never judged);
            k3 = string arrays with over-long / non-ASCII elements (regression of the repaired S64 defect).
  group     HDF5OutputGroup.write_array on lists / write_list vs Output.writeArray / writeList.
  component a component-like record written and reloaded with taurex.util.hdf5.load_generic_profile_from_hdf5
            (dummy class registered with the ClassFactory) vs Output.reloadComponent.
  spectrum  generate_spectrum_output for FluxBinner / SimpleBinner / NativeBinner x output sizes vs
            Output.spectrumOutput + the self-consistency identities of the property, then stored and re-read.
  model     built-in component combinations -> model.write(HDF5Output) (+ the Output/Spectra, Output/Profiles
            dictionaries of taurex.py) -> taurex_hdf5_to_model -> same classes, same parameters, same spectrum.
"""
import os
import math
import shutil
import tempfile
import keyword
import numpy as np
from harness import common as C

USES_MODELS = ['C05']   # Binning.targetBins / fluxBindown: which bins a FluxBinner built from a request bins to

# source tie (harness/translate.py, dialect 'dyn'): the recursive writer, the HDF5 group methods, the spectrum dictionaries, the
# loaders (generic, per component, chemistry, whole model, file level) and component `write` methods (temperature, chemistry,
# model, star, planet, pressure, gas profiles, contributions), regenerated on every run into lean/TaurexModel/Gen/SrcC16.lean and proved equal to the functions of
# TaurexModel/Output.lean in lean/Props/C16Src.lean
_U = 'taurex/util/util.py'
_H = 'taurex/output/hdf5.py'
_L = 'taurex/util/hdf5.py'
_TP = 'taurex/data/profiles/temperature/'
_GP = 'taurex/data/profiles/chemistry/gas/'
_CT = 'taurex/contributions/'
SRC_SPECS = [
    dict(module=_U, func='recursively_save_dict_contents_to_output', lean='recursively_save', dialect='dyn',
         callees={'store_thing': 3}),
    dict(module=_U, func='store_thing', lean='store_thing', dialect='dyn', fuel=True),
    dict(module=_H, cls='HDF5OutputGroup', func='write_array', lean='write_array', callname='self.write_array',
         dialect='dyn', fuel=True, decorators=['only_master_rank']),
    dict(module=_H, cls='HDF5OutputGroup', func='write_string_array', lean='write_string_array', dialect='dyn',
         decorators=['only_master_rank']),
    dict(module='taurex/binning/binner.py', cls='Binner', func='generate_spectrum_output', lean='binner_gso',
         callname='binner_gso', dialect='dyn', keep_self=True),
    dict(module='taurex/binning/fluxbinner.py', cls='FluxBinner', func='generate_spectrum_output', lean='fluxbinner_gso',
         dialect='dyn', calls={'super().generate_spectrum_output': 'binner_gso'}),
    dict(module='taurex/binning/simplebinner.py', cls='SimpleBinner', func='generate_spectrum_output',
         lean='simplebinner_gso', dialect='dyn', calls={'super().generate_spectrum_output': 'binner_gso'}),
    dict(module='taurex/binning/nativebinner.py', cls='NativeBinner', func='generate_spectrum_output',
         lean='nativebinner_gso', dialect='dyn'),
    dict(module=_U, func='decode_string_array', lean='decode_string_array', dialect='dyn'),
    dict(module='taurex/util/hdf5.py', func='get_klass_args', lean='get_klass_args', dialect='dyn'),
    dict(module='taurex/util/hdf5.py', func='load_generic_profile_from_hdf5', lean='load_generic_profile', dialect='dyn',
         unshared=['args_dict']),
    # the per-component loaders and the component `write` methods (write -> load round trip of a component)
    dict(module=_L, func='load_temperature_from_hdf5', lean='load_temperature', dialect='dyn'),
    dict(module=_L, func='load_pressure_from_hdf5', lean='load_pressure', dialect='dyn'),
    dict(module=_L, func='load_gas_from_hdf5', lean='load_gas', dialect='dyn'),
    dict(module=_L, func='load_planet_from_hdf5', lean='load_planet', dialect='dyn'),
    dict(module=_L, func='load_star_from_hdf5', lean='load_star', dialect='dyn'),
    dict(module=_L, func='load_contrib_from_hdf5', lean='load_contrib', dialect='dyn'),
    dict(module=_TP + 'tprofile.py', cls='TemperatureProfile', func='write', lean='tprofile_write',
         callname='tprofile_write', dialect='dyn'),
    dict(module=_TP + 'isothermal.py', cls='Isothermal', func='write', lean='isothermal_write',
         callname='isothermal_write', dialect='dyn', calls={'super().write': 'tprofile_write'}),
    dict(module=_TP + 'guillot.py', cls='Guillot2010', func='write', lean='guillot_write',
         callname='guillot_write', dialect='dyn', calls={'super().write': 'tprofile_write'}),
    dict(module=_TP + 'npoint.py', cls='NPoint', func='write', lean='npoint_write',
         callname='npoint_write', dialect='dyn', calls={'super().write': 'tprofile_write'}),
    dict(module='taurex/model/model.py', cls='ForwardModel', func='write', lean='forwardmodel_write',
         callname='forwardmodel_write', dialect='dyn'),
    dict(module='taurex/model/simplemodel.py', cls='SimpleForwardModel', func='write', lean='simplemodel_write',
         callname='simplemodel_write', dialect='dyn', calls={'super().write': 'forwardmodel_write'}),
    dict(module='taurex/model/transmission.py', cls='TransmissionModel', func='write', lean='transmission_write',
         callname='transmission_write', dialect='dyn', calls={'super().write': 'simplemodel_write'}),
    dict(module='taurex/data/profiles/chemistry/chemistry.py', cls='Chemistry', func='write', lean='chemistry_write',
         callname='chemistry_write', dialect='dyn'),
    dict(module='taurex/data/profiles/chemistry/taurexchemistry.py', cls='TaurexChemistry', func='write',
         lean='taurexchemistry_write', callname='taurexchemistry_write', dialect='dyn',
         calls={'super().write': 'chemistry_write'}),
    dict(module=_L, func='load_chemistry_from_hdf5', lean='load_chemistry', dialect='dyn'),
    dict(module=_L, func='load_model_from_hdf5', lean='load_model', dialect='dyn'),
    dict(module=_L, func='taurex_hdf5_to_model', lean='hdf5_to_model', dialect='dyn'),
    dict(module=_L, func='taurex_hdf5_to_observation', lean='hdf5_to_observation', dialect='dyn'),
    # the `write` methods of the star, the planet, the pressure profiles, the gas profiles and the contributions
    # (BlackbodyStar / Planet / AbsorptionContribution inherit the method of their base class)
    dict(module='taurex/data/stellar/star.py', cls='Star', func='write', lean='star_write', callname='star_write',
         dialect='dyn'),
    dict(module='taurex/data/planet.py', cls='BasePlanet', func='write', lean='planet_write', callname='planet_write',
         dialect='dyn'),
    dict(module='taurex/data/profiles/pressure/pressureprofile.py', cls='PressureProfile', func='write',
         lean='pressure_write', callname='pressure_write', dialect='dyn'),
    dict(module='taurex/data/profiles/pressure/pressureprofile.py', cls='SimplePressureProfile', func='write',
         lean='simplepressure_write', callname='simplepressure_write', dialect='dyn',
         calls={'super().write': 'pressure_write'}),
    dict(module=_GP + 'gas.py', cls='Gas', func='write', lean='gas_write', callname='gas_write', dialect='dyn'),
    dict(module=_GP + 'constantgas.py', cls='ConstantGas', func='write', lean='constantgas_write',
         callname='constantgas_write', dialect='dyn', calls={'super().write': 'gas_write'}),
    dict(module=_GP + 'twolayergas.py', cls='TwoLayerGas', func='write', lean='twolayergas_write',
         callname='twolayergas_write', dialect='dyn', calls={'super().write': 'gas_write'}),
    dict(module=_GP + 'twopointgas.py', cls='TwoPointGas', func='write', lean='twopointgas_write',
         callname='twopointgas_write', dialect='dyn', calls={'super().write': 'gas_write'}),
    dict(module=_GP + 'powergas.py', cls='PowerGas', func='write', lean='powergas_write',
         callname='powergas_write', dialect='dyn', calls={'super().write': 'gas_write'}),
    dict(module=_CT + 'contribution.py', cls='Contribution', func='write', lean='contribution_write',
         callname='contribution_write', dialect='dyn'),
    dict(module=_CT + 'cia.py', cls='CIAContribution', func='write', lean='cia_write', callname='cia_write',
         dialect='dyn', calls={'super().write': 'contribution_write'}),
    dict(module=_CT + 'simpleclouds.py', cls='SimpleCloudsContribution', func='write', lean='simpleclouds_write',
         callname='simpleclouds_write', dialect='dyn', calls={'super().write': 'contribution_write'}),
    dict(module=_CT + 'flatmie.py', cls='FlatMieContribution', func='write', lean='flatmie_write',
         callname='flatmie_write', dialect='dyn', calls={'super().write': 'contribution_write'}),
]

RULE = ('dictionaries: 1-7 entries per level, depth <= 3, values drawn from scalars (float/int/bool, numpy and python, '
        'nan/inf/-0.0), arrays (bool/int64/float64, 0-3 dims incl. empty), unicode strings, clean string lists, '
        'tuples, homogeneous / mixed-kind / nested numeric lists, lists of arrays, ragged lists (expansion), '
        'unsupported types, over-long / non-ASCII string arrays; spectra: native grids 8-60 points, 1-6 layers, '
        'bin grids 2-12 points, 3 binners x output sizes {0..7}; models: transmission/emission/directimage x '
        'temperature {isothermal, guillot, npoint, rodgers} x gases {constant, twolayer, power, array} x fill-gas '
        'layouts x contributions {absorption, CIA, Rayleigh, clouds, flat Mie, Lee Mie, H-}; a history stream: the model '
        'is evaluated, 1-3 parameters are changed through the public setters (fitting parameters, star.temperature), it '
        'is evaluated again and then written and rebuilt. distinct non-trivial = '
        'distinct (stream, structural signature of the case)')
ASSUMPTIONS = [
    'np.array(list) builds a numeric array iff all elements have equal shapes (recursively); dtype = widest of '
    'bool < int64 < float64; [] -> float64 (0,); otherwise ValueError or an object/unicode array that h5py refuses '
    '(validated on every generated list)',
    'h5py: str -> variable-length UTF-8 string returned unchanged; a fixed-width S<n> cell is returned without '
    'trailing NUL bytes; the UTF-8 codec is a bijection on strings without lone surrogates (cells are compared as '
    'the code points they decode to; the cell width max(64, longest encoding) is compared exactly)',
    'names created in one group are distinct (python dict keys; key0,key1,... expansions do not hit a sibling key) '
    '- collisions are in the malformed stream',
    'bindown is a parameter of the spectrum model (the binner itself is the subject of C05/C13)',
    'integers fit int64; strings contain no NUL / lone surrogates (malformed stream otherwise)',
]

# ----------------------------------------------------------------------------------------------- encoding


def _bits(a):
    return [str(int(b)) for b in np.ascontiguousarray(a, dtype=np.float64).ravel().view(np.uint64)]


def enc(v):
    """python value -> wire tokens of Output.Value"""
    if isinstance(v, bool):
        return ['b', '1' if v else '0']
    if isinstance(v, (int, np.int64)) and not isinstance(v, (bool, np.bool_)):
        return ['i', str(int(v))]
    if isinstance(v, float):
        return ['f', C.F(v)]
    if isinstance(v, np.ndarray):
        shape = C.L(v.shape, C.N)
        flat = v.reshape(-1)
        if v.dtype == np.bool_:
            return ['a', '0', shape, C.L(flat, lambda x: '1' if x else '0')]
        if v.dtype == np.int64:
            return ['a', '1', shape, C.L(flat, lambda x: str(int(x)))]
        if v.dtype == np.float64:
            return ['a', '2', shape, C.L(_bits(flat), str)]
        return ['u']
    if isinstance(v, str):
        return ['s', C.L([ord(c) for c in v], C.N)]
    if isinstance(v, (list, tuple)):
        out = ['l' if isinstance(v, list) else 't', str(len(v))]
        for x in v:
            out += enc(x)
        return out
    if isinstance(v, dict):
        out = ['d', str(len(v))]
        for k, x in v.items():
            out += [C.S(str(k))] + enc(x)
        return out
    return ['u']


_NAN = 0x7ff8000000000000


def nb(b):
    """float bits with every NaN mapped to one pattern (Lean's Float.toBits does the same)"""
    b = int(b)
    return _NAN if (b & 0x7ff0000000000000) == 0x7ff0000000000000 and (b & 0x000fffffffffffff) else b


def _dec_arr(d):
    k = d.nat()
    shape = tuple(d.list(d.nat))
    if k == 0:
        data = tuple(bool(x) for x in d.list(d.bool))
    elif k == 1:
        data = tuple(d.list(d.int))
    else:
        data = tuple(d.list(lambda: nb(d.tok())))
    return (k, shape, data)


def dec_value(d):
    t = d.tok()
    if t == 'i':
        return ('i', d.int())
    if t == 'f':
        return ('f', nb(d.tok()))
    if t == 'b':
        return ('b', d.bool())
    if t == 'a':
        return ('a',) + _dec_arr(d)
    if t == 's':
        return ('s', ''.join(chr(c) for c in d.list(d.nat)))
    if t in ('l', 't'):
        n = d.nat()
        return (t, [dec_value(d) for _ in range(n)])
    if t == 'd':
        n = d.nat()
        out = {}
        for _ in range(n):
            k = d.str()
            out[k] = dec_value(d)
        return ('d', out)
    if t == 'u':
        return ('u',)
    raise C.InfraError('bad value token ' + t)


def dec_node(d):
    t = d.tok()
    if t == 'N':
        return ('N',) + _dec_arr(d)
    if t == 'V':
        return ('V', ''.join(chr(c) for c in d.list(d.nat)))
    if t == 'S':
        w = d.nat()
        return ('S', w, tuple(tuple(d.list(d.nat)) for _ in range(d.nat())))
    if t == 'G':
        n = d.nat()
        out = {}
        for _ in range(n):
            k = d.str()
            out[k] = dec_node(d)
        return ('G', out)
    raise C.InfraError('bad node token ' + t)


def dec_children(d):
    n = d.nat()
    out = {}
    for _ in range(n):
        k = d.str()
        out[k] = dec_node(d)
    return out


def _carr(a):
    a = np.asarray(a)
    flat = a.reshape(-1)
    if a.dtype == np.bool_:
        return (0, tuple(a.shape), tuple(bool(x) for x in flat))
    if a.dtype.kind in 'iu':
        return (1 if a.dtype == np.int64 else 'int:' + str(a.dtype), tuple(a.shape), tuple(int(x) for x in flat))
    if a.dtype.kind == 'f':
        return (2 if a.dtype == np.float64 else 'float:' + str(a.dtype), tuple(a.shape),
                tuple(nb(b) for b in np.ascontiguousarray(flat, dtype=np.float64).view(np.uint64)))
    return ('dtype:' + str(a.dtype), tuple(a.shape), ())


def cv(v):
    """python value -> the canonical form dec_value produces"""
    if isinstance(v, (bool, np.bool_)):
        return ('b', bool(v))
    if isinstance(v, (int, np.integer)):
        return ('i', int(v))
    if isinstance(v, (float, np.floating)):
        return ('f', nb(C.f2u(float(v)))) if isinstance(v, float) else ('f32', float(v))
    if isinstance(v, np.ndarray):
        return ('a',) + _carr(v)
    if isinstance(v, str):
        return ('s', v)
    if isinstance(v, list):
        return ('l', [cv(x) for x in v])
    if isinstance(v, tuple):
        return ('t', [cv(x) for x in v])
    if isinstance(v, dict):
        return ('d', {str(k): cv(x) for k, x in v.items()})
    return ('u',)


# ---- JSON form of python values (replay files)
def tojson(v):
    if isinstance(v, bool):
        return {'b': v}
    if isinstance(v, np.bool_):
        return {'u': 'bool_', 'v': bool(v)}
    if isinstance(v, np.float32):
        return {'u': 'float32', 'v': float(v)}
    if isinstance(v, np.int32):
        return {'u': 'int32', 'v': int(v)}
    if isinstance(v, np.int64):
        return {'i64': int(v)}
    if isinstance(v, int):
        return {'i': v}
    if isinstance(v, np.float64):
        return {'f64': str(C.f2u(v))}
    if isinstance(v, float):
        return {'f': str(C.f2u(v))}
    if isinstance(v, np.ndarray):
        if v.dtype == np.float64:
            return {'a': 'f8', 'shape': list(v.shape), 'data': _bits(v)}
        if v.dtype == np.int64:
            return {'a': 'i8', 'shape': list(v.shape), 'data': [int(x) for x in v.reshape(-1)]}
        if v.dtype == np.bool_:
            return {'a': 'b1', 'shape': list(v.shape), 'data': [bool(x) for x in v.reshape(-1)]}
        if v.dtype.kind == 'U':
            return {'u': 'strarray', 'v': [str(x) for x in v.reshape(-1)]}
        return {'u': 'objarray'}
    if isinstance(v, str):
        return {'s': [ord(c) for c in v]}
    if isinstance(v, list):
        return {'l': [tojson(x) for x in v]}
    if isinstance(v, tuple):
        return {'t': [tojson(x) for x in v]}
    if isinstance(v, dict):
        return {'d': [[[ord(c) for c in str(k)], tojson(x)] for k, x in v.items()]}
    if v is None:
        return {'u': 'None'}
    return {'u': 'object'}


class _Opaque:
    def __repr__(self):
        return '<opaque>'


def fromjson(j):
    if 'b' in j:
        return bool(j['b'])
    if 'i' in j:
        return int(j['i'])
    if 'i64' in j:
        return np.int64(j['i64'])
    if 'f' in j:
        return C.u2f(j['f'])
    if 'f64' in j:
        return np.float64(C.u2f(j['f64']))
    if 'a' in j:
        if j['a'] == 'f8':
            return np.array([int(b) for b in j['data']], dtype=np.uint64).view(np.float64).reshape(j['shape'])
        if j['a'] == 'i8':
            return np.array(j['data'], dtype=np.int64).reshape(j['shape'])
        return np.array(j['data'], dtype=np.bool_).reshape(j['shape'])
    if 's' in j:
        return ''.join(chr(c) for c in j['s'])
    if 'l' in j:
        return [fromjson(x) for x in j['l']]
    if 't' in j:
        return tuple(fromjson(x) for x in j['t'])
    if 'd' in j:
        return {''.join(chr(c) for c in k): fromjson(x) for k, x in j['d']}
    u = j['u']
    if u == 'None':
        return None
    if u == 'bool_':
        return np.bool_(j['v'])
    if u == 'float32':
        return np.float32(j['v'])
    if u == 'int32':
        return np.int32(j['v'])
    if u == 'strarray':
        return np.array(j['v'])
    if u == 'objarray':
        return np.array([None, 1], dtype=object)
    return _Opaque()


# ----------------------------------------------------------------------------------------------- file access
class Scratch:
    def __init__(self):
        self.dir = tempfile.mkdtemp(prefix='verif_c16_')
        self.k = 0

    def path(self):
        self.k += 1
        return os.path.join(self.dir, 'f%d.h5' % self.k)

    def remove(self, p):
        try:
            os.remove(p)
        except OSError:
            pass

    def close(self):
        shutil.rmtree(self.dir, ignore_errors=True)


def read_node(obj):
    """the file as it is (h5py), in the canonical form of dec_node"""
    import h5py
    if isinstance(obj, h5py.Group):
        return ('G', {k: read_node(obj[k]) for k in obj.keys()})
    dt = obj.dtype
    if h5py.check_string_dtype(dt) is not None and dt.kind == 'O':
        return ('V', obj.asstr()[()])
    if dt.kind == 'S':
        a = obj[()]
        if a.ndim != 2 or a.shape[1] != 1:
            return ('S?', str(dt), tuple(a.shape))
        rows = []
        for x in a:          # cells hold UTF-8; compared as the code points they decode to (assumed codec)
            try:
                rows.append(tuple(ord(c) for c in x[0].decode('utf-8')))
            except UnicodeDecodeError:
                rows.append(('undecodable',) + tuple(x[0]))
        return ('S', int(dt.itemsize), tuple(rows))
    return ('N',) + _carr(obj[()])


def real_load(obj):
    """decode one stored entry the way taurex.util.hdf5.load_generic_profile_from_hdf5 does (same calls)"""
    import h5py
    from taurex.util.util import decode_string_array
    if isinstance(obj, h5py.Group):
        return {k: real_load(obj[k]) for k in obj.keys()}
    v = obj[()]
    if isinstance(v, np.ndarray) and v.dtype.type is np.bytes_:
        return decode_string_array(v)
    try:
        v = v.decode()
    except (AttributeError, UnicodeDecodeError):
        pass
    return v


def real_store(scratch, value, group_name):
    """HDF5Output(...).store_dictionary; returns (exception or None, tree, loaded)"""
    import h5py
    from taurex.output.hdf5 import HDF5Output
    fn = scratch.path()
    err = None
    try:
        with HDF5Output(fn) as o:
            if group_name is None:      # store_dictionary of an already created group (OutputGroup inherits it)
                o.create_group('Sub').store_dictionary(value)
            else:
                o.store_dictionary(value, group_name=group_name)
    except Exception as e:  # noqa
        err = e
    tree = loaded = None
    if err is None:
        with h5py.File(fn, 'r') as f:
            root = f['Sub'] if group_name is None else f[group_name]
            tree = read_node(root)
            try:
                loaded = real_load(root)
            except Exception as e:  # noqa  the repo's own decoder cannot read what the repo's writer wrote
                loaded = ReadError(e)
    scratch.remove(fn)
    return err, tree, loaded


class ReadError:
    def __init__(self, e):
        self.e = e


def err_kind(e):
    if e is None:
        return None
    if isinstance(e, ValueError) and 'Cannot save' in str(e):
        return 'unsupported'
    if isinstance(e, AttributeError) and 'encode' in str(e):
        return 'mixedStringList'
    if isinstance(e, AttributeError):
        return 'notDict'
    return type(e).__name__ + ':' + str(e)[:60]


# ----------------------------------------------------------------------------------------------- generators
KEY_FIRST = 'abcdefghijklmnopqrstuvwxyzABCDEFGHIJKLMNOPQRSTUVWXYZ_'
KEY_MID = KEY_FIRST + '0123456789'
KEY_ODD = ' -.%:é中'
UNI = 'éü中α\U0001F600ß'
ASCII = ''.join(chr(c) for c in range(32, 127))


def gen_key(rng, used, ident=False):
    for _ in range(100):
        n = int(rng.integers(1, 8))
        s = KEY_FIRST[int(rng.integers(len(KEY_FIRST)))]
        for _ in range(n - 1):
            pool = KEY_MID if (ident or rng.random() < 0.85) else KEY_ODD
            s += pool[int(rng.integers(len(pool)))]
        if s[-1] in '0123456789' + KEY_ODD:
            s += KEY_FIRST[int(rng.integers(len(KEY_FIRST)))]
        if s not in used and not (ident and (keyword.iskeyword(s) or s == 'self')):
            used.add(s)
            return s
    raise C.InfraError('key generator exhausted')


def gen_float(rng):
    r = rng.random()
    if r < 0.05:
        return [float('nan'), float('inf'), float('-inf'), -0.0, 0.0, 5e-324, 1.7976931348623157e308][int(rng.integers(7))]
    return float(rng.normal() * 10.0 ** int(rng.integers(-30, 30)))


def gen_int(rng):
    r = rng.random()
    if r < 0.1:
        return [0, -1, 2 ** 62, -2 ** 63, 2 ** 63 - 1][int(rng.integers(5))]
    return int(rng.integers(-10 ** 6, 10 ** 6))


def gen_scalar(rng):
    r = rng.random()
    if r < 0.3:
        return gen_float(rng)
    if r < 0.45:
        return np.float64(gen_float(rng))
    if r < 0.7:
        return gen_int(rng)
    if r < 0.85:
        return np.int64(gen_int(rng))
    return bool(rng.random() < 0.5)


def gen_array(rng, min_dim=1, shape=None, kind=None):
    if shape is None:
        nd = int(rng.integers(min_dim, 4))
        shape = tuple(int(rng.integers(0 if rng.random() < 0.1 else 1, 5)) for _ in range(nd))
    kind = kind or ['f', 'f', 'i', 'b'][int(rng.integers(4))]
    n = int(np.prod(shape)) if len(shape) else 1
    if kind == 'f':
        a = np.array([gen_float(rng) for _ in range(n)], dtype=np.float64)
    elif kind == 'i':
        a = np.array([gen_int(rng) for _ in range(n)], dtype=np.int64)
    else:
        a = rng.random(n) < 0.5
    return a.reshape(shape)


def gen_str(rng, maxlen=40, ascii_only=False):
    n = int(rng.integers(0, maxlen + 1))
    pool = ASCII if (ascii_only or rng.random() < 0.6) else ASCII + UNI
    return ''.join(pool[int(rng.integers(len(pool)))] for _ in range(n))


def gen_clean_strs(rng):
    n = int(rng.integers(1, 6))
    out = [gen_str(rng, [12, 12, 64, 150][int(rng.integers(4))], ascii_only=bool(rng.random() < 0.6)) for _ in range(n)]
    if rng.random() < 0.15:     # exactly at and just beyond the 64-byte default width
        out[int(rng.integers(n))] = ''.join(ASCII[int(rng.integers(len(ASCII)))] for _ in range(int(rng.integers(63, 67))))
    if rng.random() < 0.1:      # 64 bytes reached by multi-byte characters
        out[int(rng.integers(n))] = 'é' * int(rng.integers(31, 34))
    if rng.random() < 0.15:     # long non-ASCII element: byte length > character length, beyond the default width
        pool = 'αβγδεζηθλμπσφωéèüñ'
        out[int(rng.integers(n))] = ''.join(pool[int(rng.integers(len(pool)))] for _ in range(int(rng.integers(33, 90))))
    return out


def gen_numlist(rng, depth=0):
    """a list numpy turns into one numeric array"""
    r = rng.random()
    if r < 0.08:
        return []
    if r < 0.5 or depth >= 2:
        n = int(rng.integers(1, 6))
        kinds = [['f'], ['i'], ['b'], ['f', 'i'], ['i', 'b'], ['f', 'i', 'b']][int(rng.integers(6))]
        out = []
        for _ in range(n):
            k = kinds[int(rng.integers(len(kinds)))]
            if k == 'f':
                out.append(gen_float(rng) if rng.random() < 0.7 else np.float64(gen_float(rng)))
            elif k == 'i':
                out.append(gen_int(rng) if rng.random() < 0.7 else np.int64(gen_int(rng)))
            else:
                out.append(bool(rng.random() < 0.5))
        return out
    if r < 0.75:   # list of equal-shape arrays
        n = int(rng.integers(1, 5))
        shape = tuple(int(rng.integers(0 if rng.random() < 0.1 else 1, 4)) for _ in range(int(rng.integers(0, 3))))
        return [gen_array(rng, shape=shape) for _ in range(n)]
    # nested lists / tuples of equal length
    n = int(rng.integers(1, 4))
    m = int(rng.integers(0, 4))
    rows = []
    for _ in range(n):
        row = [gen_float(rng) if rng.random() < 0.5 else gen_int(rng) for _ in range(m)]
        rows.append(tuple(row) if rng.random() < 0.3 else row)
    return rows


def gen_ragged(rng, depth):
    """a list numpy cannot turn into a numeric array: stored as key0, key1, ..."""
    r = rng.random()
    if r < 0.45:
        lens = [int(rng.integers(0, 6)) for _ in range(int(rng.integers(2, 5)))]
        if len(set(lens)) == 1:
            lens[0] += 1
        return [gen_array(rng, shape=(n,)) for n in lens]
    if r < 0.6:
        return [gen_scalar(rng), gen_numlist(rng, 1) or [1.0]]
    if r < 0.75:
        return [gen_array(rng, shape=(2, 3)), gen_array(rng, shape=(2, 4))]
    if r < 0.85 and depth < 2:
        return [gen_dict(rng, depth + 1, 'regular'), gen_scalar(rng)]
    if r < 0.93:
        return [gen_clean_strs(rng), gen_numlist(rng, 1)]
    return [gen_ragged(rng, depth + 1) if depth < 2 else [1, [2, 3]], gen_array(rng)]


def gen_value(rng, depth, cls):
    r = rng.random()
    if r < 0.25:
        return gen_scalar(rng)
    if r < 0.45:
        return gen_array(rng)
    if r < 0.57:
        return gen_str(rng, 100 if rng.random() < 0.1 else 30)
    if r < 0.67:
        return gen_clean_strs(rng)
    if r < 0.77 and depth < 3:
        return gen_dict(rng, depth + 1, cls)
    if cls == 'wf':
        return gen_array(rng) if rng.random() < 0.5 else gen_scalar(rng)
    # regular and beyond
    if r < 0.80:
        return tuple(gen_clean_strs(rng))
    if r < 0.90:
        l = gen_numlist(rng)
        return tuple(l) if rng.random() < 0.25 else l
    if r < 0.93:
        return gen_array(rng, min_dim=0, shape=())
    if cls == 'expansion':
        return gen_ragged(rng, depth)
    return gen_numlist(rng)


def gen_dict(rng, depth, cls):
    n = int(rng.integers(0 if rng.random() < 0.05 else 1, 8 if depth == 0 else 4))
    used = set()
    return {gen_key(rng, used): gen_value(rng, depth, cls) for _ in range(n)}


GREEK = 'αβγδεζηθικλμνξοπρστυφχψωΑΒΓΔΩ'
ACCENT = 'éèêëàâäùûüîïôöçñÉÈÀÜß'
K3_KINDS = ['long', 'nonascii', 'both', 'tuple-long', 'greek-bytes>64>=chars', 'greek-chars>64', 'accents-mixed-long',
            'cjk-bytes>64>=chars', 'emoji-long', 'exactly-64-bytes-multibyte']


def gen_k3(rng, k=None):
    """string arrays beyond 64 bytes / beyond ASCII, by fixed quota: every kind of K3_KINDS in turn; long
    non-ASCII elements (byte length > character length) always sit next to short ones"""
    d = gen_dict(rng, 1, 'wf')
    used = set(d)
    kind = K3_KINDS[int(rng.integers(len(K3_KINDS))) if k is None else k % len(K3_KINDS)]
    strs = gen_clean_strs(rng)
    i = int(rng.integers(len(strs)))

    def draw(pool, n):
        return ''.join(pool[int(rng.integers(len(pool)))] for _ in range(n))
    special = None
    if kind == 'greek-bytes>64>=chars':
        special = draw(GREEK, int(rng.integers(33, 65)))                 # 66..128 bytes, at most 64 characters
    elif kind == 'greek-chars>64':
        special = draw(GREEK + ' ', int(rng.integers(65, 140)))
    elif kind == 'accents-mixed-long':
        special = draw(ACCENT + ASCII[1:], int(rng.integers(50, 120)))
        special = special[:-1] + 'é'
        if len(special.encode('utf-8')) <= 64:
            special += draw(ACCENT, 40)
    elif kind == 'cjk-bytes>64>=chars':
        special = draw('中文字符串測試', int(rng.integers(22, 60)))       # 3 bytes per character
    elif kind == 'emoji-long':
        special = draw('\U0001F600\U0001F680\U0001F30D', int(rng.integers(17, 40)))   # 4 bytes per character
    elif kind == 'exactly-64-bytes-multibyte':
        special = draw(GREEK, 32)
    if special is not None:
        strs = [draw(ASCII[1:] + 'éα', int(rng.integers(1, 20))) for _ in range(int(rng.integers(1, 4)))]   # short neighbours
        strs.insert(int(rng.integers(len(strs) + 1)), special)
        d[gen_key(rng, used)] = tuple(strs) if rng.random() < 0.2 else strs
        return d
    if kind in ('long', 'both', 'tuple-long'):
        strs[i] = ''.join(ASCII[int(rng.integers(len(ASCII)))] for _ in range(int(rng.integers(65, 130))))
    if kind in ('nonascii', 'both'):
        j = int(rng.integers(len(strs)))
        s = strs[j] if len(strs[j]) < 60 else strs[j][:30]
        p = int(rng.integers(len(s) + 1))
        strs[j] = s[:p] + UNI[int(rng.integers(len(UNI)))] + s[p:]
    d[gen_key(rng, used)] = tuple(strs) if kind == 'tuple-long' else strs
    return d


def gen_error(rng):
    d = gen_dict(rng, 1, 'regular')
    used = set(d)
    k = gen_key(rng, used)
    kind = ['None', 'float32', 'bool_', 'int32', 'object', 'strarray', 'objarray', 'mixed', 'None-in-list',
            'nested-None', 'None-in-ragged', 'mixed-in-ragged'][int(rng.integers(12))]
    bad = {'None': None, 'float32': np.float32(1.5), 'bool_': np.bool_(True), 'int32': np.int32(3),
           'object': _Opaque(), 'strarray': np.array(['a', 'bc']), 'objarray': np.array([None, 1], dtype=object),
           'mixed': ['a', 1.5], 'None-in-list': [1.0, None], 'nested-None': {'x': 1.0, 'y': None},
           'None-in-ragged': [np.arange(2.0), np.arange(3.0), None],
           'mixed-in-ragged': [[1, 2], ['a', 3]]}[kind]
    d[k] = bad
    return d, kind


def gen_malformed(rng):
    kind = ['collision', 'slash-key', 'nul-string', 'huge-int', 'empty-key', 'not-a-dict', 'nul-in-strarray',
            'dup-str-key'][int(rng.integers(8))]
    if kind == 'collision':
        return {'a': [np.arange(2.0), np.arange(3.0)], 'a0': [1, 2, 3]}, kind
    if kind == 'slash-key':
        return {'a/b': 1.0, 'c': 2}, kind
    if kind == 'nul-string':
        return {'s': 'ab\x00cd'}, kind
    if kind == 'huge-int':
        return {'n': 2 ** 70}, kind
    if kind == 'empty-key':
        return {'': 1.0}, kind
    if kind == 'nul-in-strarray':
        return {'s': ['ab\x00', 'c']}, kind
    if kind == 'dup-str-key':
        return {1: 2.0, '1': 3.0}, kind
    return [1, 2, 3], kind


# ----------------------------------------------------------------------------------------------- dict stream
def _guard(ctx, stream, case, fn, *a, **kw):
    """no input inside the quantifier may kill the check: an exception raised by (or while using the results of) the
    real code is a violation with a key; only driver/infrastructure errors pass through"""
    import traceback
    try:
        return fn(*a, **kw)
    except (C.InfraError, C.ModelError, InvalidSpec):
        raise
    except Exception as e:  # noqa
        tb = traceback.format_exc().strip().splitlines()
        ctx.violation('exception:%s:%s' % (stream, type(e).__name__),
                      'unexpected %s while evaluating a %s case: %s' % (type(e).__name__, stream, str(e)[:200]), case,
                      dict(traceback=tb[-8:]))
        return None


def same_value(a, b):
    """is the value read back (a) the stored one (b): same kind, same bits"""
    ca, cb = cv(a), cv(b)
    return ca == cb


def signature(v, depth=0):
    if isinstance(v, dict):
        return 'd(' + ','.join(sorted(signature(x, depth + 1) for x in v.values())) + ')'
    if isinstance(v, (list, tuple)):
        return ('l' if isinstance(v, list) else 't') + '[' + ','.join(signature(x, depth + 1) for x in v[:4]) + ']'
    if isinstance(v, np.ndarray):
        return 'a%s%d' % (v.dtype.kind, v.ndim)
    return type(v).__name__


def judge_entry(ctx, path, orig, node, loaded_parent, key, case, cls):
    """the property's predicate for one dictionary entry, evaluated on what is in the file"""
    present = isinstance(loaded_parent, dict) and key in loaded_parent
    got = loaded_parent[key] if present else None
    where = '/'.join(path + [key])
    if isinstance(orig, dict):
        if not present or not isinstance(got, dict):
            ctx.violation('roundtrip-group-missing', 'nested dictionary %r is not a group of the same name' % where, case)
            return
        for k, v in orig.items():
            judge_entry(ctx, path + [key], v, None, got, str(k), case, cls)
        return
    if isinstance(orig, (bool, int, float, np.integer, np.floating)) or \
            (isinstance(orig, np.ndarray) and orig.ndim >= 1) or isinstance(orig, str):
        if not present or not same_value(got, orig if not isinstance(orig, np.ndarray) else orig):
            ctx.violation('roundtrip-changed:' + signature(orig), 'entry %r is not read back unchanged' % where, case,
                          dict(stored=tojson(orig), read=tojson(got) if present else 'absent'))
        return
    if isinstance(orig, np.ndarray):      # 0-d array: a scalar dataset of the same value
        if not present or cv(got)[1:] != cv(orig[()])[1:]:
            ctx.violation('roundtrip-changed:a0', '0-d array %r is not read back with the same value' % where, case)
        return
    if isinstance(orig, (list, tuple)):
        if any(isinstance(x, str) for x in orig):
            if not all(isinstance(x, str) for x in orig):
                return
            if not present or not isinstance(got, list) or list(got) != list(orig):
                ctx.violation('string-array-changed', 'string array %r is not read back unchanged' % where, case,
                              dict(stored=list(orig), read=got if present else 'absent'))
            return
        arr = None
        try:
            arr = np.array(orig)
            if arr.dtype.kind not in 'bif':
                arr = None
        except ValueError:
            arr = None
        if arr is not None:
            ok = present and ((isinstance(got, np.ndarray) and got.shape == arr.shape and cv(got) == cv(arr)))
            if not ok:
                ctx.violation('roundtrip-changed:numeric-list', 'numeric list %r is not read back as the same numbers'
                              % where, case)
            return
        # expansion: element i under key+str(i), judged recursively
        for i, x in enumerate(orig):
            judge_entry(ctx, path, x, None, loaded_parent, key + str(i), case, cls)


def eval_dict(ctx, scratch, value, cls, group_name='G', note=None):
    case = dict(stream='dict', cls=cls, group=group_name, value=tojson(value), note=note)
    return _guard(ctx, 'dict', case, _eval_dict, ctx, scratch, value, cls, group_name, note, case)


def _eval_dict(ctx, scratch, value, cls, group_name, note, case):
    toks = enc(value)
    m = ctx.model()
    d = m.call('c16.store', *toks)
    m_ok = d.nat() == 1
    m_tree = dec_node(d) if m_ok else None
    m_err = None if m_ok else d.tok()
    d = m.call('c16.roundtrip', *toks)
    m_loaded = dec_value(d) if d.nat() == 1 else None
    d = m.call('c16.flags', *toks)
    m_wf, m_reg, m_sup, m_isdict = d.bool(), d.bool(), d.bool(), d.bool()
    m_canon = dec_value(d)
    err, tree, loaded = real_store(scratch, value, group_name)
    sig = signature(value)[:80]
    if cls == 'malformed':
        ctx.malformed_outcome('%s:%s' % (note, 'stored' if err is None else type(err).__name__))
        ctx.case(bucket='dict:malformed')
        return
    ctx.case(key=('dict', cls, sig), sample=dict(cls=cls, signature=sig, raised=repr(err) if err else None),
             bucket='dict:' + cls)
    ctx.check_eq('store raises iff the model store fails', err is not None, not m_ok, case)
    ctx.check_eq('model: store fails iff not (dict and supported)', not m_ok, not (m_isdict and m_sup), case)
    if err is not None:
        if cls != 'error':
            ctx.violation('store-raises:' + signature(value)[:40], 'store_dictionary raised %r on a storable dictionary'
                          % (err,), case)
        else:
            ctx.malformed_outcome('unsupported:%s:%s' % (note, type(err).__name__))
            ctx.check_eq('kind of error', err_kind(err), m_err, case)
        return
    if cls == 'error':
        ctx.violation('unsupported-silently-stored:' + str(note), 'an unsupported value was stored without an error', case)
        return
    ctx.check_eq('stored tree: HDF5 file vs Output.store', tree, m_tree, case)
    if isinstance(loaded, ReadError):
        ctx.violation('read-back-raises:' + type(loaded.e).__name__,
                      'the stored dictionary cannot be decoded again (decode_string_array / h5py): %r' % (loaded.e,), case)
        return
    ctx.check_eq('decoded content: file vs Output.load (Output.store v)', cv(loaded), m_loaded, case)
    if m_reg:
        ctx.check_eq('regular value: load(store v) = canon v (model)', m_loaded, m_canon, case)
    if m_wf:
        ctx.bucket('dict:WF')
        ctx.check_eq('WF value: load(store v) = v (model)', m_loaded, cv(value), case)
        if cv(loaded) != cv(value):
            ctx.violation('roundtrip-changed:wf', 'a well-formed dictionary is not read back unchanged', case)
    for k, v in value.items():
        judge_entry(ctx, [], v, None, loaded, str(k), case, cls)
    extra = set(loaded) - expected_names(value)
    if extra:
        ctx.violation('roundtrip-extra-names', 'names in the file that the dictionary does not explain: %r' % sorted(extra),
                      case)


def expected_names(value):
    out = set()
    for k, v in value.items():
        k = str(k)
        out.add(k)
        if isinstance(v, (list, tuple)):
            def exp(key, l):
                for i, x in enumerate(l):
                    out.add(key + str(i))
                    if isinstance(x, (list, tuple)):
                        exp(key + str(i), x)
            exp(k, v)
    return out


def stream_dict(ctx, scratch):
    rng = ctx.rng
    for cls, n in (('wf', ctx.n(200, 5000)), ('regular', ctx.n(250, 7000)), ('expansion', ctx.n(200, 5000))):
        for i in range(n):
            eval_dict(ctx, scratch, gen_dict(rng, 0, cls), cls, group_name=None if i % 5 == 0 else 'G')
    for k in range(ctx.n(60, 1000)):
        eval_dict(ctx, scratch, gen_k3(rng, k), 'k3')
        ctx.bucket('dict:k3:' + K3_KINDS[k % len(K3_KINDS)])
    for _ in range(ctx.n(108, 1500)):
        v, kind = gen_error(rng)
        eval_dict(ctx, scratch, v, 'error', note=kind)
    for _ in range(ctx.n(16, 80)):
        v, kind = gen_malformed(rng)
        case = dict(stream='dict', cls='malformed', value=tojson(v), note=kind)
        try:
            err, tree, loaded = real_store(scratch, v, 'G')
            ctx.malformed_outcome('%s:%s' % (kind, 'stored' if err is None else type(err).__name__))
        except Exception as e:  # noqa
            ctx.malformed_outcome('%s:%s' % (kind, type(e).__name__))
        ctx.case(bucket='dict:malformed')


# ----------------------------------------------------------------------------------------------- group stream
def eval_group(ctx, scratch, name, value, op):
    case = dict(stream='group', op=op, name=name, value=tojson(value))
    return _guard(ctx, 'group', case, _eval_group, ctx, scratch, name, value, op)


def _eval_group(ctx, scratch, name, value, op):
    """direct HDF5OutputGroup.write_array (list branch) / write_list"""
    import h5py
    from taurex.output.hdf5 import HDF5Output
    case = dict(stream='group', op=op, name=name, value=tojson(value))
    fn = scratch.path()
    err = None
    try:
        with HDF5Output(fn) as o:
            g = o.create_group('G')
            if op == 'write_array':
                g.write_array(name, value)
            else:
                g.write_list(name, value)
    except Exception as e:  # noqa
        err = e
    tree = None
    if err is None:
        with h5py.File(fn, 'r') as f:
            tree = read_node(f['G'])[1]
    scratch.remove(fn)
    d = ctx.model().call('c16.' + op, C.S(name), *enc(value))
    m = dec_children(d) if d.nat() == 1 else None
    ctx.case(key=('group', op, signature(value)[:60]), bucket='group:' + op)
    ctx.check_eq(op + ' raises iff the model has no result', err is not None, m is None, case)
    if err is None and m is not None:
        ctx.check_eq(op + ': file vs model', tree, m, case)
        if op == 'write_array' and isinstance(value, list):
            for i, a in enumerate(value):
                if name + str(i) not in tree or tree[name + str(i)] != ('N',) + _carr(a):
                    ctx.violation('write_array-list', 'write_array(list): element %d is not stored unchanged as %s%d'
                                  % (i, name, i), case)


def stream_group(ctx, scratch):
    rng = ctx.rng
    for _ in range(ctx.n(80, 1500)):
        r = rng.random()
        if r < 0.6:
            v = [gen_array(rng) for _ in range(int(rng.integers(0, 5)))]
        elif r < 0.8:
            v = gen_array(rng)
        else:
            v = [gen_array(rng), gen_float(rng)]     # a non-array element: AttributeError in the real code
        eval_group(ctx, scratch, gen_key(rng, set()), v, 'write_array')
    for _ in range(ctx.n(80, 2500)):
        v = gen_numlist(rng) if rng.random() < 0.8 else gen_ragged(rng, 2)
        if any(isinstance(x, (dict, str)) for x in v) or any(isinstance(y, str) for x in v if isinstance(x, list)
                                                              for y in x):
            continue
        eval_group(ctx, scratch, gen_key(rng, set()), v, 'write_list')


# ----------------------------------------------------------------------------------------------- component stream
_MISSING = object()


def make_dummy(kwnames):
    src = 'def __init__(self%s):\n    self.kw = dict(%s)\n' % (
        ''.join(', %s=_MISSING' % k for k in kwnames), ', '.join('%s=%s' % (k, k) for k in kwnames))
    ns = {'_MISSING': _MISSING}
    exec(src, ns)
    return type('VerifDummyC16', (object,), {'__init__': ns['__init__']})


def eval_component(ctx, scratch, typekey, ctorkw, entries):
    case = dict(stream='component', typekey=typekey, ctorkw=ctorkw, entries=tojson(entries))
    return _guard(ctx, 'component', case, _eval_component, ctx, scratch, typekey, ctorkw, entries)


def _eval_component(ctx, scratch, typekey, ctorkw, entries):
    import h5py
    from taurex.output.hdf5 import HDF5Output
    from taurex.util.hdf5 import load_generic_profile_from_hdf5
    from taurex.parameter.classfactory import ClassFactory
    case = dict(stream='component', typekey=typekey, ctorkw=ctorkw, entries=tojson(entries))
    K = make_dummy(ctorkw)
    cf = ClassFactory()
    fn = scratch.path()
    cf._temp_klasses.add(K)
    err = None
    obj = None
    try:
        with HDF5Output(fn) as o:
            o.store_dictionary(dict([(typekey, 'VerifDummyC16')] + list(entries.items())), group_name='Comp')
        with h5py.File(fn, 'r') as f:
            obj = load_generic_profile_from_hdf5(f['Comp'], 'unused', typekey)
    except Exception as e:  # noqa
        err = e
    finally:
        cf._temp_klasses.discard(K)
        scratch.remove(fn)
    d = ctx.model().call('c16.reload', C.S(typekey), C.L([ord(c) for c in 'VerifDummyC16'], C.N),
                         C.L(ctorkw, C.S), *enc(entries))
    m_ok = d.nat() == 1
    ctx.case(key=('component', len(ctorkw), signature(entries)[:60]), bucket='component')
    ctx.check_eq('component reload raises iff the model fails', err is not None, not m_ok, case)
    if err is not None or not m_ok:
        if err is not None:
            ctx.violation('component-reload-raises', 'load_generic_profile_from_hdf5 raised %r' % (err,), case)
        return
    m_klass = dec_value(d) if d.nat() == 1 else None
    m_kw = dec_value(d)[1]
    got = {k: v for k, v in obj.kw.items() if v is not _MISSING}
    ctx.check_eq('class read back', ('s', type(obj).__name__), m_klass, case)
    ctx.check_eq('constructor keywords: load_generic_profile_from_hdf5 vs Output.loadKwargs', cv(got)[1], m_kw, case)
    # the property on the real loader: every constructor keyword that was written comes back with its value
    for k in ctorkw:
        if k in entries:
            v = entries[k]
            simple = isinstance(v, (bool, int, float, str)) or (isinstance(v, np.ndarray) and v.ndim >= 1)
            if simple and (k not in got or not same_value(got[k], v)):
                ctx.violation('component-kwarg-changed', 'constructor keyword %r does not come back unchanged' % k, case)
        elif k in got:
            ctx.violation('component-kwarg-invented', 'keyword %r was never written but is passed' % k, case)


def stream_component(ctx, scratch):
    rng = ctx.rng
    for _ in range(ctx.n(120, 3000)):
        used = set()
        names = [gen_key(rng, used, ident=True) for _ in range(int(rng.integers(0, 7)))]
        typekey = gen_key(rng, used, ident=True) + '_type'
        entries = {}
        ctorkw = []
        for k in names:
            r = rng.random()
            if r < 0.7:
                ctorkw.append(k)
                entries[k] = gen_component_value(rng)
            elif r < 0.85:
                ctorkw.append(k)          # constructor keyword that write() omits
            else:
                entries[k] = gen_component_value(rng)    # extra stored entry (derived quantity)
        rng.shuffle(ctorkw)
        eval_component(ctx, scratch, typekey, ctorkw, entries)


def gen_component_value(rng):
    r = rng.random()
    if r < 0.4:
        return gen_scalar(rng)
    if r < 0.6:
        return gen_array(rng)
    if r < 0.75:
        return gen_str(rng, 20)
    if r < 0.87:
        return gen_clean_strs(rng)
    if r < 0.95:
        return gen_numlist(rng)
    return gen_ragged(rng, 2)


# ----------------------------------------------------------------------------------------------- spectrum stream
def make_binner(kind, grid, width):
    from taurex.binning import FluxBinner, SimpleBinner, NativeBinner
    if kind == 'flux':
        return FluxBinner(np.array(grid), None if width is None else np.array(width))
    if kind == 'simple':
        return SimpleBinner(np.array(grid), None if width is None else np.array(width))
    return NativeBinner()


def gen_spectrum_case(rng, k):
    n = int(rng.integers(8, 61))
    lo = float(rng.uniform(200, 3000))
    hi = lo * float(rng.uniform(1.5, 20))
    if rng.random() < 0.5:
        wn = np.linspace(lo, hi, n)
    else:
        wn = np.sort(rng.uniform(lo, hi, n))
        if np.min(np.diff(wn)) <= 0:
            wn = np.linspace(lo, hi, n)
    nl = int(rng.integers(1, 7))
    flux = rng.uniform(1e-4, 3e-2, n)
    tau = 10.0 ** rng.uniform(-6, 2, (nl, n))
    nb = int(rng.integers(2, 13))
    a, b = wn[1], wn[-2]
    grid = np.sort(rng.uniform(a, b, nb)) if rng.random() < 0.6 else np.linspace(a, b, nb)
    if np.min(np.diff(grid)) <= 0:
        grid = np.linspace(a, b, nb)
    width = None
    if rng.random() < 0.5:
        width = np.minimum(np.gradient(grid), (b - a) / nb) * rng.uniform(0.2, 1.0, nb)
    kind = ['flux', 'simple', 'native'][k % 3]
    size = [1, 3, 6, 0, 2, 4, 5, 7][(k // 3) % 8]
    if kind == 'flux' and (k // 3) % 3 != 0:
        # quota: the bins are REQUESTED in another order than ascending wavenumber (listed by ascending wavelength, or in the
        # order of the instrument channels), two thirds of these with their own non-uniform widths
        if (k // 3) % 3 == 1 or width is None and rng.random() < 0.5:
            width = np.minimum(np.gradient(grid), (b - a) / nb) * rng.uniform(0.2, 1.0, nb)
        o = np.arange(nb)[::-1] if rng.random() < 0.5 else rng.permutation(nb)
        grid = grid[o]
        width = None if width is None else width[o]
    return dict(stream='spectrum', kind=kind, size=size, wn=wn, flux=flux, tau=tau, grid=grid, width=width,
                enum=bool(rng.random() < 0.7))


def eval_spectrum(ctx, scratch, c, binner=None, whole_case=None):
    case = whole_case if whole_case is not None else dict(c)
    return _guard(ctx, 'spectrum', case, _eval_spectrum, ctx, scratch, c, binner, whole_case)


def _eval_spectrum(ctx, scratch, c, binner=None, whole_case=None):
    """`binner`: an instance that has already been used on other native grids (reuse stream); the reference for
    every identity is always a FRESH binner built from the same bin grid"""
    from taurex import OutputSize
    wn, flux, tau = (np.asarray(c['wn'], float), np.asarray(c['flux'], float), np.asarray(c['tau'], float))
    grid = np.asarray(c['grid'], float)
    width = None if c.get('width') is None else np.asarray(c['width'], float)
    kind, size = c['kind'], int(c['size'])
    case = dict(stream='spectrum', kind=kind, size=size, wn=wn, flux=flux, tau=tau, grid=grid, width=width,
                enum=c.get('enum', False))
    if whole_case is not None:
        case = whole_case
    reused = binner is not None
    small = dict(stream='spectrum', kind=kind, size=size, n=len(wn), nbins=len(grid), explicit_width=width is not None,
                 reused_binner=reused)

    def fresh():
        return make_binner(kind, grid, width)
    if binner is None:
        binner = fresh()
    osize = OutputSize(size) if (c.get('enum') and size in (1, 3, 6)) else size
    try:
        out = binner.generate_spectrum_output((wn, flux, tau, None), output_size=osize)
    except Exception as e:  # noqa
        ctx.violation('spectrum-output-raises:' + kind, 'generate_spectrum_output raised %r' % (e,), case)
        return None
    ctx.case(key=('spectrum', kind, size, width is not None, reused), sample=small,
             bucket='spectrum%s:%s:size%d' % ('-reuse' if reused else '', kind, size))
    # ---- correspondence with Output.spectrumOutput (bindown results are parameters of the model)
    if kind == 'native':
        bgrid, bwidth, bdf, bdt = [], [], [], []
    else:
        ref = fresh()
        bgrid = np.asarray(ref._wngrid, float)
        bwidth = np.asarray(ref._wngrid_width if kind == 'flux' else ref._wn_width, float)
        bdf = np.asarray(fresh().bindown(wn, flux)[1], float)
        bdt = np.asarray(fresh().bindown(wn, tau)[1], float) if size > 1 else np.zeros((0, 0))
    d = ctx.model().call('c16.spectrum', C.N({'flux': 0, 'simple': 1, 'native': 2}[kind]), C.N(size), C.L(wn), C.L(flux),
                         C.LL(tau), C.L(bgrid), C.L(bwidth), C.L(bdf), C.LL(bdt))
    mod = {}
    for _ in range(d.nat()):
        k = d.str()
        t = d.nat()
        mod[k] = np.array(d.list()) if t == 1 else np.array([d.list() for _ in range(d.nat())])
    ctx.check_eq('generate_spectrum_output keys vs Output.spectrumOutput', sorted(out), sorted(mod), small)
    for k in sorted(set(out) & set(mod)):
        a, b = np.asarray(out[k], float), np.asarray(mod[k], float)
        if a.shape != b.shape and a.size == b.size == 0:
            continue
        if a.shape != b.shape:
            ctx.mismatch('shape of ' + k, case, dict(impl=a.shape, model=b.shape))
            continue
        ctx.check_close('spectrum entry ' + k, a.ravel(), b.ravel(), case, rel=1e-12, abs_=0.0)
    # ---- the property's identities, on the produced dictionary
    judge_spectrum(ctx, out, fresh, kind, size, tau, case)
    if kind == 'flux' and not reused:
        judge_requested_bins(ctx, out, wn, flux, tau, grid, width, size, case, small)
    # bin_model of the (possibly reused) instance = a fresh binner applied to the same result
    try:
        bm = binner.bin_model((wn, flux, tau, None))
        rf = fresh().bindown(wn, flux)
        for i in (0, 1, 3):
            if (bm[i] is None) != (rf[i] is None) or (bm[i] is not None and not (
                    np.shape(bm[i]) == np.shape(rf[i]) and C.close(np.ravel(bm[i]), np.ravel(rf[i]), rel=1e-13))):
                ctx.violation('bin_model-not-bindown:' + kind, 'bin_model(result)[%d] is not a fresh binner applied to '
                              'the same spectrum' % i, case)
                break
    except Exception as e:  # noqa
        ctx.violation('bin_model-raises:' + kind, 'bin_model raised %r' % (e,), case)
    return out


def judge_requested_bins(ctx, out, wn, flux, tau, grid, width, size, case, small):
    """a FluxBinner built from a REQUEST (bin centres in any order, optionally one width per centre): the stored dictionary
    describes those very bins - centre i keeps width i (Binning.targetBins: the request sorted by centre, a permutation of the
    (centre, width) pairs; C05 sortBy_perm / perm_target), the wavelength width is that width converted at that centre, and the
    binned spectrum / optical depth are those of the same bins requested in ascending order"""
    asc = bool(np.all(np.diff(grid) > 0))
    ctx.bucket('spectrum:flux:request-%s:%s' % ('ascending' if asc else 'unsorted',
                                                'explicit-widths' if width is not None else 'default-widths'))
    if len(np.unique(grid)) != len(grid):
        return
    # model: Binning.targetBins on the request, fluxBindown of the stored native spectrum on them
    d = ctx.model('C05').call('c05.flux', C.N(0), C.L(wn), C.L([]), C.LL([list(flux)]), C.LL([]),
                              *([C.N(0)] if width is None else [C.N(2)]), C.L(grid), C.L([] if width is None else width))
    mg, mw = np.array(d.list()), np.array(d.list())
    mb = [np.array(x) for x in d.list(d.list)]
    d.list(d.list)
    m_ordered = d.bool()
    if 'binned_wngrid' in out and 'binned_wnwidth' in out:
        ctx.check_close('binned_wngrid vs Binning.targetBins of the request', np.asarray(out['binned_wngrid'], float), mg, case,
                        rel=0, abs_=0)
        ctx.check_close('binned_wnwidth vs Binning.targetBins of the request', np.asarray(out['binned_wnwidth'], float), mw, case,
                        rel=1e-15)
        if m_ordered and 'binned_spectrum' in out and len(mb) == 1:
            ctx.check_close('binned_spectrum vs Binning.fluxBindown on the requested bins', np.asarray(out['binned_spectrum'], float),
                            mb[0], case, rel=1e-9, abs_=1e-12 * float(np.max(np.abs(flux))))
    # the property's predicates on the real code alone
    for k in ('binned_wngrid', 'binned_wnwidth', 'binned_wlwidth', 'binned_spectrum'):
        if k not in out:
            return
    b_wn, b_w, b_wlw = (np.asarray(out[k], float) for k in ('binned_wngrid', 'binned_wnwidth', 'binned_wlwidth'))
    if width is not None:
        for c, w in zip(grid, width):
            j = np.where(b_wn == c)[0]
            if len(j) != 1:
                ctx.violation('requested-bin-missing:flux', 'the bin requested at %r cm-1 is not in binned_wngrid' % float(c), case)
                return
            j = int(j[0])
            if b_w[j] != w or not C.close([b_wlw[j]], [10000 * w / c ** 2], rel=1e-13, abs_=0.0):
                ctx.violation('binned-width-of-another-bin:flux',
                              'the bin requested with centre %r and width %r cm-1 is stored with binned_wnwidth %r and '
                              'binned_wlwidth %r (its width converted at its centre: %r)'
                              % (float(c), float(w), float(b_w[j]), float(b_wlw[j]), float(10000 * w / c ** 2)), case,
                              dict(requested=dict(centres=grid, widths=width), stored=dict(binned_wngrid=b_wn, binned_wnwidth=b_w)))
                return
    o = np.argsort(grid, kind='stable')
    ref = make_binner('flux', grid[o], None if width is None else width[o])
    r = ref.bindown(wn, flux)
    if not (np.shape(r[1]) == np.shape(out['binned_spectrum']) and
            C.close(np.ravel(out['binned_spectrum']), np.ravel(r[1]), rel=1e-13, abs_=0.0)):
        ctx.violation('binned-not-bindown-of-requested-bins:flux',
                      'binned_spectrum is not the binning of the stored native spectrum to the requested bins (the same bins '
                      'requested in ascending order give another result)', case,
                      dict(stored=out['binned_spectrum'], ascending_request=r[1]))
        return
    if 'binned_tau' in out:
        rt = ref.bindown(wn, tau)[1]
        if not (np.shape(rt) == np.shape(out['binned_tau']) and C.close(np.ravel(out['binned_tau']), np.ravel(rt), rel=1e-13,
                                                                         abs_=0.0)):
            ctx.violation('binned-tau-not-bindown-of-requested-bins:flux',
                          'binned_tau is not the binning of the optical depth to the requested bins', case)


def judge_spectrum(ctx, out, fresh, kind, size, tau, case, prefix=''):
    """`fresh()` builds a new binner with the bin grid of the one that produced `out`: 'the binner applied to the
    stored native spectrum' must not depend on what the producing instance was used for before"""
    class _B:
        def bindown(self, *a):
            return fresh().bindown(*a)
    binner = _B()

    def bad(key, what, detail=None):
        ctx.violation(prefix + key + ':' + kind, what, case, detail)

    def eq(a, b, rel=1e-13):
        a, b = np.asarray(a, float), np.asarray(b, float)
        return a.shape == b.shape and C.close(a.ravel(), b.ravel(), rel=rel, abs_=0.0)

    for g in ('native', 'binned'):
        if g + '_wngrid' in out or g + '_wlgrid' in out:
            if not (g + '_wngrid' in out and g + '_wlgrid' in out and eq(out[g + '_wlgrid'], 10000 / np.asarray(out[g + '_wngrid']))):
                bad('wlgrid-not-10000-over-wn', g + '_wlgrid is not 10000/' + g + '_wngrid')
    if kind != 'native':
        for k in ('binned_wngrid', 'binned_wlgrid', 'binned_wnwidth', 'binned_wlwidth', 'binned_spectrum'):
            if k not in out:
                bad('missing-key', k + ' is missing')
                return
        wn_b, w_b = np.asarray(out['binned_wngrid']), np.asarray(out['binned_wnwidth'])
        if not eq(out['binned_wlwidth'], 10000 * w_b / wn_b ** 2):
            bad('binned-wlwidth-formula', 'binned_wlwidth is not 10000*binned_wnwidth/binned_wngrid**2',
                dict(got=out['binned_wlwidth'], expected=10000 * w_b / wn_b ** 2))
        res = binner.bindown(np.asarray(out['native_wngrid']), np.asarray(out['native_spectrum']))
        if not eq(res[0], wn_b) or not eq(res[3], w_b):
            bad('binned-grid-not-the-binners', 'binned_wngrid / binned_wnwidth are not the bins the binner bins to')
        if not eq(out['binned_spectrum'], res[1]):
            bad('binned-not-bindown', 'binned_spectrum is not the binner applied to the stored native spectrum')
        if ('binned_tau' in out) != (size > 1):
            bad('binned-tau-presence', 'binned_tau present=%s with output size %d' % ('binned_tau' in out, size))
        if 'binned_tau' in out and 'native_tau' in out:
            if not eq(out['binned_tau'], binner.bindown(np.asarray(out['native_wngrid']), np.asarray(out['native_tau']))[1]):
                bad('binned-tau-not-bindown', 'binned_tau is not the binner applied to the stored native_tau')
        elif 'binned_tau' in out and not eq(out['binned_tau'], binner.bindown(np.asarray(out['native_wngrid']), tau)[1]):
            bad('binned-tau-not-bindown', 'binned_tau is not the binner applied to the optical depth')
    if ('native_tau' in out) != (size > 3):
        bad('native-tau-presence', 'native_tau present=%s with output size %d' % ('native_tau' in out, size))
    if 'native_tau' in out and not eq(out['native_tau'], tau, rel=0.0):
        bad('native-tau-changed', 'native_tau is not the optical depth of the model result')


def gen_reuse_case(rng, k):
    """one binner instance used on 2-3 different native grids of EQUAL length (linear, log / constant-R, irregular)"""
    n = int(rng.integers(10, 50))
    lo = float(rng.uniform(200, 2000))
    hi = lo * float(rng.uniform(3, 15))
    lin = np.linspace(lo, hi, n)
    log = np.geomspace(lo, hi, n)
    R = n / np.log(hi / lo) * float(rng.uniform(0.7, 1.0))
    constR = lo * (1 + 1 / R) ** np.arange(n)
    irr = np.sort(rng.uniform(lo, hi, n))
    if np.min(np.diff(irr)) <= 0:
        irr = np.linspace(lo * 1.01, hi * 0.99, n)
    grids = [lin, log, constR, irr]
    order = list(rng.permutation(4))[:int(rng.integers(2, 4))]
    nl = int(rng.integers(1, 4))
    natives = [dict(wn=grids[i], flux=rng.uniform(1e-4, 3e-2, n), tau=10.0 ** rng.uniform(-4, 1.5, (nl, n))) for i in order]
    a = max(g['wn'][1] for g in natives)
    b = min(g['wn'][-2] for g in natives)
    if a >= b:      # the native grids share no interior range: request bins inside the first one (a descending request is malformed)
        a, b = float(natives[0]['wn'][1]), float(natives[0]['wn'][-2])
    nb = int(rng.integers(2, 9))
    grid = np.linspace(a, b, nb) if rng.random() < 0.5 else np.sort(rng.uniform(a, b, nb))
    if np.min(np.diff(grid)) <= 0:
        grid = np.linspace(a, b, nb)
    width = None if rng.random() < 0.5 else np.gradient(grid) * rng.uniform(0.3, 1.0, nb)
    return dict(stream='spectrum-reuse', kind=['flux', 'simple', 'native'][k % 3], size=[6, 3, 1][(k // 3) % 3],
                grid=grid, width=width, natives=natives, enum=True)


def eval_spectrum_reuse(ctx, scratch, c):
    grid = np.asarray(c['grid'], float)
    width = None if c.get('width') is None else np.asarray(c['width'], float)
    binner = make_binner(c['kind'], grid, width)
    whole = dict(c)
    for nat in c['natives']:
        eval_spectrum(ctx, scratch, dict(c, stream='spectrum', wn=nat['wn'], flux=nat['flux'], tau=nat['tau']),
                      binner=binner, whole_case=whole)


def stream_spectrum(ctx, scratch):
    for k in range(ctx.n(36, 1200)):
        eval_spectrum_reuse(ctx, scratch, gen_reuse_case(ctx.rng, k))
    for k in range(ctx.n(216, 7200)):
        c = gen_spectrum_case(ctx.rng, k)
        out = eval_spectrum(ctx, scratch, c)
        if out is not None and k % 4 == 0:
            # the produced dictionary goes through the writer as well (stored spectra re-read)
            eval_dict(ctx, scratch, {kk: np.asarray(v) for kk, v in out.items()}, 'wf', group_name='Spectra',
                      note='spectrum-output')


# ----------------------------------------------------------------------------------------------- model stream
_OPAC_READY = [False]
MOLS = ['H2O', 'CH4', 'CO2']
WN_OPAC = np.linspace(400.0, 4000.0, 48)


def setup_opacities():
    """in-memory cross-sections and CIA (recipe of NOTES.md); deterministic tables"""
    if _OPAC_READY[0]:
        return
    import logging
    logging.disable(logging.CRITICAL)
    from taurex.opacity.interpolateopacity import InterpolatingOpacity
    from taurex.cache import OpacityCache, CIACache
    from taurex.cia import CIA
    rng = np.random.Generator(np.random.PCG64(12345))
    tg = np.array([100., 500., 1500., 3000.])
    pg = 10 ** np.array([-3., 1., 4., 7.5])

    def mem(name):
        tab = 10 ** (-21 + rng.uniform(-2, 2, size=(4, 4, len(WN_OPAC))))

        class MemOp(InterpolatingOpacity):
            def __init__(self):
                super().__init__('Mem' + name, interpolation_mode='linear')
            moleculeName = name
            xsecGrid = property(lambda self: tab)
            wavenumberGrid = property(lambda self: WN_OPAC)
            temperatureGrid = property(lambda self: tg)
            pressureGrid = property(lambda self: pg)
        return MemOp()

    class MemCIA(CIA):
        def __init__(self, pair, scale):
            super().__init__('MemCIA', pair)
            self._scale = scale
        wavenumberGrid = property(lambda self: WN_OPAC)
        temperatureGrid = property(lambda self: np.array([100., 3000.]))

        def compute_cia(self, temperature):
            return np.full(len(WN_OPAC), self._scale) * (1 + temperature / 1000) * (1 + WN_OPAC / 4000)

    OpacityCache().clear_cache()
    for mname in MOLS:
        OpacityCache().add_opacity(mem(mname))
    CIACache().cia_dict = {}
    CIACache().add_cia(MemCIA('H2-H2', 3e-49))
    CIACache().add_cia(MemCIA('H2-He', 1e-49))
    _OPAC_READY[0] = True


def klass_table():
    from taurex.model import TransmissionModel, EmissionModel, DirectImageModel
    from taurex.data.profiles.temperature import Isothermal, Guillot2010, NPoint, Rodgers2000, TemperatureFile
    from taurex.data.profiles.temperature.temparray import TemperatureArray
    from taurex.data.profiles.chemistry import TaurexChemistry, ConstantGas, TwoLayerGas, PowerGas, ChemistryFile
    from taurex.data.profiles.chemistry.gas.twopointgas import TwoPointGas
    from taurex.data.profiles.chemistry.gas.arraygas import ArrayGas
    from taurex.data.profiles.pressure import SimplePressureProfile, ArrayPressureProfile, FilePressureProfile
    from taurex.data.planet import Planet
    from taurex.data.stellar import BlackbodyStar
    from taurex.data.stellar.star import Star
    from taurex import contributions as ct
    t = dict(TransmissionModel=TransmissionModel, EmissionModel=EmissionModel, DirectImageModel=DirectImageModel,
             Isothermal=Isothermal, Guillot2010=Guillot2010, NPoint=NPoint, Rodgers2000=Rodgers2000,
             TemperatureFile=TemperatureFile, TemperatureArray=TemperatureArray, TaurexChemistry=TaurexChemistry,
             ConstantGas=ConstantGas, TwoLayerGas=TwoLayerGas, PowerGas=PowerGas, ChemistryFile=ChemistryFile,
             TwoPointGas=TwoPointGas, ArrayGas=ArrayGas, SimplePressureProfile=SimplePressureProfile,
             ArrayPressureProfile=ArrayPressureProfile, FilePressureProfile=FilePressureProfile, Planet=Planet,
             BlackbodyStar=BlackbodyStar, Star=Star)
    for n in ('AbsorptionContribution', 'CIAContribution', 'RayleighContribution', 'SimpleCloudsContribution',
              'FlatMieContribution', 'LeeMieContribution', 'HydrogenIon'):
        t[n] = getattr(ct, n)
    return t


def _arr(x):
    return np.asarray(x, float)


def build_component(tab, spec, files=None):
    kw = {}
    for k, v in spec.get('kw', {}).items():
        if isinstance(v, dict) and 'array' in v:
            v = _arr(v['array'])
        elif isinstance(v, dict) and 'file' in v:
            v = files[v['file']]
        kw[k] = v
    args = [(_arr(a['array']) if isinstance(a, dict) and 'array' in a else a) for a in spec.get('args', [])]
    return tab[spec['cls']](*args, **kw)


def build_model(spec, files=None):
    tab = klass_table()
    chem_spec = spec['chemistry']
    chem = build_component(tab, chem_spec, files)
    for g in chem_spec.get('gases', []):
        chem.addGas(build_component(tab, g, files))
    m = tab[spec['model']['cls']](planet=build_component(tab, spec['planet'], files),
                                  star=build_component(tab, spec['star'], files),
                                  pressure_profile=None if spec['pressure'] is None else build_component(tab, spec['pressure'], files),
                                  temperature_profile=build_component(tab, spec['temperature'], files),
                                  chemistry=chem, **spec['model'].get('kw', {}))
    for c in spec['contributions']:
        m.add_contribution(build_component(tab, c, files))
    return m


def rnd(rng, lo, hi, log=False, nd=4):
    x = 10 ** rng.uniform(np.log10(lo), np.log10(hi)) if log else rng.uniform(lo, hi)
    return float('%.*g' % (nd, x))


def gen_model_spec(rng, k):
    nl = int(rng.integers(4, 16))
    pmin, pmax = rnd(rng, 1e-3, 1e0, True), rnd(rng, 1e4, 1e7, True)
    spec = {}
    mk = ['TransmissionModel', 'EmissionModel', 'DirectImageModel'][k % 3]
    mkw = {}
    if mk == 'TransmissionModel':
        if rng.random() < 0.6:
            mkw['new_path_method'] = bool(rng.random() < 0.6)
    elif rng.random() < 0.7:
        mkw['ngauss'] = int(rng.integers(1, 7))
    if rng.random() < 0.25:
        spec['pressure'] = None
        mkw.update(nlayers=nl, atm_min_pressure=pmin, atm_max_pressure=pmax)
    else:
        spec['pressure'] = dict(cls='SimplePressureProfile', kw=dict(nlayers=nl, atm_min_pressure=pmin, atm_max_pressure=pmax))
    spec['model'] = dict(cls=mk, kw=mkw)
    pk = dict(planet_mass=rnd(rng, 0.3, 3), planet_radius=rnd(rng, 0.5, 1.8))
    for name, lo, hi in (('planet_distance', 0.01, 2), ('impact_param', 0, 0.9), ('orbital_period', 0.5, 20),
                         ('albedo', 0, 0.9), ('transit_time', 100, 9000)):
        if rng.random() < 0.6:
            pk[name] = rnd(rng, lo, hi)
    if rng.random() < 0.3:
        pk['planet_sma'] = rnd(rng, 0.01, 2)
    spec['planet'] = dict(cls='Planet', kw=pk)
    sk = dict(temperature=rnd(rng, 3000, 8000), radius=rnd(rng, 0.4, 1.8))
    for name, lo, hi in (('distance', 1, 100), ('magnitudeK', 4, 12), ('mass', 0.3, 2), ('metallicity', 0.5, 2)):
        if rng.random() < 0.6:
            sk[name] = rnd(rng, lo, hi)
    spec['star'] = dict(cls='BlackbodyStar', kw=sk)
    tk = ['Isothermal', 'Guillot2010', 'NPoint', 'Rodgers2000'][int(rng.integers(4))]
    if tk == 'Isothermal':
        t = dict(cls=tk, kw=dict(T=rnd(rng, 400, 2500)))
    elif tk == 'Guillot2010':
        kw = dict(T_irr=rnd(rng, 600, 2500))
        for name, lo, hi in (('kappa_irr', 1e-3, 1e-1), ('kappa_v1', 1e-3, 5e-2), ('kappa_v2', 1e-3, 5e-2),
                             ('alpha', 0.1, 0.9), ('T_int', 50, 600)):
            if rng.random() < 0.7:
                kw[name] = rnd(rng, lo, hi, log=name.startswith('kappa'))
        t = dict(cls=tk, kw=kw)
    elif tk == 'NPoint':
        npts = int(rng.integers(0, 3))
        lp = np.sort(rng.uniform(np.log10(pmin) + 0.3, np.log10(pmax) - 0.3, npts))[::-1]
        kw = dict(T_surface=rnd(rng, 900, 2200), T_top=rnd(rng, 300, 1200),
                  temperature_points=[rnd(rng, 400, 2000) for _ in range(npts)],
                  pressure_points=[float('%.4g' % 10 ** x) for x in lp])
        if rng.random() < 0.4:
            kw['P_surface'] = pmax * 1.5
        if rng.random() < 0.4:
            kw['P_top'] = pmin / 1.5
        if rng.random() < 0.5:
            kw['smoothing_window'] = int(rng.integers(1, 40))
        if rng.random() < 0.5:
            kw['limit_slope'] = rnd(rng, 1e5, 1e7, True)
        t = dict(cls=tk, kw=kw)
    else:
        kw = dict(temperature_layers=dict(array=[rnd(rng, 500, 2000) for _ in range(nl)]))
        if rng.random() < 0.5:
            kw['correlation_length'] = rnd(rng, 1, 10)
        t = dict(cls=tk, kw=kw)
    spec['temperature'] = t
    fill = [dict(), dict(fill_gases='H2'), dict(fill_gases=['H2', 'He'], ratio=rnd(rng, 0.05, 0.3)),
            dict(fill_gases=['H2', 'He', 'N2'], ratio=[rnd(rng, 0.05, 0.3), rnd(rng, 0.001, 0.05)])][int(rng.integers(4))]
    gases = []
    mols = [str(x) for x in rng.permutation(MOLS)][:int(rng.integers(1, 4))]
    if k % 5 == 2:
        # quota: a fill gas that is itself an absorber with cross-sections loaded (a CO2- or CH4-dominated secondary
        # atmosphere): `active_gases` of the written chemistry then names a molecule that has no gas profile of its own
        act = mols[-1]
        mols = mols[:-1]
        fill = [dict(fill_gases=act), dict(fill_gases=['N2', act], ratio=rnd(rng, 0.05, 0.9)),
                dict(fill_gases=[act, 'He'], ratio=rnd(rng, 0.05, 0.3)),
                dict(fill_gases=['H2', 'He', act], ratio=[rnd(rng, 0.05, 0.3), rnd(rng, 0.001, 0.05)])][int(rng.integers(4))]
    extra = [m for m in ['CO', 'NH3'] if rng.random() < 0.3]
    want_hm = rng.random() < 0.25
    if want_hm:
        extra += ['H', 'e-']
    for mol in mols + extra:
        gk = ['ConstantGas', 'TwoLayerGas', 'PowerGas', 'ArrayGas'][int(rng.integers(4))]
        if mol in ('H', 'e-'):
            gk = 'ConstantGas'
        if gk == 'ConstantGas':
            g = dict(cls=gk, kw=dict(molecule_name=mol, mix_ratio=rnd(rng, 1e-8, 1e-3, True)))
        elif gk == 'TwoLayerGas':
            kw = dict(molecule_name=mol, mix_ratio_surface=rnd(rng, 1e-7, 1e-3, True), mix_ratio_top=rnd(rng, 1e-9, 1e-4, True))
            if rng.random() < 0.7:
                kw['mix_ratio_P'] = rnd(rng, pmin * 10, pmax / 10, True)
            if rng.random() < 0.7:
                kw['mix_ratio_smoothing'] = int(rng.integers(1, 60))
            g = dict(cls=gk, kw=kw)
        elif gk == 'PowerGas':
            g = dict(cls=gk, kw=dict(molecule_name=mol, mix_ratio_surface=rnd(rng, 1e-6, 1e-3, True), alpha=rnd(rng, 0.5, 2),
                                     beta=rnd(rng, 1e4, 6e4), gamma=rnd(rng, 6, 24)))
            if rng.random() < 0.3:
                g['kw']['profile_type'] = ['H2O', 'TiO', 'auto'][int(rng.integers(3))]
            if mol == 'H2O' or g['kw'].get('profile_type') in ('H2O', 'TiO'):
                for name in ('mix_ratio_surface', 'alpha', 'beta', 'gamma'):      # tabulated coefficient ('auto' use)
                    if rng.random() < 0.35:
                        del g['kw'][name]
        else:
            g = dict(cls=gk, kw=dict(molecule_name=mol, mix_ratio_array=dict(array=[rnd(rng, 1e-8, 1e-4, True) for _ in range(nl)])))
        gases.append(g)
    spec['chemistry'] = dict(cls='TaurexChemistry', kw=fill, gases=gases)
    cs = [dict(cls='AbsorptionContribution')]
    if rng.random() < 0.5:
        pairs = [['H2-H2'], ['H2-He'], ['H2-H2', 'H2-He']][int(rng.integers(3))]
        cs.append(dict(cls='CIAContribution', kw=dict(cia_pairs=pairs)))
    if rng.random() < 0.4:
        cs.append(dict(cls='RayleighContribution'))
    if rng.random() < 0.35:
        cs.append(dict(cls='SimpleCloudsContribution', kw=dict(clouds_pressure=rnd(rng, pmin * 10, pmax / 10, True))))
    if rng.random() < 0.3:
        kw = dict(flat_mix_ratio=rnd(rng, 1e-12, 1e-6, True))
        if rng.random() < 0.6:
            kw.update(flat_bottomP=rnd(rng, 1e2, pmax, True), flat_topP=rnd(rng, pmin, 1e1, True))
        cs.append(dict(cls='FlatMieContribution', kw=kw))
    elif rng.random() < 0.3:
        kw = dict(lee_mie_radius=rnd(rng, 0.005, 0.5, True), lee_mie_q=rnd(rng, 1, 80), lee_mie_mix_ratio=rnd(rng, 1e-12, 1e-7, True))
        if rng.random() < 0.6:
            kw.update(lee_mie_bottomP=rnd(rng, 1e2, pmax, True), lee_mie_topP=rnd(rng, pmin, 1e1, True))
        cs.append(dict(cls='LeeMieContribution', kw=kw))
    if want_hm:
        cs.append(dict(cls='HydrogenIon'))
    order = list(rng.permutation(len(cs)))
    spec['contributions'] = [cs[i] for i in order]
    spec['size'] = [1, 3, 6][int(rng.integers(3))]
    spec['binner'] = ['flux', 'simple', 'native'][int(rng.integers(3))]
    return spec


IGNORED_ATTRS = {'_log', '_logger', 'log', '_param_dict', '_derived_dict', '_opacity_cache', '_cia_cache', '_ktable_cache',
                 '_radis_cache', 'sed', '_func', '_fit_params', '_derived_params', '_fitting_parameters',
                 '_derived_parameters', '_initialized', 'sigma_xsec', '_total_contribution', '_total_contrib',
                 # bookkeeping that depends on the order in which gases were added (the file keeps active gases first);
                 # the mixing profiles are compared by molecule name instead
                 '_active_mask', '_inactive_mask', '_mix_profile', 'active_mixratio_profile', 'inactive_mixratio_profile',
                 'mu_profile'}
ATTR_TO_ARG = {'_limit_slope': 'limit_slope', 'new_method': 'new_path_method', 'kappa_ir': 'kappa_irr',
               '_iso_temp': 'T', '_mie_mix': 'mix_ratio', '_cloud_pressure': 'clouds_pressure', '_ngauss': 'ngauss'}


def simple_state(obj):
    out = {}
    for k, v in vars(obj).items():
        if k in IGNORED_ATTRS or k.startswith('_Logger'):
            continue
        if isinstance(v, (bool, int, float, str, np.integer, np.floating, np.bool_)) or v is None:
            out[k] = v
        elif isinstance(v, np.ndarray) and v.dtype.kind in 'bifU':
            out[k] = v
        elif isinstance(v, (list, tuple)) and all(isinstance(x, (bool, int, float, str, np.integer, np.floating)) for x in v):
            out[k] = list(v)
    return out


def values_equal(a, b, rel=1e-12):
    if a is None or b is None:
        return a is None and b is None
    if isinstance(a, str) or isinstance(b, str):
        return str(a) == str(b)
    try:
        a_, b_ = np.asarray(a), np.asarray(b)
        if a_.dtype.kind in 'US' or b_.dtype.kind in 'US':
            return a_.shape == b_.shape and bool(np.all(a_.astype(str) == b_.astype(str)))
        a_, b_ = a_.astype(float), b_.astype(float)
        return a_.shape == b_.shape and C.close(a_.ravel(), b_.ravel(), rel=rel, abs_=0.0)
    except Exception:  # noqa
        return a == b


def unset(v):
    return v is None or (isinstance(v, (int, float, np.integer, np.floating)) and v < 0)


def compare_component(ctx, slot, a, b, case):
    ok = True
    if type(a).__name__ != type(b).__name__:
        ctx.violation('reload-class:' + slot, '%s was %s, reloaded as %s' % (slot, type(a).__name__, type(b).__name__), case)
        return False
    sa, sb = simple_state(a), simple_state(b)
    cname = type(a).__name__
    for k in sorted(set(sa) | set(sb)):
        va, vb = sa.get(k, '<absent>'), sb.get(k, '<absent>')
        if cname == 'NPoint' and k in ('_P_surface', '_P_top') and unset(va) and unset(vb):
            continue
        if cname == 'Rodgers2000' and k == '_covariance' and (va is None or vb is None):
            # write() stores the generated matrix when none was given: the same matrix, now explicit
            full = [x if x is not None else o.gen_covariance() for x, o in ((va, a), (vb, b))]
            if values_equal(full[0], full[1]):
                continue
        if not values_equal(va, vb):
            arg = ATTR_TO_ARG.get(k, k.lstrip('_'))
            ctx.violation('reload-param:%s.%s' % (cname, arg), '%s.%s was %s, reloaded model has %s'
                          % (cname, k, repr(C.jsonable(va))[:120], repr(C.jsonable(vb))[:120]), case)
            ok = False
    return ok


class InvalidSpec(Exception):
    pass


def gen_history(rng):
    """1-3 parameter changes applied between two evaluations of the model, before it is written.  Each is replayable
    without knowing the model: `fit` picks the fitting parameter at the relative position `pick` of the sorted names and
    multiplies its current value by `factor`; `star.temperature` uses the public property setter of the star."""
    ops = []
    if rng.random() < 0.6:
        ops.append(dict(op='star.temperature', factor=rnd(rng, 0.6, 1.5)))
    for _ in range(int(rng.integers(1, 3))):
        ops.append(dict(op='fit', pick=float('%.4f' % rng.random()), factor=rnd(rng, 0.6, 1.5)))
    return [ops[i] for i in rng.permutation(len(ops))]


def apply_history(m, history):
    """apply the parameter changes to the built (and already evaluated) model; returns the names changed"""
    changed = []
    for h in history:
        if h['op'] == 'star.temperature':
            m.star.temperature = float(m.star.temperature) * float(h['factor'])
            changed.append('star.temperature')
        else:
            # (a fitting parameter whose current value is None - a coefficient left to an automatic profile - has no
            # value to change and is not picked)
            names = [n for n in sorted(m.fittingParameters) if isinstance(m[n], (int, float, np.integer, np.floating))]
            name = names[min(int(float(h['pick']) * len(names)), len(names) - 1)]
            cur = m[name]
            m[name] = float(cur) * float(h['factor'])
            changed.append(name)
    return changed


class LoaderProbe:
    """observes taurex.util.hdf5.load_generic_profile_from_hdf5 while a model is rebuilt: for every component
    group, the keyword arguments the real loader passes to the constructor vs Output.loadKwargs on the group's
    datasets (model driver)"""

    def __init__(self, ctx, case):
        self.ctx, self.case = ctx, case

    def __enter__(self):
        import h5py
        import taurex.util.hdf5 as H
        self.H = H
        self.saved = (H.class_for_name, H.get_klass_args, H.load_generic_profile_from_hdf5)
        orig_cfn, orig_gka, orig_load = self.saved
        probe = self
        last = {}

        def cfn(name):
            K = orig_cfn(name)

            def __init__(self_, *a, **kw):
                last['kw'] = dict(kw)
                K.__init__(self_, *a, **kw)
            return type(K.__name__, (K,), {'__init__': __init__, '_verif_base': K, '__module__': K.__module__})

        def gka(klass):
            return orig_gka(getattr(klass, '_verif_base', klass))

        def load(loc, module, identifier, profile_type=None, premade_dict=None, replacement_dict=None):
            last.clear()
            premade = set(premade_dict or {})
            obj = orig_load(loc, module, identifier, profile_type=profile_type, premade_dict=premade_dict,
                            replacement_dict=replacement_dict)
            try:
                entries = {k: real_load(loc[k]) for k in loc.keys() if not isinstance(loc[k], h5py.Group)}
                base = getattr(type(obj), '_verif_base', type(obj))
                ctorkw = [k for k in orig_gka(base) if k not in premade]
                got = {k: v for k, v in last.get('kw', {}).items() if k not in premade}
                d = probe.ctx.model().call('c16.reload', C.S(identifier), C.L([], C.N), C.L(ctorkw, C.S), *enc(entries))
                if d.nat() == 1:
                    if d.nat() == 1:
                        dec_value(d)
                    m_kw = dec_value(d)[1]
                    probe.ctx.check_eq('component %s: constructor keywords passed by the loader vs Output.loadKwargs'
                                       % base.__name__, cv(got)[1], m_kw, dict(probe.case, component=base.__name__))
                    probe.ctx.bucket('model:loader-kwargs-compared')
            except C.InfraError:
                raise
            return obj
        H.class_for_name, H.get_klass_args, H.load_generic_profile_from_hdf5 = cfn, gka, load
        return self

    def __exit__(self, *a):
        self.H.class_for_name, self.H.get_klass_args, self.H.load_generic_profile_from_hdf5 = self.saved
        return False


def eval_model(ctx, scratch, spec, stream='model'):
    return _guard(ctx, stream, dict(stream=stream, spec=spec), _eval_model, ctx, scratch, spec, stream)


def _eval_model(ctx, scratch, spec, stream='model'):
    """returns True when the round trip was evaluated completely"""
    import h5py
    from taurex.output.hdf5 import HDF5Output
    from taurex.util.hdf5 import taurex_hdf5_to_model
    from taurex.util.output import store_contributions
    setup_opacities()
    case = dict(stream=stream, spec=spec)
    files = {}
    if spec.get('files'):
        for name, rows in spec['files'].items():
            p = os.path.join(scratch.dir, name)
            np.savetxt(p, np.asarray(rows, float))
            files[name] = p
    label = spec.get('label') or spec['model']['cls']
    try:
        m = build_model(spec, files)
        m.build()
        res = m.model()
    except Exception as e:  # noqa  the configuration itself is not a valid model: not a C16 matter
        raise InvalidSpec(type(e).__name__)
    if spec.get('history'):
        # the model has a HISTORY before it is written: it was evaluated (above), then parameters were changed through the
        # public setters (fitting-parameter interface, star.temperature), then it was evaluated again.  What is written and
        # rebuilt must be the model as it is NOW: current parameter values, and the spectrum it returns now.
        try:
            changed = apply_history(m, spec['history'])
            res = m.model()
        except Exception as e:  # noqa  the changed parameter set is not a valid model: not a C16 matter
            raise InvalidSpec('history:' + type(e).__name__)
        for nm in changed:
            ctx.bucket('model-history:changed:' + nm)
        ctx.bucket('model-history:%s:%s' % (spec['model']['cls'], 'star-changed' if 'star.temperature' in changed
                                            else 'star-unchanged'))
    fn = scratch.path()
    ctx.case(key=(stream, spec['model']['cls'], spec['temperature']['cls'],
                  tuple(sorted(g['cls'] for g in spec['chemistry'].get('gases', []))),
                  tuple(sorted(c['cls'] for c in spec['contributions']))),
             sample=dict(stream=stream, model=spec['model'], temperature=spec['temperature']['cls'],
                         contributions=[c['cls'] for c in spec['contributions']]),
             bucket='%s:%s' % (stream, label))
    fg = (spec['chemistry'].get('kw') or {}).get('fill_gases', [])
    if any(x in MOLS for x in ([fg] if isinstance(fg, str) else list(fg))):
        ctx.bucket('%s:fill-gas-is-an-absorber:%d-fill-gases' % (stream, 1 if isinstance(fg, str) else len(fg)))
    culprit = spec.get('culprit')
    try:
        with HDF5Output(fn) as o:
            m.write(o)
    except Exception as e:  # noqa
        ctx.violation('write-raises:' + (culprit or label), 'model.write raised %r' % (e,), case)
        scratch.remove(fn)
        return False
    # the forward-model part of the output file, as taurex.py writes it
    size = spec.get('size', 6)
    binner = None
    try:
        bgrid = np.linspace(WN_OPAC[2], WN_OPAC[-3], 9)
        binner = make_binner(spec.get('binner', 'native'), bgrid, None)
        profiles = m.generate_profiles()
        if any(v is None for v in profiles.values()):
            # a chemistry in which every gas is an absorber (absorbing fill gas + active trace gases, no inactive gas at all) has
            # inactiveGasMixProfile = None; generate_profiles() puts that None under 'inactive_mix_profile' and
            # store_dictionary raises ValueError("Cannot save <class 'NoneType'> type"): the program cannot write its
            # output.  A genuine defect, recorded as a known finding (known_findings.txt, DESIGN §6: the repair changes the type
            # of a public property other code tests for None); the None entries are left out so that the rest of the file
            # (spectra, reload) is still judged.
            none_keys = sorted(kk for kk, v in profiles.items() if v is None)
            ctx.violation('output-profiles-hold-None:' + '+'.join(none_keys), 'generate_profiles() holds None entries: '
                          'store_dictionary(profiles) raises, the program cannot write Output/Profiles', case,
                          dict(none_entries=none_keys))
            profiles = {kk: v for kk, v in profiles.items() if v is not None}
        spectrum = binner.generate_spectrum_output(res, output_size=size)
        try:
            spectrum['Contributions'] = store_contributions(binner, m, output_size=size - 3)
        except Exception:  # noqa  (taurex.py ignores a failure here)
            ctx.bucket('model:store_contributions-raised')
        with HDF5Output(fn, append=True) as o:
            out = o.create_group('Output')
            out.store_dictionary(profiles, group_name='Profiles')
            out.store_dictionary(spectrum, group_name='Spectra')
    except Exception as e:  # noqa
        ctx.violation('output-raises:' + label, 'writing Output/Profiles, Output/Spectra raised %r' % (e,), case)
        scratch.remove(fn)
        return False
    with h5py.File(fn, 'r') as f:
        stored = real_load(f['Output']['Spectra'])
        stored_prof = real_load(f['Output']['Profiles'])
    top = {k: v for k, v in stored.items() if not isinstance(v, dict)}
    try:
        judge_spectrum(ctx, top, lambda: make_binner(spec.get('binner', 'native'), bgrid, None),
                       spec.get('binner', 'native'), size, np.asarray(res[2]), case, prefix='stored-')
    except Exception as e:  # noqa  the stored entries are not even usable as the arrays they were
        ctx.violation('stored-spectra-unusable', 'Output/Spectra cannot be checked for consistency: %r' % (e,), case)
    # the per-contribution and per-component dictionaries follow the SAME size rule (taurex.py stores them with size-3)
    csz = size - 3
    bkind = spec.get('binner', 'native')
    for cname, cd in (stored.get('Contributions') or {}).items():
        if not isinstance(cd, dict):
            continue
        levels = [('contribution ' + cname, {k: v for k, v in cd.items() if not isinstance(v, dict)})]
        levels += [('component %s/%s' % (cname, k), v) for k, v in cd.items() if isinstance(v, dict)]
        for where, dd in levels:
            if not dd:
                continue
            ctx.bucket('model:contribution-dict-size-rule')
            if ('native_tau' in dd) != (csz > 3):
                ctx.violation('stored-contribution-native-tau-presence', '%s: native_tau present=%s although the requested '
                              'output size (%d for contributions) says %s' % (where, 'native_tau' in dd, csz, csz > 3), case)
            if bkind != 'native' and 'binned_spectrum' in dd and ('binned_tau' in dd) != (csz > 1):
                ctx.violation('stored-contribution-binned-tau-presence', '%s: binned_tau present=%s although the requested '
                              'output size (%d for contributions) says %s' % (where, 'binned_tau' in dd, csz, csz > 1), case)
    if not values_equal(top.get('native_spectrum'), res[1], rel=0.0) or not values_equal(top.get('native_wngrid'), res[0], rel=0.0):
        ctx.violation('stored-native-spectrum', 'Output/Spectra native grid/spectrum is not the model result', case)
    for k, v in profiles.items():
        if k not in stored_prof or not values_equal(stored_prof[k], v, rel=0.0):
            ctx.violation('stored-profile:' + k, 'Output/Profiles/%s is not the model profile' % k, case)
    if profiles and not values_equal(stored_prof.get('pressure_profile'), m.pressureProfile, rel=0.0):
        ctx.violation('stored-profile:pressure_profile', 'stored pressure profile differs', case)
    # ---- reload
    try:
        with LoaderProbe(ctx, case):
            m2 = taurex_hdf5_to_model(fn)
        m2.build()
        res2 = m2.model()
    except Exception as e:  # noqa
        ctx.violation('reload-raises:' + (culprit or label), 'taurex_hdf5_to_model / rebuilt model raised %r' % (e,), case)
        scratch.remove(fn)
        return False
    scratch.remove(fn)
    ok = compare_component(ctx, 'model', m, m2, case)
    for slot, a, b in (('planet', m._planet, m2._planet), ('star', m._star, m2._star),
                       ('pressure', m._pressure_profile, m2._pressure_profile),
                       ('temperature', m._temperature_profile, m2._temperature_profile),
                       ('chemistry', m._chemistry, m2._chemistry)):
        ok = compare_component(ctx, slot, a, b, case) and ok
    try:
        names1 = sorted(list(m._chemistry.activeGases) + list(m._chemistry.inactiveGases))
        names2 = sorted(list(m2._chemistry.activeGases) + list(m2._chemistry.inactiveGases))
        if names1 != names2 or sorted(m._chemistry.activeGases) != sorted(m2._chemistry.activeGases):
            ctx.violation('reload-gases', 'gases %r reloaded as %r' % (names1, names2), case)
            ok = False
        else:
            for name in names1:
                if not values_equal(m._chemistry.get_gas_mix_profile(name), m2._chemistry.get_gas_mix_profile(name)):
                    ctx.violation('reload-mixprofile:' + name, 'mixing profile of %s differs after reload' % name, case)
                    ok = False
        if not values_equal(m._chemistry.muProfile, m2._chemistry.muProfile):
            ctx.violation('reload-muprofile', 'mean molecular weight profile differs after reload', case)
            ok = False
    except Exception as e:  # noqa
        ctx.violation('reload-chemistry-unusable', 'chemistry of the reloaded model cannot be queried: %r' % (e,), case)
        ok = False
    g1 = {g.molecule: g for g in getattr(m._chemistry, '_gases', [])}
    g2 = {g.molecule: g for g in getattr(m2._chemistry, '_gases', [])}
    if sorted(g1) != sorted(g2):
        ctx.violation('reload-gases', 'gases %r reloaded as %r' % (sorted(g1), sorted(g2)), case)
        ok = False
    for mol in sorted(set(g1) & set(g2)):
        ok = compare_component(ctx, 'gas:' + mol, g1[mol], g2[mol], case) and ok
    c1 = [type(c).__name__ for c in m.contribution_list]
    c2 = [type(c).__name__ for c in m2.contribution_list]
    if sorted(c1) != sorted(c2):
        ctx.violation('reload-contributions', 'contributions %r reloaded as %r' % (c1, c2), case)
        ok = False
    for a in m.contribution_list:
        for b in m2.contribution_list:
            if type(a) is type(b):
                ok = compare_component(ctx, 'contribution:' + type(a).__name__, a, b, case) and ok
    f1 = {k: v[2]() for k, v in m.fittingParameters.items()}
    f2 = {k: v[2]() for k, v in m2.fittingParameters.items()}
    if sorted(f1) != sorted(f2):
        ctx.violation('reload-fitting-names', 'fitting parameters differ: %r' % sorted(set(f1) ^ set(f2)), case)
        ok = False
    for k in sorted(set(f1) & set(f2)):
        if not values_equal(f1[k], f2[k]) and not (unset(f1[k]) and unset(f2[k])):
            ctx.violation('reload-fitparam:' + k, 'fitting parameter %s was %r, reloaded %r' % (k, f1[k], f2[k]), case)
            ok = False
    d1, d2 = sorted(m.derivedParameters), sorted(m2.derivedParameters)
    if d1 != d2:
        diff = set(d1) ^ set(d2)
        if all(x.endswith('_ratio') for x in diff):
            # TaurexChemistry(derived_ratios=...) is not written: the reloaded model lacks the derived (computed, not
            # constructor-valued) quantities; types, parameter values and spectrum are unaffected -> recorded, not judged
            ctx.malformed_outcome('derived_ratios-not-reloaded')
            if len(ctx.notes) < 3:
                ctx.notes.append('TaurexChemistry.derived_ratios is not stored by write(): reloaded model lacks %r' % sorted(diff))
        else:
            ctx.violation('reload-derived-names', 'derived parameters %r reloaded as %r' % (d1, d2), case)
            ok = False
    band = 0.0
    if c1 != c2 and spec['model']['cls'] == 'TransmissionModel':
        # the file keeps contributions by name, not in insertion order; path_integral skips the remaining contributions
        # of a layer once tau > 10, so a different order may differ inside the licensed exp(-10) band (C01 depth_cut_within)
        band = math.exp(-10) * float(np.sum(2 * (m._planet.fullRadius + m.altitudeProfile) * m.deltaz)) / m._star.radius ** 2
        ctx.bucket('model:contribution-order-changed')
    same = values_equal(res[0], res2[0], rel=0.0) and np.shape(res[1]) == np.shape(res2[1]) and \
        C.close(np.asarray(res[1]).ravel(), np.asarray(res2[1]).ravel(), rel=1e-10, abs_=band)
    ctx.disagreements_checked += 1
    if not same:
        ctx.violation('reload-spectrum:' + (culprit or label), 'the reloaded model produces a different spectrum '
                      '(max rel %.3g)' % float(np.max(np.abs(np.asarray(res[1]) - np.asarray(res2[1])) / np.abs(res[1]))
                                               if np.shape(res[1]) == np.shape(res2[1]) else float('nan')), case)
        ok = False
    if ok:
        ok = second_generation(ctx, scratch, m2, res, f1, case, culprit or label, band) and ok
    return ok


def second_generation(ctx, scratch, m2, res, f1, case, label, band):
    """the rebuilt model is written and reloaded once more (re-running from an output file, then from that run's output):
    what the loader hands to the constructors (numpy arrays, numpy scalars, decoded strings) must be written back as
    faithfully as what the user handed over"""
    from taurex.output.hdf5 import HDF5Output
    from taurex.util.hdf5 import taurex_hdf5_to_model
    fn2 = scratch.path()
    ctx.bucket('model:second-generation')
    try:
        with HDF5Output(fn2) as o:
            m2.write(o)
        m3 = taurex_hdf5_to_model(fn2)
        m3.build()
        res3 = m3.model()
    except Exception as e:  # noqa
        ctx.violation('second-generation-raises:' + label, 'writing / reloading the REBUILT model raised %r' % (e,), case)
        scratch.remove(fn2)
        return False
    scratch.remove(fn2)
    ok = True
    f3 = {k: v[2]() for k, v in m3.fittingParameters.items()}
    if sorted(f3) != sorted(f1):
        ctx.violation('second-generation-fitting-names', 'fitting parameters differ after the second round trip: %r'
                      % sorted(set(f1) ^ set(f3)), case)
        ok = False
    for k in sorted(set(f1) & set(f3)):
        if not values_equal(f1[k], f3[k]) and not (unset(f1[k]) and unset(f3[k])):
            ctx.violation('second-generation-fitparam:' + k, 'fitting parameter %s was %r, after two round trips %r'
                          % (k, f1[k], f3[k]), case)
            ok = False
    same = values_equal(res[0], res3[0], rel=0.0) and np.shape(res[1]) == np.shape(res3[1]) and \
        C.close(np.asarray(res[1]).ravel(), np.asarray(res3[1]).ravel(), rel=1e-10, abs_=band)
    ctx.disagreements_checked += 1
    if not same:
        ctx.violation('second-generation-spectrum:' + label, 'the model rebuilt from the output of a rebuilt model produces a '
                      'different spectrum', case)
        ok = False
    return ok


def base_spec():
    return dict(model=dict(cls='TransmissionModel', kw={}), planet=dict(cls='Planet', kw=dict(planet_mass=1.1, planet_radius=0.9)),
                star=dict(cls='BlackbodyStar', kw=dict(temperature=5500, radius=0.9)),
                pressure=dict(cls='SimplePressureProfile', kw=dict(nlayers=10, atm_min_pressure=1e-2, atm_max_pressure=1e6)),
                temperature=dict(cls='Isothermal', kw=dict(T=1200.0)),
                chemistry=dict(cls='TaurexChemistry', kw={}, gases=[dict(cls='ConstantGas', kw=dict(molecule_name='H2O', mix_ratio=1e-4))]),
                contributions=[dict(cls='AbsorptionContribution')], size=6, binner='flux')


def special_specs():
    """one configuration per component that the main stream leaves out (each reported under its own key)"""
    P = [float('%.6g' % x) for x in np.logspace(6, -2, 10)]
    out = []

    def mk(label, culprit, **upd):
        s = base_spec()
        s.update(upd)
        s['label'] = label
        s['culprit'] = culprit
        out.append(s)
    mk('Star', 'Star', star=dict(cls='Star', kw=dict(temperature=5000, radius=1.0)))
    mk('TemperatureArray', 'TemperatureArray',
       temperature=dict(cls='TemperatureArray', kw=dict(tp_array=dict(array=list(np.linspace(1500, 600, 10))))))
    mk('TwoPointGas', 'TwoPointGas',
       chemistry=dict(cls='TaurexChemistry', kw={}, gases=[dict(cls='TwoPointGas', kw=dict(molecule_name='CH4', mix_ratio_surface=1e-4, mix_ratio_top=1e-7))]))
    mk('PowerGas-auto', 'PowerGas',
       chemistry=dict(cls='TaurexChemistry', kw={}, gases=[dict(cls='PowerGas', kw=dict(molecule_name='H2O'))]))
    mk('derived_ratios', 'TaurexChemistry',
       chemistry=dict(cls='TaurexChemistry', kw=dict(derived_ratios=['C/O']),
                      gases=[dict(cls='ConstantGas', kw=dict(molecule_name='H2O', mix_ratio=1e-4)),
                             dict(cls='ConstantGas', kw=dict(molecule_name='CH4', mix_ratio=1e-5))]))
    mk('ArrayPressureProfile', 'ArrayPressureProfile', pressure=dict(cls='ArrayPressureProfile', args=[dict(array=P)]))
    mk('FilePressureProfile', 'FilePressureProfile', files={'p.dat': P},
       pressure=dict(cls='FilePressureProfile', kw=dict(filename=dict(file='p.dat'))))
    mk('TemperatureFile', 'TemperatureFile', files={'t.dat': [[t, p] for t, p in zip(np.linspace(1500, 600, 10), P)]},
       temperature=dict(cls='TemperatureFile', kw=dict(filename=dict(file='t.dat'), temp_col=0, press_col=1)))
    mk('ChemistryFile', 'ChemistryFile', files={'c.dat': [[1e-4, 0.8, 0.1999]] * 10},
       chemistry=dict(cls='ChemistryFile', kw=dict(gases=['H2O', 'H2', 'He'], filename=dict(file='c.dat')), gases=[]))
    return out


# falsy-but-valid constructor values (exact zeros, False, empty lists): a write() that tests `if value:` instead of
# `if value is not None:` drops exactly these.  (slot, class, keyword values, minimal other keywords)
FALSY = [
    ('planet', 'Planet', dict(impact_param=0.0), {}),
    ('planet', 'Planet', dict(albedo=0.0), {}),
    ('planet', 'Planet', dict(transit_time=0.0), {}),
    ('planet', 'Planet', dict(orbital_period=0.0), {}),
    ('star', 'BlackbodyStar', dict(magnitudeK=0.0), {}),
    ('star', 'BlackbodyStar', dict(metallicity=0.0), {}),
    ('star', 'BlackbodyStar', dict(distance=0), {}),
    ('temperature', 'Guillot2010', dict(T_int=0.0), dict(T_irr=1400.0)),
    ('temperature', 'Guillot2010', dict(alpha=0.0), dict(T_irr=1400.0)),
    ('temperature', 'NPoint', dict(smoothing_window=0), dict(T_surface=1500.0, T_top=400.0)),
    ('temperature', 'NPoint', dict(temperature_points=[], pressure_points=[]), dict(T_surface=1500.0, T_top=400.0)),
    ('gas', 'ConstantGas', dict(mix_ratio=0.0), {}),
    ('gas', 'TwoLayerGas', dict(mix_ratio_smoothing=0), dict(mix_ratio_surface=1e-4, mix_ratio_top=1e-6)),
    ('gas', 'PowerGas', dict(alpha=0.0), dict(mix_ratio_surface=1e-4, beta=2e4, gamma=10.0)),
    ('gas', 'PowerGas', dict(beta=0.0), dict(mix_ratio_surface=1e-4, alpha=1.0, gamma=10.0)),
    ('gas', 'PowerGas', dict(gamma=0.0), dict(mix_ratio_surface=1e-4, alpha=1.0, beta=2e4)),
    ('gas', 'PowerGas', dict(beta=0.0), {}),            # the other coefficients from the automatic (H2O) profile
    ('gas', 'PowerGas', dict(alpha=0.0, gamma=0.0), {}),
    ('gas', 'ArrayGas', dict(mix_ratio_array='zeros'), {}),
    ('chemistry', 'TaurexChemistry', dict(fill_gases=['H2', 'He'], ratio=0.0), {}),
    ('chemistry', 'TaurexChemistry', dict(fill_gases=['H2', 'He', 'N2'], ratio=[0.0, 0.0]), {}),
    ('contribution', 'SimpleCloudsContribution', dict(clouds_pressure=0.0), {}),
    ('contribution', 'FlatMieContribution', dict(flat_mix_ratio=0.0), {}),
    ('contribution', 'FlatMieContribution', dict(flat_topP=0.0), dict(flat_mix_ratio=1e-7, flat_bottomP=1e4)),
    ('contribution', 'FlatMieContribution', dict(flat_bottomP=0.0), dict(flat_mix_ratio=1e-7, flat_topP=1.0)),
    ('contribution', 'LeeMieContribution', dict(lee_mie_mix_ratio=0.0), {}),
    ('contribution', 'LeeMieContribution', dict(lee_mie_q=0.0), dict(lee_mie_mix_ratio=1e-8)),
    ('contribution', 'LeeMieContribution', dict(lee_mie_topP=0.0), dict(lee_mie_mix_ratio=1e-8, lee_mie_bottomP=1e4)),
    ('contribution', 'CIAContribution', dict(cia_pairs=[]), {}),
    ('model', 'TransmissionModel', dict(new_path_method=False), {}),
    ('model', 'EmissionModel', dict(ngauss=1), {}),
]


def falsy_label(e):
    return '%s.%s' % (e[1], '+'.join(sorted(e[2])))


def spec_nlayers(spec):
    if spec.get('pressure') is not None:
        return int(spec['pressure']['kw'].get('nlayers', 100))
    return int(spec['model'].get('kw', {}).get('nlayers', 100))


def apply_falsy(spec, e):
    slot, cls, kw, base = e
    kw = dict(kw)
    if kw.get('mix_ratio_array') == 'zeros':
        kw['mix_ratio_array'] = dict(array=[0.0] * spec_nlayers(spec))
    if slot in ('planet', 'star'):
        spec[slot]['kw'].update(kw)
    elif slot == 'temperature':
        if spec['temperature']['cls'] == cls:
            spec['temperature']['kw'].update(kw)
        else:
            spec['temperature'] = dict(cls=cls, kw=dict(base, **kw))
    elif slot == 'gas':
        mol = 'H2O'
        gases = [g for g in spec['chemistry'].get('gases', []) if g['kw'].get('molecule_name') != mol]
        if not any(g['kw'].get('molecule_name') in MOLS for g in gases):
            gases.append(dict(cls='ConstantGas', kw=dict(molecule_name='CH4', mix_ratio=1e-5)))
        gases.append(dict(cls=cls, kw=dict(base, molecule_name=mol, **kw)))
        spec['chemistry']['gases'] = gases
    elif slot == 'chemistry':
        spec['chemistry']['kw'] = kw
        spec['chemistry']['gases'] = [g for g in spec['chemistry'].get('gases', [])
                                      if g['kw'].get('molecule_name') not in ('H2', 'He', 'N2')]
    elif slot == 'contribution':
        spec['contributions'] = [c for c in spec['contributions'] if c['cls'] != cls] + [dict(cls=cls, kw=dict(base, **kw))]
    elif slot == 'model':
        spec['model']['cls'] = cls
        mk = {k: v for k, v in spec['model'].get('kw', {}).items() if k in ('nlayers', 'atm_min_pressure', 'atm_max_pressure')}
        mk.update(kw)
        spec['model']['kw'] = mk
    spec['label'] = 'falsy:' + falsy_label(e)
    return spec


def stream_model(ctx, scratch):
    # fixed quota: every falsy-but-valid constructor value once on the reference configuration ...
    for e in FALSY:
        s = apply_falsy(base_spec(), e)
        try:
            eval_model(ctx, scratch, s, stream='model-falsy')
            ctx.bucket('model-falsy:evaluated')
        except InvalidSpec as ex:
            ctx.malformed_outcome('falsy-invalid:%s:%s' % (falsy_label(e), ex))
    # histories: the model is evaluated, parameters are changed through the public setters, it is evaluated again and
    # only then written and rebuilt (what a retrieval does before it stores its solution; what a script does between two
    # forward models) - every model kind by quota
    k = 0
    done = 0
    want = ctx.n(36, 600)
    while done < want and k < 4 * want:
        spec = gen_model_spec(ctx.rng, k)
        spec['history'] = gen_history(ctx.rng)
        k += 1
        try:
            eval_model(ctx, scratch, spec, stream='model-history')
            done += 1
        except InvalidSpec as e:
            ctx.malformed_outcome('model-history:%s' % e)
    for s in special_specs():
        try:
            eval_model(ctx, scratch, s, stream='model-special')
        except InvalidSpec as e:
            ctx.malformed_outcome('special:%s:%s' % (s['label'], e))
    k = 0
    done = 0
    want = ctx.n(80, 1500)
    while done < want and k < 4 * want:
        spec = gen_model_spec(ctx.rng, k)
        if k % 3 == 0:          # ... and one of them injected into every third random configuration
            spec = apply_falsy(spec, FALSY[int(ctx.rng.integers(len(FALSY)))])
            ctx.bucket('model:falsy-injected')
        k += 1
        try:
            eval_model(ctx, scratch, spec)
            done += 1
        except InvalidSpec as e:    # invalid physical configuration (slope limit, missing CIA partner ...)
            ctx.malformed_outcome('model-build:%s' % e)


# ----------------------------------------------------------------------------------------------- externals
def validate_numpy(ctx):
    """assumed external: np.array(list) vs Output.toNd (through c16.write_list) is exercised by stream_group;
    compute_bin_edges / wnwidth_to_wlwidth vs the model"""
    from taurex.util.util import compute_bin_edges, wnwidth_to_wlwidth
    rng = ctx.rng
    for _ in range(ctx.n(30, 300)):
        n = int(rng.integers(2, 30))
        g = np.sort(rng.uniform(100, 5000, n))
        if rng.random() < 0.3:
            g = g[::-1].copy()
        e, w = compute_bin_edges(g)
        d = ctx.model().call('c16.edges', C.L(g))
        ctx.check_close('compute_bin_edges edges', e, d.list(), dict(g=g), rel=1e-13)
        ctx.check_close('compute_bin_edges widths', w, d.list(), dict(g=g), rel=1e-9, abs_=1e-9)
        ww = rng.uniform(0.1, 50, n)
        d = ctx.model().call('c16.wlwidth', C.L(g), C.L(ww))
        ctx.check_close('wnwidth_to_wlwidth', wnwidth_to_wlwidth(g, ww), d.list(), dict(g=g, w=ww), rel=1e-13)
        ctx.bucket('externals')


# ----------------------------------------------------------------------------------------------- entry points
def stream_program(ctx, scratch):
    """the command-line program with `-o` and every combination of the size flags: the output file holds what the
    requested size says — per-contribution dictionaries are stored (at size-3) whenever the model has contributions,
    optical depths are present exactly when the size asks for them; `--lighter` wins over `--light` in either order"""
    import sys as _sys
    import io
    import contextlib
    import h5py
    import taurex.taurex as T
    from harness import c15 as K15
    rng = ctx.rng
    K15.quiet()
    opac = K15.make_opacities(scratch.dir, rng)
    combos = [[], ['--light'], ['--lighter'], ['--light', '--lighter'], ['--lighter', '--light']]
    for it in range(ctx.n(2, 10)):
        case15 = K15.gen_cli_case(rng, opac)
        par = os.path.join(scratch.dir, 'prog.par')
        # a manual binning section, so that binned optical depths exist and light / lighter can be told apart
        pfile = list(case15['file']) + [('Binning', dict(scalars=[('bin_type', 'manual'),
                                                                 ('wavenumber_grid', ['600.0', '5500.0', '12'])], subs=[]))]
        K15.write_file(par, pfile)
        for flags in combos:
            size = 1 if '--lighter' in flags else (3 if '--light' in flags else 6)
            out = os.path.join(scratch.dir, 'prog_out.h5')
            if os.path.exists(out):
                os.remove(out)
            case = dict(stream='program', flags=flags, file=case15['file'])
            K15.clear_caches()
            argv = _sys.argv
            _sys.argv = ['taurex', '-i', par, '-o', out] + flags
            try:
                with contextlib.redirect_stdout(io.StringIO()):
                    T.main()
            except BaseException as e:  # noqa
                if isinstance(e, KeyboardInterrupt):
                    raise
                ctx.violation('program-raises', 'taurex -i f -o out %s raised %r' % (' '.join(flags), e), case)
                continue
            finally:
                _sys.argv = argv
            with h5py.File(out, 'r') as f:
                sp = f['Output/Spectra']
                keys = set(sp.keys())
                contribs = {}
                if 'Contributions' in sp:
                    for cn in sp['Contributions']:
                        contribs[cn] = set(sp['Contributions'][cn].keys())
                ncontrib_sections = sum(1 for n_, sec in case15['file'] if n_ == 'Model' for _ in sec['subs'])
            ctx.case(key=('program', tuple(flags)), bucket='program:size=%d' % size, sample=dict(flags=flags, keys=sorted(keys)[:6]))
            ctx.disagreements_checked += 2
            if ('binned_tau' in keys) != (size > 1):
                ctx.violation('program-binned-tau-presence', 'taurex %s: binned_tau present=%s in Output/Spectra although the '
                              'requested size is %d' % (' '.join(flags), 'binned_tau' in keys, size), case)
            if ('native_tau' in keys) != (size > 3):
                ctx.violation('program-native-tau-presence', 'taurex %s: native_tau present=%s in Output/Spectra although the '
                              'requested size is %d' % (' '.join(flags), 'native_tau' in keys, size), case)
            if ncontrib_sections and not contribs:
                ctx.violation('program-contributions-missing', 'taurex %s: the model has contributions but Output/Spectra/'
                              'Contributions was not written' % ' '.join(flags), case)
            for cn, ck in contribs.items():
                if ('native_tau' in ck) != (size - 3 > 3):
                    ctx.violation('program-contribution-tau-presence', 'taurex %s: contribution %s native_tau present=%s '
                                  'although contributions are stored at size %d' % (' '.join(flags), cn, 'native_tau' in ck,
                                                                                 size - 3), case)
    K15.clear_caches()


def run(ctx):
    scratch = Scratch()
    try:
        validate_numpy(ctx)
        stream_program(ctx, scratch)
        stream_dict(ctx, scratch)
        stream_group(ctx, scratch)
        stream_component(ctx, scratch)
        stream_spectrum(ctx, scratch)
        stream_model(ctx, scratch)
    finally:
        scratch.close()


def replay(ctx, case):
    if 'stream' not in case and isinstance(case.get('case'), dict):
        case = case['case']          # a replay file written by main.py wraps the case
    scratch = Scratch()
    try:
        s = case.get('stream')
        if s == 'dict':
            eval_dict(ctx, scratch, fromjson(case['value']), case.get('cls', 'regular'), case.get('group', 'G'),
                      note=case.get('note'))
        elif s == 'group':
            eval_group(ctx, scratch, case['name'], fromjson(case['value']), case['op'])
        elif s == 'component':
            eval_component(ctx, scratch, case['typekey'], case['ctorkw'], fromjson(case['entries']))
        elif s == 'spectrum':
            eval_spectrum(ctx, scratch, case)
        elif s == 'spectrum-reuse':
            eval_spectrum_reuse(ctx, scratch, case)
        elif s in ('model', 'model-special', 'model-falsy', 'model-history'):
            eval_model(ctx, scratch, case['spec'], stream=s)
        else:
            raise C.InfraError('unknown C16 case ' + repr(s))
    finally:
        scratch.close()
